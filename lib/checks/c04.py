from checks.mux_common import mc, drive, validate, gated_replay, stray_frames, __doc__  # noqa
import vlib


def notify_slot(ctx, q):
    """Pushed notifications go only to the notification subscriber: the WebSocket client's one-live-subscriber slot
    (spec/NotifySub.tla) under concurrent subscribe / unsubscribe / receiver drops while a raw peer pushes notifies."""
    import json
    ctx.tlc_mc("NotifySub", "MC_NotifySub.cfg", workers=4, must_cover=["SubscribeOk", "Unsubscribe", "DropReceiver", "ReaderSnap", "ReaderSend"])
    ctx.tlc_mc("NotifySub", "MC_NotifySub_clearany.cfg", workers=4, expect_violation="LiveSubscriberKept")
    tr, sm = ctx.work / "nsub.ndjson", ctx.work / "nsub.json"
    ctx.vh("nsub", "--seed", ctx.seed, "--scenarios", 40 if q else 400, "--notes", 40, "--ops", 14, "--out", tr, "--summary", sm, timeout=1500)
    st = json.loads(sm.read_text())
    cur, bad = tr, 0
    for attempt in range(6):
        res = ctx.tlc_trace("Trace_NotifySub", "Trace_NotifySub.cfg", cur, timeout=900)
        if res["accepted"]:
            break
        evs = vlib.read_ndjson(cur)
        line = res["unmatched"] or 1
        ev = evs[min(line, len(evs)) - 1]
        start, run_evs = vlib.run_of_line(evs, line)
        what = {"ns_sub": "subscribe_notifies " + ("displaced a live subscriber" if ev.get("ok") else "refused although no live subscriber was installed"),
                "ns_snap_end": "the response loop saw a slot the subscription history does not explain",
                "ns_snap_begin": "the response loop took the next notify before finishing the previous one (its send neither succeeded nor was reported failed)",
                "ns_sendfail": "the stale-slot decision after a failed send is not the specification's (a fresh subscription cleared, or a corpse kept)",
                "res": "a receiver holds notifies the specification does not give it (lost, duplicated, reordered or foreign)",
                "quiesce": "a pushed notify was never handled"}.get(ev.get("ev"))
        if what is None:
            raise vlib.ToolError(f"notify-slot trace rejected at line {line} on {ev}: {res['detail']}")
        ctx.violation(f"nsub:{ev.get('ev')}:{ev.get('ok', ev.get('cleared', ''))}", f"{what}: {json.dumps(ev)} ({res['detail']})", {"run_events": run_evs, "line_in_run": line - start})
        bad += 1
        rest = evs[:start] + evs[start + len(run_evs):]
        cur = ctx.work / f"nsub-r{attempt}.ndjson"
        cur.write_text("".join(json.dumps(e) + "\n" for e in rest))
    ctx.coverage["notify_slot"] = st
    ctx.coverage["traces_validated_against_impl"] += st["scenarios"] - bad
    ctx.coverage["evaluations"] += st["events"]
    if bad == 0 and (st["refused"] == 0 or st["stale_cleared"] == 0 or st["scripted_races_reached"] < 3 or st["stale_not_own"] == 0):
        raise vlib.ToolError(f"notify-slot scenarios did not exercise refusal / stale clearing: {st}")
    ctx.assume("notify-slot events are emitted by verif-hooks inside the slot's critical sections; the lock-free channel send, receiver drop and try_recv are silent / inv-res steps placed by TLC")


def run(ctx):
    q = not ctx.thorough
    mc(ctx, ["cancel", "quick3"], ["cancel", "quick"])
    n = 4 if q else 6
    args = ["--callers", n, "--big", 2 if q else 6, "--big-callers", 64, "--batches", 6 if q else 30]
    runs = drive(ctx, "c04", {"sync": args, "async": args, "ws": args}, shards=1 if q else 4)
    plans = validate(ctx, "c04", runs)
    ctx.coverage["distinct_nontrivial"] = plans
    ctx.coverage["rule"] = f"scripted scenarios: all {n}! reply orders per client with a rotating junk frame, random 64-caller orders, batches"
    ctx.coverage["exhaustive"] = True
    ctx.coverage["explanation"] = f"every permutation of {n} concurrent calls per client kind; interleavings of callers and reader at register/write/receive/match/deliver granularity are exhausted in the TLC model only"
    notify_slot(ctx, q)
    gated_replay(ctx, q, "MC_ClientMuxGen.cfg")
    # forwarded requests (forward_message, async client) reusing ids of the client's own calls, every other reply an error
    # reply; the caller's Take is the probe cm_received (response handed over, not yet validated)
    gated_replay(ctx, q, "MC_ClientMuxGen_forward.cfg", kinds=("async",), n_quick=600, n_thorough=4000)
    stray_frames(ctx, "C04")
    evs = vlib.read_ndjson(runs[2][1])
    ctx.sample({"kind": "one scripted scenario against the WebSocket client", "events": evs[:16]})
    ctx.assume("the scripted server learns which caller issued which id from a tag in the request path",
               "request/response pairing is judged from the response body (id and tag written by the server), so a response delivered to the wrong caller is visible even if the client's own id check masks it as an error",
               "the reader's steps are not observed: TLC searches for a schedule of them that explains the callers' results")
