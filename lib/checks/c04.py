from checks.mux_common import mc, drive, validate, __doc__  # noqa
import vlib


def run(ctx):
    q = not ctx.thorough
    mc(ctx, ["cancel", "quick3"], ["cancel", "quick"])
    n = 4 if q else 6
    args = ["--callers", n, "--big", 2 if q else 6, "--big-callers", 64, "--batches", 6 if q else 30]
    runs = drive(ctx, "c04", {"sync": args, "async": args, "ws": args}, shards=1 if q else 4)
    plans = validate(ctx, "c04", runs)
    ctx.coverage["distinct_nontrivial"] = plans
    ctx.coverage["rule"] = f"scripted scenarios: all {n}! reply orders per client with a rotating junk frame, random 64-caller orders, batches"
    ctx.coverage["exhaustive"] = True
    ctx.coverage["explanation"] = f"every permutation of {n} concurrent calls per client kind; interleavings of callers and reader at register/write/receive/match/deliver granularity are exhausted in the TLC model only"
    evs = vlib.read_ndjson(runs[2][1])
    ctx.sample({"kind": "one scripted scenario against the WebSocket client", "events": evs[:16]})
    ctx.assume("the scripted server learns which caller issued which id from a tag in the request path",
               "request/response pairing is judged from the response body (id and tag written by the server), so a response delivered to the wrong caller is visible even if the client's own id check masks it as an error",
               "the reader's steps are not observed: TLC searches for a schedule of them that explains the callers' results")
