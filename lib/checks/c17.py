"""C17: no outbound WebSocket message exceeds the assumed peer limit (src/websocket_limits.rs,
src/websocket_server.rs frame_outbound / proxy, src/websocket_client.rs) against
ServerConn!Guard / NoOversize and spec/Trace_Guard.tla.

 1. TLC: ServerConn.tla with Limit = TRUE: NoOversize (nothing over the limit reaches the wire),
    ExactlyOne (the replacement keeps the one-response discipline).
 2. impl -> spec: for each assumed limit (1 KiB, 64 KiB; 16 MiB in the thorough tier; none) and each
    frame size limit-2 .. limit+2 (plus half and 4/3 of the limit), on each outbound path - inline
    response, off-reader response, proxy-forwarded response, handler-pushed notify, registry
    broadcast, client request, client notify - a raw WebSocket peer measures every binary message;
    Trace_Guard judges delivery / replacement / drop / local error / reporting and that the
    connection stays usable.
"""
import json
import vlib


def run(ctx):
    q = not ctx.thorough
    for cfg in ["cap2", "unlimited"]:
        ctx.tlc_mc("MC_ServerConn", f"MC_ServerConn_{cfg}.cfg", must_cover=["Writer", "ReadInline", "ReadOff"])
    ctx.coverage["checker_cmd"] = "tlc -workers 8 -coverage 1 -config spec/MC_ServerConn_cap2.cfg spec/MC_ServerConn.tla (Limit = TRUE: NoOversize)"
    tr = ctx.work / "c17.ndjson"
    sm = ctx.work / "c17.json"
    ctx.vh("ws-c17", "--limits", "1024,65536,0" if q else "1024,4096,65536,16777216,0", "--out", tr, "--summary", sm, timeout=3000)
    st = json.loads(sm.read_text())
    res = ctx.tlc_trace("Trace_Guard", "Trace_Guard.cfg", tr, timeout=600)
    if not res["accepted"]:
        raise vlib.ToolError(f"trace not consumed: {res['detail']} line {res['unmatched']}")
    evs = vlib.read_ndjson(tr)
    for line, kind in res["mismatches"]:
        e = evs[line - 1]
        ctx.violation(f"c17:{e['path']}:{kind}", f"{kind} on path {e['path']} with limit {e['limit']} and frame size {e['size']}: {json.dumps(e)}", e)
    ctx.coverage["evaluations"] += len(evs)
    ctx.coverage["traces_validated_against_impl"] += st["cases"] - len(res["mismatches"])
    ctx.coverage["distinct_nontrivial"] = st["cases"]
    ctx.coverage["rule"] = "distinct (outbound path, assumed limit, frame size) triples"
    ctx.coverage["exhaustive"] = True
    ctx.coverage["explanation"] = "the product limits x sizes {limit-2..limit+2, limit/2, 4/3 limit} x seven outbound paths, each once"
    ctx.sample({"kind": "inline response one byte over a 1 KiB limit", "event": next(e for e in evs if e["path"] == "inline" and e["limit"] == 1024 and e["size"] == 1025)})
    ctx.assume("frame size = 48 + query + body, bodies are padded so that the frame hits each size exactly",
               "the proxy has no error hooks, so 'reported' is not required on that path",
               "inbound limits of the raw peer are disabled so that it can measure oversize messages instead of failing on them")

    # the proxy loop as a whole: ProxyConn.tla (one frame at a time, the outbound guard on the forwarded reply, exits),
    # every complete behaviour replayed on proxy_connection_with_limits between a raw peer and a scripted upstream
    ctx.tlc_mc("MC_ProxyConn", "MC_ProxyConn.cfg")
    ctx.tlc_mc("MC_ProxyConn", "MC_ProxyConn_noguard.cfg", expect_violation="NoOversize")
    beh = ctx.tlc_generate("MC_ProxyConn", "MC_ProxyConnGen.cfg", ["ProxyConn.tla"], timeout=1200)
    po = ctx.work / "proxy.json"
    ctx.vh("proxy-replay", "--behaviours", beh, "--every", 4 if q else 1, "--out", po, timeout=3000)
    pr = json.loads(po.read_text())
    for f in pr["failures"]:
        kinds = "-".join(x["kind"] for x in f["behaviour"]["script"])
        ctx.violation(f"proxy:{f['behaviour']['phase']}:{kinds}", f"proxy_connection_with_limits, script {kinds}, environment {json.dumps(f['behaviour']['env'])}: {f['what']}", f)
    if pr["behaviours"] < 300 and not pr["failures"]:
        raise vlib.ToolError(f"only {pr['behaviours']} ProxyConn behaviours replayed")
    ctx.coverage["proxy_replay"] = {k: pr[k] for k in ("behaviours", "steps", "by_phase")}
    ctx.coverage["traces_validated_against_impl"] += pr["behaviours"]
    ctx.coverage["evaluations"] += pr["steps"]
    ctx.assume("ProxyConn: the upstream is a scripted raw-TCP peer; 'die idle' closes its connection 25 ms before the peer's next frame")
