"""C16: off-reader handlers are capped, never block the reader or kill the connection
(src/websocket_server.rs spawn_off_reader, src/server.rs Execution) against spec/ServerConn.tla
and spec/Trace_OffReader.tla.

 1. TLC: ServerConn.tla with caps 1, 2, 3 and unlimited over request mixes (return / error / panic,
    notifies, inline traffic): CapRespected, SaturationSound, PanicContained, ExactlyOne and the
    liveness properties NoLeak (every permit comes back) and AllAnswered.
 2. spec -> impl: for caps 1..3 every release order of the parked handlers (with exit kinds rotating
    through return / error / panic) and random orders for caps 4, 8, 16 and unlimited are executed
    through a raw WebSocket client against handlers parked on harness gates behind a forwarding
    middleware; the recorded arrivals, invocations (with a running-handler gauge), responses,
    releases and slot probes are validated by Trace_OffReader.
"""
import json
import vlib


def run(ctx):
    q = not ctx.thorough
    for cfg in ["cap1", "cap2", "cap3", "unlimited"]:
        ctx.tlc_mc("MC_ServerConn", f"MC_ServerConn_{cfg}.cfg", must_cover=["ReadInline", "ReadOff", "Writer", "HandlerExit", "Enqueue", "Release"])
    ctx.coverage["checker_cmd"] = "tlc -workers 8 -coverage 1 -config spec/MC_ServerConn_*.cfg spec/MC_ServerConn.tla"
    tr = ctx.work / "c16.ndjson"
    sm = ctx.work / "c16.json"
    ctx.vh("ws-c16", "--seed", ctx.seed, "--max-cap", 3 if q else 4, "--random", 6 if q else 40, "--out", tr, "--summary", sm, timeout=3000)
    st = json.loads(sm.read_text())
    res = ctx.tlc_trace("Trace_OffReader", "Trace_OffReader.cfg", tr, timeout=1800)
    if not res["accepted"]:
        raise vlib.ToolError(f"trace not consumed: {res['detail']} line {res['unmatched']}")
    evs = vlib.read_ndjson(tr)
    bad_runs = set()
    for line, kind in res["mismatches"]:
        start, run_evs = vlib.run_of_line(evs, line)
        bad_runs.add(start)
        ctx.violation(f"c16:{kind}", f"{kind} at event {json.dumps(evs[line - 1])} (cap {run_evs[0].get('cap')}, release order {run_evs[0].get('order')}, exits {run_evs[0].get('exits')})", {"run_events": run_evs})
    ctx.coverage["evaluations"] += len(evs)
    ctx.coverage["traces_validated_against_impl"] += st["schedules"] - len(bad_runs)
    ctx.coverage["distinct_nontrivial"] = st["schedules"]
    ctx.coverage["rule"] = "schedules = (cap, release order, exit kinds); all release orders for caps up to 3 (4 thorough) x three rotations of exit kinds, plus random ones for larger caps and unlimited"
    ctx.coverage["exhaustive"] = True
    ctx.coverage["explanation"] = "release orders exhaustive for caps 1..3 (quick) / 1..4 (thorough); larger caps and unlimited sampled"
    ctx.sample({"kind": "one schedule (cap 2)", "events": next((vlib.run_of_line(evs, i + 1)[1][:18] for i, e in enumerate(evs) if e.get("ev") == "reset" and e.get("cap") == 2), [])})
    ctx.assume("the permit is returned after the response was queued, so a ResourceExhausted answer to an immediate retry is a specification behaviour; a slot is taken as leaked only if no retry is accepted for 10 s",
               "'immediate' saturation reply = it arrives while the other handlers are still parked (an ordering fact, not a duration); 5 s of silence counts as missing",
               "handlers are wrapped by a forwarding middleware, so the execution mode must be forwarded for the route to stay off-reader")
