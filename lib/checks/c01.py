"""C01: canonical 48-byte layout, lossless round trip, one encoding (src/header.rs, src/message.rs,
src/io.rs, src/async_io.rs) against spec/RepeWire.tla.

 1. TLC enumerates boundary byte patterns per header field, pairwise, with payload lengths 0..2
    (MC_RepeWire, ~12 000 vectors), each with the 48 header bytes the specification lays out;
    ASSUME LayoutProps checks decode . encode = id and the length equation on the spec itself.
 2. spec -> impl: every vector is emitted on every route (to_vec, write_to, into_wire_bytes in five
    capacity relations, write_message, write_message_streaming, write_message_async, and the four
    stream writers again through sinks that accept only 1 / 47 / 49 / 48+|query|+1 bytes per call) and compared
    byte for byte with the specification's frame, then parsed back with all nine parsers/readers and
    with the four stream readers fed 1 / 47 / 49 bytes per read call.
 3. impl -> spec: random full-range frames with payloads up to 64 KiB; TLC checks the emitted header
    bytes against HeaderBytes, the length equation, route equality, payload integrity, round trip.
"""
import json
import vlib
from checks.wire_common import gen_vectors, note_generator


def run(ctx):
    q = not ctx.thorough
    vec = gen_vectors(ctx)
    note_generator(ctx, vec)
    out = ctx.work / "c01.json"
    tr = ctx.work / "c01.ndjson"
    ctx.vh("wire-c01", "--vectors", vec, "--random", 400 if q else 5000, "--seed", ctx.seed, "--trace", tr, "--out", out, timeout=3000)
    w = json.loads(out.read_text())
    ctx.coverage["evaluations"] += w["evaluations"]
    ctx.coverage["traces_validated_against_impl"] += w["tlc_vectors"]
    ctx.coverage["distinct_nontrivial"] = w["tlc_vectors"] + w["random_frames"]
    ctx.coverage["rule"] = "distinct (header fields, payload lengths) messages: TLC layout vectors plus random frames; each emitted on every route and parsed by every parser"
    ctx.coverage["routes"] = w["routes"]
    for f in w["failures"]:
        ctx.violation(f"layout:{f['class']}:{f.get('route')}", f["what"], f)
    res = ctx.tlc_trace("Trace_RepeWire", "Trace_RepeWire.cfg", tr, timeout=1800)
    if not res["accepted"]:
        raise vlib.ToolError(f"trace not consumed: {res['detail']} line {res['unmatched']}")
    evs = vlib.read_ndjson(tr)
    ctx.coverage["traces_validated_against_impl"] += len(evs) - len(res["mismatches"])
    ctx.sample({"kind": "one recorded random frame", "event": {k: v for k, v in evs[0].items()}})
    for line, kind in res["mismatches"]:
        e = evs[line - 1]
        ctx.violation(f"emit:{kind}", f"emitted frame contradicts the specification ({kind}): routes differing {e['routes_differing']}, parsers differing {e['parsers_differing']}, header bytes {e['hb']}", e)
    # server-side emission routes: the same responses must come out of the blocking and async TCP servers (with and
    # without their timeouts configured) and the WebSocket server, field for field (C03's engine, a short run)
    tr2, sm2 = ctx.work / "c01srv.ndjson", ctx.work / "c01srv.json"
    ctx.vh("srv-c03", "--seed", ctx.seed, "--sequences", 3 if q else 12, "--len", 64, "--out", tr2, "--summary", sm2, timeout=1200)
    res2 = ctx.tlc_trace("Trace_ServerConn", "Trace_ServerConn.cfg", tr2, timeout=900)
    if not res2["accepted"]:
        raise vlib.ToolError(f"server trace not consumed: {res2['detail']} line {res2['unmatched']}")
    evs2 = vlib.read_ndjson(tr2)
    for line, kind in res2["mismatches"]:
        if kind not in ("cross_transport", "echo_query"):
            continue      # other kinds (missing / extra responses, invocations) belong to C03
        start, run_evs = vlib.run_of_line(evs2, line)
        ctx.violation(f"emit:server:{run_evs[0].get('transport')}", f"the {run_evs[0].get('transport')} server emits a response whose fields are not the handler's / not the blocking TCP server's for the same request ({kind})", {"run_events": run_evs[:80]})
    ctx.coverage["server_emission_runs"] = json.loads(sm2.read_text())["sequences"] * 6
    ctx.coverage["exhaustive"] = True
    ctx.coverage["explanation"] = "exhaustive over MC_RepeWire's pairwise boundary patterns of the seven free header fields x payload lengths 0..2; random frames are samples"
    ctx.assume("Rust's from_le_bytes/to_le_bytes in the harness are trusted to convert between integers and the byte tuples of the specification",
               "byte equality of large payload regions is decided by the recorder (memcmp against a keyed generator), the layout and the length equation by TLA+",
               "server-side emission routes: responses of the six server paths are compared with each other (fields and payload), not with the TLA+ layout")
