"""C04 / C06: the three multiplexing clients (src/client.rs, src/async_client.rs,
src/websocket_client.rs) against spec/ClientMux.tla.

 1. TLC exhausts ClientMux.tla (callers x adversarial server x reader x failure propagation x
    timeouts x cancellation) for 2-3 callers: Correlated, DistinctIds, NotifyOnlyToSubscriber,
    NoResidue, WaiterHasFuture, liveness AllFinish; the must-violate configuration with the
    fail_all_pending order reversed (drain before shutting the writer) violates WaiterHasFuture.
 2. impl -> spec: an adversarial scripted server (raw TCP / raw WebSocket) drives the real clients;
    caller-granularity events are validated by Trace_ClientMux, in which the reader's steps are
    silent ClientMux actions.  C04 mode: every reply order for n callers with unknown-id, duplicate
    and id-reusing notify frames inserted, 64 callers in random order, batches, a forward_message that
    reuses the id of a call in flight (async client); the WebSocket client's notify subscription slot
    (spec/NotifySub.tla, Trace_NotifySub) under concurrent subscribe / unsubscribe / receiver drops.  C06 mode: each fault kind at each step with
    0..n calls in flight, timeouts racing the response, cancellation, and a malformed frame arriving
    while another caller is stuck writing an 8 MiB request to a peer that keeps the socket open.
"""
import json
import subprocess
import vlib


def mc(ctx, quick_cfgs, thorough_cfgs):
    for cfg in (quick_cfgs if not ctx.thorough else thorough_cfgs):
        ctx.tlc_mc("MC_ClientMux", f"MC_ClientMux_{cfg}.cfg", must_cover=["Register", "Write", "Take", "Recv", "Dispatch"], timeout=3000, heap="16g")
    ctx.tlc_mc("MC_ClientMux", "MC_ClientMux_drainfirst.cfg", expect_violation="WaiterHasFuture")
    # forward_message: caller-chosen ids beside the client's own counter; rewinding the counter must violate DistinctIds
    ctx.tlc_mc("MC_ClientMux", "MC_ClientMux_forward.cfg", must_cover=["AllocF", "Register", "Timeout", "Dispatch"])
    ctx.tlc_mc("MC_ClientMux", "MC_ClientMux_rewind.cfg", expect_violation="DistinctIds")
    ctx.coverage["checker_cmd"] = "tlc -workers 8 -coverage 1 -config spec/MC_ClientMux_*.cfg spec/MC_ClientMux.tla"


def drive(ctx, mode, args_by_kind, shards=1):
    procs = []
    for kind, args in args_by_kind.items():
        for s in range(shards):
            out = ctx.work / f"{mode}-{kind}-{s}.ndjson"
            sm = ctx.work / f"{mode}-{kind}-{s}.json"
            cmd = [str(vlib.VH), "mux", "--client", kind, "--mode", mode, "--seed", str(ctx.seed), "--shard", str(s), "--shards", str(shards),
                   "--out", str(out), "--summary", str(sm)] + [str(a) for a in args]
            procs.append((kind, subprocess.Popen(cmd, cwd=ctx.work, stdout=subprocess.DEVNULL, stderr=subprocess.PIPE, text=True), out, sm))
    res = []
    for kind, p, out, sm in procs:
        try:
            _, err = p.communicate(timeout=3300)
        except subprocess.TimeoutExpired:
            p.kill()
            raise vlib.ToolError(f"mux {mode} {kind} timed out")
        if p.returncode != 0 or not sm.exists():
            raise vlib.ToolError(f"mux {mode} {kind} failed: {(err or '')[-1500:]}")
        res.append((kind, out, json.loads(sm.read_text())))
    return res


def validate(ctx, pid_mode, runs):
    plans = 0
    for kind, tr, st in runs:
        plans += st["plans"]
        cur, bad = tr, 0
        for attempt in range(8):
            res = ctx.tlc_trace("Trace_ClientMux", "Trace_ClientMux.cfg", cur, timeout=1800)
            if res["accepted"]:
                break
            evs = vlib.read_ndjson(cur)
            line = res["unmatched"]
            ev = evs[line - 1] if line and line <= len(evs) else {}
            start, run_evs = vlib.run_of_line(evs, line)
            if ev.get("ev") == "ret":
                kindsig = {"ok": "wrong-response", "err": "unexplained-error", "hung": "hang", "timeout": "timeout", "cancelled": "cancel"}.get(ev.get("cls"), ev.get("cls"))
                what = f"caller {ev.get('c')} returned {ev.get('cls')} (response id {ev.get('rid')}, tag {ev.get('rtag')}; {ev.get('msg', '')}) which no schedule of the reader explains"
            elif ev.get("ev") == "after":
                kindsig = "residue" if ev.get("pending", 0) else "subscriber-not-ended"
                what = f"at quiescence: pending map holds {ev.get('pending')} entries, subscriber ended = {ev.get('sub_ended')}"
            elif ev.get("ev") == "nsent":
                kindsig = "duplicate-id"
                what = f"a notify was sent with request id {ev.get('id')}, which is also used by another frame on this connection"
            elif ev.get("ev") == "sent":
                kindsig = "duplicate-id"
                what = f"request id {ev.get('id')} issued twice on one connection"
            elif ev.get("ev") == "dupreg":
                kindsig = "duplicate-id-accepted"
                what = f"a forward_message reusing in-flight id {ev.get('id')} was not refused (result {ev.get('cls')})"
            elif ev.get("ev") == "note":
                kindsig = "notify-misrouted"
                what = f"subscriber received {ev} out of order / not sent"
            else:
                raise vlib.ToolError(f"trace {cur} rejected at line {line} on {ev}: {res['detail']}")
            ctx.violation(f"mux:{kind}:{kindsig}", what + f" [{run_evs[0].get('plan', '')[:300]}]", {"client": kind, "run_events": run_evs})
            bad += 1
            rest = evs[:start] + evs[start + len(run_evs):]
            cur = ctx.work / f"{tr.stem}-r{attempt}.ndjson"
            cur.write_text("".join(json.dumps(e) + "\n" for e in rest))
        ctx.coverage["traces_validated_against_impl"] += st["plans"] - bad
        ctx.coverage["evaluations"] += st["events"]
    return plans


def gated_replay(ctx, q, cfg, kinds=("sync", "async", "ws"), n_quick=300, n_thorough=3000):
    """spec -> impl: ClientMux behaviours sampled by TLC (simulation mode, history variable of action labels) are
    single-stepped on the three real clients through the probes cm_allocated / cm_registered / cm_written (callers)
    and cm_reader_read (reader); after every step the size of the pending map, and at every Take the caller's
    result, must equal the specification's.  With the fault configuration the server also closes or sends a
    malformed frame, and fail_all_pending is stepped through cm_fail_start / cm_fail_mid (writer shut, THEN pending
    map drained), with callers registering and writing in between."""
    import json
    n = n_quick if q else n_thorough
    beh = ctx.tlc_generate("MC_ClientMuxGen", cfg, ["ClientMux.tla"], timeout=1200,
                           extra_args=["-simulate", f"num={n}", "-depth", "80", "-seed", str(ctx.seed)])
    total = {"behaviours": 0, "steps": 0}
    for kind in kinds:
        out = ctx.work / f"replay-{kind}-{cfg}.json"
        ctx.vh("mux-replay", "--client", kind, "--behaviours", beh, "--out", out, timeout=1500)
        r = json.loads(out.read_text())
        total["behaviours"] += r["behaviours"]
        total["steps"] += r["steps"]
        for f in r["failures"]:
            step = f["what"].split(":")[0]
            label = step.split(" ")[2].split("(")[0] if len(step.split(" ")) > 2 else "?"
            ctx.violation(f"mux-replay:{kind}:{label}", f"{kind} client, replaying a ClientMux behaviour: {f['what']}", f)
        if r["behaviours"] < n // 2 and not r["failures"]:
            raise vlib.ToolError(f"only {r['behaviours']} behaviours replayed on the {kind} client")
    ctx.coverage.setdefault("gated_replay", {})[cfg] = total
    ctx.coverage["traces_validated_against_impl"] += total["behaviours"]
    ctx.coverage["evaluations"] += total["steps"]
    ctx.assume("the probes park a caller after id allocation, after registration and after its write, and the reader after each frame it read; the harness lets exactly one of them proceed per specification step")


def stray_frames(ctx, pid):
    """Frames nobody waits for (late responses to calls that gave up, ids never issued, unsubscribed notifies) whose
    query and body are hostile in content only, and responses cut at every byte: the call in flight gets its own
    response (or an error when the connection ended), nothing panics, nothing hangs.  Shared by C02, C04 and C06."""
    import json
    st = ctx.work / "stray.json"
    ctx.vh("mux-stray", "--out", st, timeout=900)
    for c in json.loads(st.read_text())["cases"]:
        ctx.coverage["evaluations"] += 1
        if c["panics"] or c["cls"] != "ok":
            ctx.violation(f"client-reader:{c['client']}:{'panic' if c['panics'] else c['cls']}",
                          f"{c['client']} client, a {c['flavour']} frame with a {c['query_len']}-byte query ({c['query']}) arrived while a call was in flight: "
                          f"{c['panics']} panic(s) ({c['panic_msg']}), the call then returned {c['cls']} ({c['msg']})", c)

