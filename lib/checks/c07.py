"""C07: all dispatch paths and route shapes give the same answer (src/server.rs, src/json_pointer.rs)
against spec/Router.tla and spec/Pointer.tla.

 1. TLC: Pointer (escape . unescape = id on every well-formed path over {/,~,0,1,a,b} up to the tier's
    length) and Router (winner for every one of the 120 registration orders of exact /a, registry
    /a, struct /ab, two middlewares) as ASSUMEs; vectors printed.
 2. spec -> impl: token vectors replayed through a recording struct mounted at "" and at "/m"
    (owned / view / behind middleware) and through parse_json_pointer; lookup vectors replayed on
    routers built in each registration order (winner, remainder tokens, middleware hit order).
 3. impl -> spec: random paths of 0..40 segments (16/17-segment stack/heap switch, empty segments,
    escapes) and the product handler kind x body-format code x body bytes x notify dispatched on the
    owned path, the view path and behind a middleware chain; Trace_Router requires identical outcomes.
"""
import json
import vlib


def run(ctx):
    q = not ctx.thorough
    cfg = "MC_Router_5.cfg" if q else "MC_Router_6.cfg"
    vec = ctx.tlc_generate("MC_Router", cfg, ["Router.tla", "Pointer.tla"], timeout=1800)
    n = sum(1 for line in open(vec, errors="replace") if line.startswith('<<"VEC"'))
    ctx.coverage["states"] += n
    ctx.coverage["transitions"] += n
    ctx.coverage["mc_runs"].append({"cfg": cfg, "vectors": n, "assumes": "Canon(Tokens(p)) = p for all well-formed p; Lookup over all 120 registration orders"})
    ctx.coverage["checker_cmd"] = f"tlc -workers 1 -config spec/{cfg} spec/MC_Router.tla  (ASSUMEs + vector generator)"
    out = ctx.work / "vec.json"
    ctx.vh("rt-vectors", "--vectors", vec, "--out", out)
    w = json.loads(out.read_text())
    ctx.coverage["evaluations"] += w["evaluations"]
    ctx.coverage["traces_validated_against_impl"] += w["evaluations"]
    ctx.coverage["vector_kinds"] = w["vectors"]
    for f in w["failures"]:
        ctx.violation(f"rt:{f['sig']}", f["what"], f)
    tr = ctx.work / "rand.ndjson"
    ctx.vh("rt-random", "--seed", ctx.seed, "--runs", 600 if q else 10000, "--out", tr, "--summary", ctx.work / "rand.json")
    res = ctx.tlc_trace("Trace_Router", "Trace_Router.cfg", tr, timeout=1800)
    if not res["accepted"]:
        raise vlib.ToolError(f"trace not consumed: {res['detail']} line {res['unmatched']}")
    evs = vlib.read_ndjson(tr)
    ctx.coverage["evaluations"] += len(evs)
    ctx.coverage["traces_validated_against_impl"] += len(evs) - len(res["mismatches"])
    ctx.coverage["distinct_nontrivial"] = w["evaluations"] + len(evs)
    ctx.coverage["rule"] = "TLC vectors (distinct paths / registration orders) plus recorded dispatches (distinct path, format code, body, notify combinations and random deep paths)"
    ctx.sample({"kind": "one recorded dispatch (owned / view / middleware outcomes)", "event": next(e for e in evs if e["ev"] == "dispatch")})
    for line, kind in res["mismatches"]:
        e = evs[line - 1]
        where = e.get("path") if e["ev"] == "dispatch" else f"{e.get('nseg')}-segment path"
        ctx.violation(f"rt-random:{e['ev']}:{kind}", f"{kind} for {where}: {json.dumps(e)[:500]}", e)
    ctx.coverage["exhaustive"] = True
    ctx.coverage["explanation"] = "exhaustive over well-formed paths up to the tier's length over a 6-symbol alphabet and over all 120 registration orders; random deep paths and the handler x format x body product are samples / a fixed product"
    ctx.assume("malformed escapes are outside the quantifier (tokenisation unspecified): only well-formed paths carry a token expectation",
               "handlers may leave the response query empty; every transport then echoes the request's query, and that effective query is what is compared",
               "precedence between overlapping mounts is not part of the property; the vectors use non-overlapping mounts")
