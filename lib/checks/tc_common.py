"""C11 / C13: TransferControl (src/stream.rs) against spec/TransferControl.tla.

 1. TLC exhaustively checks the specification (MC_TransferControl, adversary config and
    loop-following-producer config) for the invariants and action properties of the property.
 2. spec -> impl: TLC prints the labelled state graph; `vh tc-walk` replays every edge from a
    shortest path and walks every label path up to the tier's depth on the real object.
 3. impl -> spec: `vh tc-random` records random 64-bit histories from the real object and
    Trace_TransferControl validates them (U64 arithmetic), classifying the first disagreement of
    each run as credit (C11) or ring (C13).
Only disagreements of the class belonging to the property being checked are violations of it.
"""
import json
import vlib

MC_DEPS = ["TransferControl.tla"]


def run_tc(ctx, cls):
    q = not ctx.thorough
    # 1. exhaustive model checking
    cover = ["ASent", "AAck", "ACancel", "AAdvance", "AResume", "ACredit", "AReconnect", "APush"]
    ctx.tlc_mc("MC_TransferControl", "MC_TransferControl_quick.cfg" if q else "MC_TransferControl_thorough.cfg",
               must_cover=cover, timeout=1500)
    ctx.tlc_mc("MC_TransferControl", "MC_TransferControl_producer.cfg" if q else "MC_TransferControl_producer_thorough.cfg",
               must_cover=["ProdCredit", "ProdPush", "ProdSent", "AAck", "AResume"], timeout=1500)
    ctx.coverage["checker_cmd"] = "tlc -workers 8 -coverage 1 -config spec/MC_TransferControl_*.cfg spec/MC_TransferControl.tla"
    if cls == "credit":
        # unbounded: the integer fragment CreditInd.tla (which the producer configurations above are checked to refine,
        # property RefinesCredit) keeps acked <= sent and in_flight <= max(window, last chunk) for every window, offset and length
        ctx.apalache_inductive("CreditInd", "IndInit", "IndInv")
        ctx.assume("CreditInd.tla works over unbounded integers: the u64 saturation corner is covered by the recorded 64-bit traces, not by the inductive proof")

    # 2. spec -> impl graph walk
    graph = ctx.tlc_generate("MC_TransferControl", "MC_TransferControl_graph_quick.cfg" if q else "MC_TransferControl_graph_thorough.cfg",
                             MC_DEPS, timeout=3000)
    # the walk is a function of (graph, harness binary built from /repo's tree, depth): C11 and C13 share it
    import hashlib
    key = hashlib.sha256(vlib.VH.read_bytes()).hexdigest()[:16]
    depth = 4 if q else 5
    out = vlib.WORK / "gen" / f"walk.{graph.name}.{key}.d{depth}.json"
    if not out.exists():
        for old in (vlib.WORK / "gen").glob(f"walk.{graph.name}.*.d{depth}.json"):
            old.unlink()
        tmp = ctx.work / "walk.json"
        ctx.vh("tc-walk", "--graph", graph, "--depth", depth, "--threads", 12, "--out", tmp, timeout=3300)
        tmp.rename(out)
    else:
        ctx.coverage["walk_reused"] = "the spec->impl walk result was computed by the sibling check (C11/C13) for the same graph and the same harness binary"
    w = json.loads(out.read_text())
    ctx.coverage["graph"] = {k: w[k] for k in ("states", "edges", "labels", "edge_replays", "depth", "paths", "op_executions")}
    ctx.coverage["traces_validated_against_impl"] += w["edge_replays"] + w["paths"]
    ctx.coverage["evaluations"] += w["op_executions"]
    ctx.coverage["distinct_nontrivial"] += w["distinct_paths_len_ge2"]
    ctx.sample({"kind": "spec path replayed on the real TransferControl", "path": w["sample_path"]})
    for f in w["failures"]:
        if f["class"] == cls:
            ctx.violation(f"tc-walk:{cls}:{f.get('op')}", f["what"], f)
        else:
            ctx.coverage.setdefault("other_property_disagreements", []).append(f"{f['class']}:{f.get('op')}")

    # 3. impl -> spec random 64-bit histories
    batches = 2 if q else 10
    runs = 60 if q else 200
    total_runs = 0
    for b in range(batches):
        tr = ctx.work / f"hist-{b}.ndjson"
        sm = ctx.work / f"hist-{b}.json"
        ctx.vh("tc-random", "--seed", ctx.seed * 1000 + b, "--runs", runs, "--len", 200, "--out", tr, "--summary", sm)
        res = ctx.tlc_trace("Trace_TransferControl", "Trace_TransferControl.cfg", tr)
        events = vlib.read_ndjson(tr)
        ctx.coverage["evaluations"] += len(events)
        if not res["accepted"]:
            # the specification itself failed a property along the trace, or an event has no counterpart
            raise vlib.ToolError(f"trace {tr} not consumed: {res['detail']} at line {res['unmatched']}")
        total_runs += runs
        bad_runs = 0
        for line, c in res["mismatches"]:
            bad_runs += 1
            start, evs = vlib.run_of_line(events, line)
            ev = events[line - 1]
            if c == cls:
                ctx.violation(f"tc-trace:{cls}:{ev.get('ev') if ev.get('ev') != 'panic' else 'panic-' + ev.get('during', '')}",
                              f"history disagrees with the specification at event {line}: {json.dumps(ev)[:400]}",
                              {"trace": str(tr), "line": line, "run_events": evs[: (line - start)]})
            else:
                ctx.coverage.setdefault("other_property_disagreements", []).append(f"{c}:{ev.get('ev')}")
        ctx.coverage["traces_validated_against_impl"] += runs - bad_runs
        if b == 0:
            ctx.sample({"kind": "recorded 64-bit history (first events of one run)", "events": events[:6]})
    if cls == "credit":
        # concurrent part: a credit wait parked on real threads while other threads ack / send / advance / resume / cancel
        # (C12's engine, systematic two-operation signaller programmes only); a wait that returns Ok although the
        # specification's wait condition is false in that state is an over-grant
        tr, sm = ctx.work / "credit-sync.ndjson", ctx.work / "credit-sync.json"
        ctx.vh("tc-sync", "--seed", ctx.seed * 100 + 77, "--schedules", 0 if q else 300, "--systematic-depth", 2, "--watchdog-ms", 300, "--max-lost", 100000,
               "--out", tr, "--summary", sm, timeout=1500)
        cur = tr
        for attempt in range(40):
            r = ctx.tlc_trace("Trace_TransferSync", "Trace_TransferSync.cfg", cur)
            if r["accepted"]:
                break
            evs = vlib.read_ndjson(cur)
            line = r["unmatched"]
            ev = evs[line - 1] if line and line <= len(evs) else {}
            start, run_evs = vlib.run_of_line(evs, line)
            if ev.get("ev") == "w_return" and ev.get("kind") == "credit" and ev.get("res") == "ok":
                ctx.violation("tc-sync:over-grant", f"wait_for_credit returned Ok on real threads in a state where the window does not allow the chunk: {json.dumps(ev)}", {"run_events": run_evs, "line": line})
            else:
                ctx.coverage.setdefault("other_property_disagreements", []).append(f"sync:{ev.get('ev')}")
            rest = evs[:start] + evs[start + len(run_evs):]
            cur = ctx.work / f"credit-sync-r{attempt}.ndjson"
            cur.write_text("".join(json.dumps(e) + "\n" for e in rest))
        ctx.coverage["concurrent_credit_schedules"] = json.loads(sm.read_text())["schedules"]
    ctx.coverage["distinct_nontrivial"] += total_runs
    ctx.coverage["rule"] = ("distinct label paths of length >= 2 walked on the real object (hashed label/state sequences) "
                            "plus recorded random histories of 200 calls (each from its own RNG stream)")
    ctx.coverage["exhaustive"] = True
    ctx.coverage["explanation"] = ("exhaustive within the MC constants: every reachable spec state and transition checked by TLC; "
                                   "every edge and every label path up to graph.depth replayed on the implementation")
    ctx.assume("TransferControl's abstract state is observable through offsets(), cancel_reason(), peer(), replay_chunks_from(0) "
               "and the results of its calls; current_file_index and the staged resume are observed only through later calls",
               "the two blocking waits are exercised here with an already expired deadline (predicate evaluated once); "
               "the blocking protocol is C12",
               "chunk lengths are below 2^48 as the property states")
