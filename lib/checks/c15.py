"""C15: connection lifecycle hooks fire once, in order, on every exit path (src/websocket_server.rs,
src/peer.rs) against spec/ConnLifecycle.tla and spec/Trace_Lifecycle.tla.

 1. TLC: ConnLifecycle.tla (handshake, guard, connect hooks that may panic, serving, every exit
    cause, the guard's Drop): DisconnectOnce, NeverForFailedHandshake, RegistryScoped, HelloFirst and
    the liveness property ParkedSeeCancel; the must-violate configuration with the guard armed
    AFTER the connect hooks violates DisconnectOnce.
 2. impl -> spec: each exit cause (clean close, socket loss, text frame, malformed frame, inline
    handler panic, connect-callback panic, embedder cancellation, drain-deadline abort, failed
    handshake) x phase (idle, inline handler running, off-reader handler parked, outbound queue
    non-empty, during connect callbacks) x serving entry point (accept loop, graceful-drain loop,
    serve_connection(_with_cancel), adopt_upgraded over an in-memory duplex) and 1..N concurrent
    connections is produced by a raw WebSocket peer; public callbacks, the registry and the wire are
    observed and each scenario is judged by Trace_Lifecycle.
"""
import json
import vlib


def run(ctx):
    q = not ctx.thorough
    ctx.tlc_mc("ConnLifecycle", "MC_ConnLifecycle_TRUE.cfg", workers=4, must_cover=["HandshakeOk", "HandshakeFail", "RunHook", "HookPanics", "DropGuard", "OffObserves"])
    ctx.tlc_mc("ConnLifecycle", "MC_ConnLifecycle_FALSE.cfg", workers=4, expect_violation="DisconnectOnce")
    ctx.coverage["checker_cmd"] = "tlc -workers 4 -coverage 1 -config spec/MC_ConnLifecycle_*.cfg spec/ConnLifecycle.tla"
    tr = ctx.work / "c15.ndjson"
    sm = ctx.work / "c15.json"
    args = ["ws-c15", "--out", tr, "--summary", sm, "--max-conns", 8 if q else 32]
    if not q:
        args.append("--full")
    ctx.vh(*args, timeout=3000)
    st = json.loads(sm.read_text())
    res = ctx.tlc_trace("Trace_Lifecycle", "Trace_Lifecycle.cfg", tr, timeout=600)
    if not res["accepted"]:
        raise vlib.ToolError(f"trace not consumed: {res['detail']} line {res['unmatched']}")
    evs = vlib.read_ndjson(tr)
    for line, kind in res["mismatches"]:
        e = evs[line - 1]
        ctx.violation(f"c15:{kind}:{e['cause']}", f"{kind}: exit cause {e['cause']} in phase {e['phase']} via {e['entry']} ({e['conns']} connection(s)): {json.dumps(e)}", e)
    ctx.coverage["evaluations"] += len(evs)
    ctx.coverage["traces_validated_against_impl"] += st["scenarios"] - len(res["mismatches"])
    ctx.coverage["distinct_nontrivial"] = st["scenarios"]
    ctx.coverage["rule"] = "distinct (entry point, exit cause, phase, concurrent connections) scenarios"
    ctx.coverage["exhaustive"] = True
    ctx.coverage["explanation"] = "the product of exit causes x phases for the accept loop (all entry points in the thorough tier), invalid combinations pruned; timing inside a phase is not enumerated"
    ctx.sample({"kind": "one scenario", "event": evs[0]})
    ctx.assume("observation points are public callbacks, the PeerRegistry and the frames a raw peer receives; no hooks inside the server",
               "the registry-present sample is taken right after the connect callback while no disconnect has been seen",
               "a parked off-reader handler is given up to 6 s to observe cancellation; the drain-abort handler deliberately ignores it")
