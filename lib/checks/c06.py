from checks.mux_common import mc, drive, validate, gated_replay, stray_frames, __doc__  # noqa
import vlib


def run(ctx):
    q = not ctx.thorough
    mc(ctx, ["cancel", "live"], ["cancel", "live", "quick"])
    args = ["--max-inflight", 8 if q else 16, "--races", 10 if q else 60]
    runs = drive(ctx, "c06", {"sync": args, "async": args, "ws": args}, shards=1 if q else 4)
    plans = validate(ctx, "c06", runs)
    gated_replay(ctx, q, "MC_ClientMuxGen_fault.cfg")
    stray_frames(ctx, "C06")
    ctx.coverage["distinct_nontrivial"] = plans
    ctx.coverage["rule"] = "scripted scenarios: fault kind x calls in flight x requests read x responses sent before the fault; timeouts (late answers for 0..3 callers, answers racing the timeout); cancellation of 1..3 callers"
    ctx.coverage["exhaustive"] = True
    ctx.coverage["explanation"] = "fault placement exhaustive for 0,1,3,8(16) calls in flight per client kind; the timing of timeout races is sampled"
    evs = vlib.read_ndjson(runs[0][1])
    ctx.sample({"kind": "one fault scenario against the blocking client", "events": evs[:14]})
    ctx.assume("every call runs under a 10 s watchdog: a call that has not returned by then is recorded as hung, which no specification behaviour allows",
               "a timeout that fires although the response was already delivered is accepted (benign race); the late response must then be discarded",
               "connection reset is produced with SO_LINGER 0; a truncated response is a prefix of a valid frame followed by close")
