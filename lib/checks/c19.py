"""C19: fleet calls retry only transport failures, boundedly, and recover afterwards
(src/fleet.rs, src/async_fleet.rs) against spec/Fleet.tla and spec/Trace_Fleet.tla.

 1. TLC: Fleet.tla (retry loop + cached client + scripted node) for max_attempts 1..3 and every
    script of length <= max+2: AttemptBound, RetryOnlyTransport, StopAtFirstReply, NotWedged.
    Two must-violate configurations (the retryable set of the pinned commit, which lacks
    BrokenPipe, violates NotWedged; a set that retries application errors violates
    RetryOnlyTransport) show the invariants are not vacuous.
 2. spec -> impl -> spec: every script (quick: a subset) is played by a scripted fake node against
    Fleet and AsyncFleet, single-stepped through the `fleet_before_attempt` probe; the recorded
    attempts and results are validated by Trace_Fleet. Broadcasts over every tag subset likewise.
"""
import json
import subprocess
import vlib


def shard_run(ctx, tag, args, shards):
    procs = []
    for s in range(shards):
        out = ctx.work / f"{tag}-{s}.ndjson"
        sm = ctx.work / f"{tag}-{s}.json"
        cmd = [str(vlib.VH), "fleet-scripts", "--shard", str(s), "--shards", str(shards), "--out", str(out), "--summary", str(sm)] + [str(a) for a in args]
        procs.append((subprocess.Popen(cmd, cwd=ctx.work, stdout=subprocess.PIPE, stderr=subprocess.STDOUT, text=True), out, sm))
    outs = []
    for p, out, sm in procs:
        try:
            so, _ = p.communicate(timeout=3400)
        except subprocess.TimeoutExpired:
            p.kill()
            raise vlib.ToolError(f"fleet-scripts shard timed out ({tag})")
        if p.returncode != 0:
            raise vlib.ToolError(f"fleet-scripts failed ({tag}): {so[-2000:]}")
        outs.append((out, json.loads(sm.read_text())))
    return outs


def run(ctx):
    q = not ctx.thorough
    for m in (1, 2, 3):
        ctx.tlc_mc("MC_Fleet", f"MC_Fleet_m{m}.cfg", must_cover=["StartCall", "DoAttempt"])
    ctx.tlc_mc("MC_Fleet", "MC_Fleet_aspinned.cfg", expect_violation="NotWedged")
    ctx.tlc_mc("MC_Fleet", "MC_Fleet_retriesapp.cfg", expect_violation="RetryOnlyTransport")
    ctx.coverage["checker_cmd"] = "tlc -workers 8 -coverage 1 -config spec/MC_Fleet_*.cfg spec/MC_Fleet.tla"

    # (kind, max, script length, sample-every)
    if q:
        plans = [("blocking", 1, 3, 0), ("async", 1, 3, 0), ("blocking", 2, 3, 0), ("async", 2, 4, 12), ("blocking", 3, 5, 40), ("async", 3, 5, 60)]
    else:
        plans = [("blocking", 1, 3, 0), ("async", 1, 3, 0), ("blocking", 2, 4, 0), ("async", 2, 4, 0), ("blocking", 3, 5, 0), ("async", 3, 5, 4)]
    total = 0
    merged = ctx.work / "fleet-all.ndjson"
    with open(merged, "w") as mf:
        for kind, mx, ln, every in plans:
            outs = shard_run(ctx, f"{kind}-m{mx}", ["--kind", kind, "--max", mx, "--len", ln, "--sample", every, "--seed", ctx.seed], 12)
            for out, st in outs:
                total += st["scripts"]
                mf.write(out.read_text())
        for kind in ("blocking", "async"):
            out = ctx.work / f"bc-{kind}.ndjson"
            ctx.vh("fleet-broadcast", "--kind", kind, "--out", out, "--summary", ctx.work / f"bc-{kind}.json")
            mf.write(out.read_text())
    events = vlib.read_ndjson(merged)
    ctx.coverage["evaluations"] += len(events)
    bad = 0
    cur = merged
    for attempt in range(40):
        res = ctx.tlc_trace("Trace_Fleet", "Trace_Fleet.cfg", cur, timeout=1800)
        if res["accepted"]:
            break
        evs = vlib.read_ndjson(cur)
        line = res["unmatched"]
        ev = evs[line - 1]
        if ev.get("ev") == "broadcast":
            ctx.violation(f"fleet-broadcast:{ev['kind']}", f"broadcast addressed the wrong nodes: {json.dumps(ev)}", ev)
            rest = evs[:line - 1] + evs[line:]
        else:
            start, run_evs = vlib.run_of_line(evs, line)
            hdr = run_evs[0]
            phase = next((e["phase"] for e in reversed(evs[start:line]) if e.get("ev") == "call_start"), "?")
            if ev.get("ev") == "call_end" and phase == "healthy" and ev.get("cls") != "ok":
                first_bad = ev.get("err", "")
                what = (f"node wedged: after the script {hdr['script']} the node turned healthy but both following calls failed "
                        f"({first_bad}); {hdr['kind']} fleet, max_attempts {hdr['max']}")
                # signature: the fleet kind and the error that then repeats forever
                sig = f"wedged:{hdr['kind']}:{first_bad}"
            elif ev.get("ev") == "attempt":
                what = f"attempt not allowed by the retry rules or inconsistent with what the node did: {json.dumps(ev)} (script {hdr['script']}, max {hdr['max']})"
                sig = f"attempt:{hdr['kind']}:{ev.get('armed')}:{ev.get('res')}:{'over-max' if ev.get('n', 0) > hdr['max'] else 'rule'}"
            else:
                what = f"call result not the last attempt's outcome: {json.dumps(ev)} (script {hdr['script']})"
                sig = f"result:{hdr['kind']}:{ev.get('cls')}"
            ctx.violation(sig, what, {"run_events": run_evs})
            rest = evs[:start] + evs[start + len(run_evs):]
        bad += 1
        cur = ctx.work / f"fleet-r{attempt}.ndjson"
        cur.write_text("".join(json.dumps(e) + "\n" for e in rest))
    else:
        ctx.coverage["note"] = "more than 40 rejected runs; the remainder was not validated"
    ctx.coverage["traces_validated_against_impl"] += total + 112 - bad
    ctx.coverage["distinct_nontrivial"] = total
    ctx.coverage["rule"] = "distinct (fleet kind, max_attempts, outcome script) triples played against the real fleet; every script of the stated length when sample-every is 0"
    ctx.coverage["plans"] = [dict(kind=k, max_attempts=m, script_len_upto=n, sample_every=e) for k, m, n, e in plans]
    ctx.coverage["exhaustive"] = all(e == 0 for _, _, _, e in plans)
    ctx.sample({"kind": "one played script (events)", "events": events[10:22]})
    ctx.assume("the scripted node decides each attempt's outcome; the retry loop is single-stepped through the verif-hooks probe `fleet_before_attempt`, the node is re-armed before every attempt",
               "'refused' means nothing listens and existing connections are gone for that attempt",
               "a malformed reply may or may not be retried (both allowed)",
               "node timeout 120 ms, retry delay 3 ms; 15 ms pause before each healthy-phase call so the client's reader has noticed what the node did to the connection")

    # 3. fleet membership, cached connections and fan-out: FleetMembers.tla, behaviours replayed on the real fleets
    ctx.tlc_mc("MC_FleetMembers", "MC_FleetMembers.cfg", must_cover=["AddNode", "RemoveNode", "ConnectAll", "DisconnectAll", "ReconnectDisconnected", "Call", "Broadcast", "HealthCheck", "NodeDown", "NodeUp"])
    ctx.tlc_mc("MC_FleetMembers", "MC_FleetMembers_one.cfg")
    ctx.tlc_mc("MC_FleetMembers", "MC_FleetMembers_anytag.cfg", expect_violation="BroadcastExact")
    ctx.tlc_mc("MC_FleetMembers", "MC_FleetMembers_keepstale.cfg", expect_violation="NoStaleAfterFanOut")
    fm_total = {"behaviours": 0, "steps": 0, "operations": {}}
    per = 40 if q else 400
    gens = []
    for m in (2, 1):
        # every transition of the small model (2 nodes, 1 tag; thorough: 3 nodes), reached the short way
        gens.append((m, "edges", 10**9, ctx.tlc_generate("MC_FleetMembersEdges", f"MC_FleetMembersEdges_{'small' if q else 'mid'}_{m}.cfg", ["MC_FleetMembersGen.tla", "FleetMembers.tla"], timeout=1200)))
        # random behaviours of length 30 of the larger model (3 nodes, 2 tags)
        gens.append((m, "random", per, ctx.tlc_generate("MC_FleetMembersGen", f"MC_FleetMembersGen_{m}.cfg", ["FleetMembers.tla"], timeout=1200,
                                                         extra_args=["-simulate", f"num={per}", "-depth", "31", "-seed", str(ctx.seed)])))
    for m, how, cap, beh in gens:
        for kind in ("blocking", "async"):
            out = ctx.work / f"fm-{kind}-{how}-{m}.json"
            ctx.vh("fleet-members", "--kind", kind, "--behaviours", beh, "--max", cap, "--out", out, timeout=1700)
            r = json.loads(out.read_text())
            fm_total["behaviours"] += r["behaviours"]
            fm_total["steps"] += r["steps"]
            for k, v in r["operations"].items():
                fm_total["operations"][k] = fm_total["operations"].get(k, 0) + v
            for f in r["failures"]:
                w = f["what"].split(" ")
                op = w[2].split("(")[0] if len(w) > 2 else "?"
                ctx.violation(f"fleet-members:{kind}:{op}", f"{kind} fleet, replaying a FleetMembers behaviour (max_attempts {m}): {f['what']}", f)
            if r["behaviours"] < (30 if how == "random" else 1000) and not r["failures"]:
                raise vlib.ToolError(f"only {r['behaviours']} FleetMembers behaviours ({how}) replayed on the {kind} fleet")
    ctx.coverage["fleet_members_replay"] = fm_total
    ctx.coverage["traces_validated_against_impl"] += fm_total["behaviours"]
    ctx.coverage["evaluations"] += fm_total["steps"]
    ctx.assume("FleetMembers: a node that goes down drops its connections and refuses connects; it comes back on the same port; operations are issued one at a time")
