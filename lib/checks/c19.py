"""C19: fleet calls retry only transport failures, boundedly, and recover afterwards
(src/fleet.rs, src/async_fleet.rs) against spec/Fleet.tla and spec/Trace_Fleet.tla.

 1. TLC: Fleet.tla (retry loop + cached client + scripted node) for max_attempts 1..3 and every
    script of length <= max+2: AttemptBound, RetryOnlyTransport, StopAtFirstReply, NotWedged.
    Two must-violate configurations (the retryable set of the pinned commit, which lacks
    BrokenPipe, violates NotWedged; a set that retries application errors violates
    RetryOnlyTransport) show the invariants are not vacuous.
 2. spec -> impl -> spec: every script (quick: a subset) is played by a scripted fake node against
    Fleet and AsyncFleet, single-stepped through the `fleet_before_attempt` probe; the recorded
    attempts and results are validated by Trace_Fleet. Broadcasts over every tag subset likewise.
"""
import json
import subprocess
import vlib


def shard_run(ctx, tag, args, shards):
    procs = []
    for s in range(shards):
        out = ctx.work / f"{tag}-{s}.ndjson"
        sm = ctx.work / f"{tag}-{s}.json"
        cmd = [str(vlib.VH), "fleet-scripts", "--shard", str(s), "--shards", str(shards), "--out", str(out), "--summary", str(sm)] + [str(a) for a in args]
        procs.append((subprocess.Popen(cmd, cwd=ctx.work, stdout=subprocess.PIPE, stderr=subprocess.STDOUT, text=True), out, sm))
    outs = []
    for p, out, sm in procs:
        try:
            so, _ = p.communicate(timeout=3400)
        except subprocess.TimeoutExpired:
            p.kill()
            raise vlib.ToolError(f"fleet-scripts shard timed out ({tag})")
        if p.returncode != 0:
            raise vlib.ToolError(f"fleet-scripts failed ({tag}): {so[-2000:]}")
        outs.append((out, json.loads(sm.read_text())))
    return outs


def run(ctx):
    q = not ctx.thorough
    for m in (1, 2, 3):
        ctx.tlc_mc("MC_Fleet", f"MC_Fleet_m{m}.cfg", must_cover=["StartCall", "DoAttempt"])
    ctx.tlc_mc("MC_Fleet", "MC_Fleet_aspinned.cfg", expect_violation="NotWedged")
    ctx.tlc_mc("MC_Fleet", "MC_Fleet_retriesapp.cfg", expect_violation="RetryOnlyTransport")
    ctx.coverage["checker_cmd"] = "tlc -workers 8 -coverage 1 -config spec/MC_Fleet_*.cfg spec/MC_Fleet.tla"

    # (kind, max, script length, sample-every)
    if q:
        plans = [("blocking", 1, 3, 0), ("async", 1, 3, 0), ("blocking", 2, 3, 0), ("async", 2, 4, 12), ("blocking", 3, 5, 40), ("async", 3, 5, 60)]
    else:
        plans = [("blocking", 1, 3, 0), ("async", 1, 3, 0), ("blocking", 2, 4, 0), ("async", 2, 4, 0), ("blocking", 3, 5, 0), ("async", 3, 5, 4)]
    total = 0
    merged = ctx.work / "fleet-all.ndjson"
    with open(merged, "w") as mf:
        for kind, mx, ln, every in plans:
            outs = shard_run(ctx, f"{kind}-m{mx}", ["--kind", kind, "--max", mx, "--len", ln, "--sample", every, "--seed", ctx.seed], 12)
            for out, st in outs:
                total += st["scripts"]
                mf.write(out.read_text())
        for kind in ("blocking", "async"):
            out = ctx.work / f"bc-{kind}.ndjson"
            ctx.vh("fleet-broadcast", "--kind", kind, "--out", out, "--summary", ctx.work / f"bc-{kind}.json")
            mf.write(out.read_text())
    events = vlib.read_ndjson(merged)
    ctx.coverage["evaluations"] += len(events)
    bad = 0
    cur = merged
    for attempt in range(40):
        res = ctx.tlc_trace("Trace_Fleet", "Trace_Fleet.cfg", cur, timeout=1800)
        if res["accepted"]:
            break
        evs = vlib.read_ndjson(cur)
        line = res["unmatched"]
        ev = evs[line - 1]
        if ev.get("ev") == "broadcast":
            ctx.violation(f"fleet-broadcast:{ev['kind']}", f"broadcast addressed the wrong nodes: {json.dumps(ev)}", ev)
            rest = evs[:line - 1] + evs[line:]
        else:
            start, run_evs = vlib.run_of_line(evs, line)
            hdr = run_evs[0]
            phase = next((e["phase"] for e in reversed(evs[start:line]) if e.get("ev") == "call_start"), "?")
            if ev.get("ev") == "call_end" and phase == "healthy" and ev.get("cls") != "ok":
                first_bad = ev.get("err", "")
                what = (f"node wedged: after the script {hdr['script']} the node turned healthy but both following calls failed "
                        f"({first_bad}); {hdr['kind']} fleet, max_attempts {hdr['max']}")
                # signature: the fleet kind and the error that then repeats forever
                sig = f"wedged:{hdr['kind']}:{first_bad}"
            elif ev.get("ev") == "attempt":
                what = f"attempt not allowed by the retry rules or inconsistent with what the node did: {json.dumps(ev)} (script {hdr['script']}, max {hdr['max']})"
                sig = f"attempt:{hdr['kind']}:{ev.get('armed')}:{ev.get('res')}:{'over-max' if ev.get('n', 0) > hdr['max'] else 'rule'}"
            else:
                what = f"call result not the last attempt's outcome: {json.dumps(ev)} (script {hdr['script']})"
                sig = f"result:{hdr['kind']}:{ev.get('cls')}"
            ctx.violation(sig, what, {"run_events": run_evs})
            rest = evs[:start] + evs[start + len(run_evs):]
        bad += 1
        cur = ctx.work / f"fleet-r{attempt}.ndjson"
        cur.write_text("".join(json.dumps(e) + "\n" for e in rest))
    else:
        ctx.coverage["note"] = "more than 40 rejected runs; the remainder was not validated"
    ctx.coverage["traces_validated_against_impl"] += total + 112 - bad
    ctx.coverage["distinct_nontrivial"] = total
    ctx.coverage["rule"] = "distinct (fleet kind, max_attempts, outcome script) triples played against the real fleet; every script of the stated length when sample-every is 0"
    ctx.coverage["plans"] = [dict(kind=k, max_attempts=m, script_len_upto=n, sample_every=e) for k, m, n, e in plans]
    ctx.coverage["exhaustive"] = all(e == 0 for _, _, _, e in plans)
    ctx.sample({"kind": "one played script (events)", "events": events[10:22]})
    ctx.assume("the scripted node decides each attempt's outcome; the retry loop is single-stepped through the verif-hooks probe `fleet_before_attempt`, the node is re-armed before every attempt",
               "'refused' means nothing listens and existing connections are gone for that attempt",
               "a malformed reply may or may not be retried (both allowed)",
               "node timeout 120 ms, retry delay 3 ms; 15 ms pause before each healthy-phase call so the client's reader has noticed what the node did to the connection")
