import json
import vlib


def gen_vectors(ctx):
    ctx.tlc_mc_assume = True
    return ctx.tlc_generate("MC_RepeWire", "MC_RepeWire.cfg", ["RepeWire.tla", "U64.tla"], timeout=1200)


def note_generator(ctx, vec):
    # the generator run also evaluates the ASSUMEs LayoutProps / VerdictProps over the class product
    n = sum(1 for line in open(vec, errors="replace") if line.startswith('<<"VEC"'))
    ctx.coverage["states"] += n            # one specification evaluation (vector) per line
    ctx.coverage["transitions"] += n
    ctx.coverage["mc_runs"].append({"cfg": "MC_RepeWire.cfg", "vectors": n, "assumes": ["LayoutProps", "VerdictProps"]})
    ctx.coverage["checker_cmd"] = "tlc -workers 1 -config spec/MC_RepeWire.cfg spec/MC_RepeWire.tla  (vector generator; ASSUME LayoutProps, VerdictProps)"
    return n
