from checks.tc_common import run_tc
LEVEL = "model_checking"
def run(ctx):
    run_tc(ctx, "credit")
