"""C03: every request gets exactly one matching response; notifies get none
(src/server_request.rs, src/server.rs, src/async_server.rs, src/websocket_server.rs)
against spec/ServerConn.tla and spec/Trace_ServerConn.tla.

 1. TLC: ServerConn.tla (reader / inline dispatch / off-reader permits / outbound FIFO / writer) for
    request mixes with caps 1, 2, 3 and unlimited: ExactlyOne, NeverTwo, InvokedOnce, InlineFIFO and
    the liveness property that every request is eventually answered.
 2. impl -> spec: pipelined sequences (length 64; every ordered pair of (request class, notify flag)
    over 26 classes occurs) are written as raw bytes to the blocking TCP server, the async TCP server
    (each also with read/write timeouts configured: separate emission code paths)
    and as raw binary WebSocket messages to the WebSocket server (inline routes and _blocking
    off-reader routes); requests, handler invocations and raw responses are judged by
    Trace_ServerConn, which also requires the same response fields on all six paths.
"""
import json
import vlib


def run(ctx):
    q = not ctx.thorough
    for cfg in ["cap1", "cap2", "cap3", "unlimited"]:
        cover = ["ReadInline", "ReadOff", "Writer", "HandlerExit", "Enqueue", "Release"] + (["ReadBad"] if cfg in ("cap2", "cap3") else [])
        ctx.tlc_mc("MC_ServerConn", f"MC_ServerConn_{cfg}.cfg", must_cover=cover)
    ctx.coverage["checker_cmd"] = "tlc -workers 8 -coverage 1 -config spec/MC_ServerConn_*.cfg spec/MC_ServerConn.tla"
    tr = ctx.work / "c03.ndjson"
    sm = ctx.work / "c03.json"
    ctx.vh("srv-c03", "--seed", ctx.seed, "--sequences", 44 if q else 200, "--len", 64, "--out", tr, "--summary", sm, timeout=3000)
    st = json.loads(sm.read_text())
    res = ctx.tlc_trace("Trace_ServerConn", "Trace_ServerConn.cfg", tr, timeout=1800)
    if not res["accepted"]:
        raise vlib.ToolError(f"trace not consumed: {res['detail']} line {res['unmatched']}")
    evs = vlib.read_ndjson(tr)
    runs = st["sequences"] * 6
    ctx.coverage["evaluations"] += len(evs)
    ctx.coverage["traces_validated_against_impl"] += runs - len(res["mismatches"])
    ctx.coverage["distinct_nontrivial"] = runs
    ctx.coverage["rule"] = "pipelined sequences of 64 requests (drawn to cover all ordered pairs of 26 request classes x notify flag), each played on four dispatch paths"
    ctx.coverage["request_classes"] = st["classes"]
    for line, kind in res["mismatches"]:
        start, run_evs = vlib.run_of_line(evs, line)
        hdr = run_evs[0]
        ctx.violation(f"c03:{hdr.get('transport')}:{kind}", f"{kind} on {hdr.get('transport')} (sequence {hdr.get('seq')})", {"run_events": run_evs})
    ctx.sample({"kind": "start of one pipelined run", "events": evs[:10]})
    ctx.assume("error codes are those of the request-class table in Trace_ServerConn.Expect (documented ErrorCode meanings; bodies of error responses are free text and not compared)",
               "handler invocation is observed for handlers with a user closure (JSON, typed, ctx, slice, slice_ref, custom); registry and struct mounts are observed through their responses",
               "a run ends when all expected responses arrived (plus a 60 ms linger to catch a spurious extra response) or after 1.5 s of silence (then: missing_response)",
               "off-reader cap unlimited in these runs (saturation is C16)")
