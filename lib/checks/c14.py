"""C14: the Registry behaves as a JSON tree addressed by RFC 6901 pointers (src/registry.rs,
Router::with_registry) against spec/Registry.tla + spec/Pointer.tla.

 1. TLC: small-scope exhaustive check (6 pointers, 3 values, registrations, merges, callables):
    TreeShaped, ReadYourWrite, Frame, RootMerge, ReadPure, CallExactlyOnce.
 2. spec -> impl: TLC graph of the reduced scope replayed on a real Registry, directly and through
    a Router mount: every edge, every path to the tier's depth, reads of all probe pointers.
 3. impl -> spec: random 100-op sequential histories and 4x4 concurrent histories over pointers
    with escapes, empty tokens, array indices and deep nesting; TLC checks linearizability and
    re-tokenises every logged pointer with Pointer.tla.
"""
import json
import vlib


def run(ctx):
    q = not ctx.thorough
    ctx.tlc_mc("MC_Registry", "MC_Registry.cfg" if not q else "MC_Registry_quick.cfg", must_cover=["Do"], timeout=3000)
    ctx.coverage["checker_cmd"] = "tlc -workers 8 -coverage 1 -config spec/MC_Registry*.cfg spec/MC_Registry.tla"
    graph = ctx.tlc_generate("MC_Registry", "MC_Registry_graph.cfg", ["Registry.tla"])
    out = ctx.work / "walk.json"
    ctx.vh("rg-walk", "--graph", graph, "--depth", 4 if q else 5, "--threads", 12, "--out", out, timeout=3000)
    w = json.loads(out.read_text())
    ctx.coverage["graph"] = {k: w[k] for k in ("states", "edges", "labels", "edge_replays", "depth", "paths", "op_executions")}
    ctx.coverage["traces_validated_against_impl"] += w["edge_replays"] + w["paths"]
    ctx.coverage["evaluations"] += w["op_executions"]
    ctx.coverage["distinct_nontrivial"] += w["paths"]
    ctx.sample({"kind": "longest shortest path of the spec graph, replayed on a real Registry (directly and through a Router mount)", "path": w["sample_path"]})
    for f in w["failures"]:
        ctx.violation(f"rg-walk:{f.get('op')}", f["what"], f)

    plans = [(1, 100, 40 if q else 300), (2, 6, 150 if q else 1500), (4, 4, 200 if q else 2000)]
    progs = 0
    for i, (threads, ops, runs) in enumerate(plans):
        tr = ctx.work / f"hist-{i}.ndjson"
        sm = ctx.work / f"hist-{i}.json"
        ctx.vh("rg-hist", "--seed", ctx.seed * 100 + i, "--runs", runs, "--threads", threads, "--ops", ops, "--out", tr, "--summary", sm)
        st = json.loads(sm.read_text())
        progs += st["distinct_programmes"]
        cur, bad = tr, 0
        for attempt in range(6):
            res = ctx.tlc_trace("Trace_Registry", "Trace_Registry.cfg", cur, timeout=1800)
            if res["accepted"]:
                break
            evs = vlib.read_ndjson(cur)
            line = res["unmatched"]
            start, run_evs = vlib.run_of_line(evs, line)
            ev = evs[line - 1] if line and line <= len(evs) else {}
            if ev.get("ev") == "inv":
                raise vlib.ToolError(f"harness logged a pointer whose tokens disagree with Pointer.tla: {json.dumps(ev)[:500]}")
            opname = "?"
            for e in reversed(evs[start:line - 1]):
                if e.get("ev") == "inv" and e.get("t") == ev.get("t"):
                    opname = e["op"]["name"] + ("-" + e["route"] if e.get("route") == "mount" else "")
                    break
            ctx.violation(f"rg-hist:{threads}thr:{opname}",
                          f"history not explainable by the JSON-tree model: no specification step matches event {line}: {json.dumps(ev)[:600]}",
                          {"threads": threads, "run_events": run_evs[: line - start], "line_in_run": line - start})
            bad += 1
            rest = evs[:start] + evs[start + len(run_evs):]
            cur = ctx.work / f"hist-{i}-r{attempt}.ndjson"
            cur.write_text("".join(json.dumps(e) + "\n" for e in rest))
        ctx.coverage["traces_validated_against_impl"] += runs - bad
        ctx.coverage["evaluations"] += st["events"]
        if i == 0:
            ctx.sample({"kind": "recorded sequential history (first events)", "events": vlib.read_ndjson(tr)[:6]})
    ctx.coverage["distinct_nontrivial"] += progs
    ctx.coverage["rule"] = "label paths walked on the real registry plus distinct operation programmes of the recorded histories"
    ctx.coverage["exhaustive"] = True
    ctx.coverage["explanation"] = "exhaustive within the MC scope (pointer/value sets of MC_Registry.tla); the graph walk covers the reduced scope completely; histories are random samples"
    ctx.assume("the one-character pointer '/' denotes the root in this library (as built; RFC 6901 reads it as one empty token): it is modelled as built and the single-empty-token pointer is not generated",
               "array index tokens are generated in canonical form only (no leading zeros or '+'): how non-canonical indices are treated is not part of the property",
               "JSON numbers used are small integers, strings are short ASCII: value fidelity is serde_json's business, the model is about tree structure",
               "registered functions do not touch the registry themselves")
