"""C08: bulk numeric bodies are bit-identical to the generic encoding and decode exactly
(src/message.rs, src/io.rs, src/server.rs) against spec/BeveArray.tla.

 1. TLC evaluates BeveArray.tla's layouts (typed / complex / aligned), the closed-form lengths and
    the padding / borrow rule exhaustively (query length 0..64 x alignment x size class x buffer
    misalignment 0..7) as ASSUMEs, anchored on bytes of the real encoders, and prints vectors.
 2. spec -> impl: every vector is replayed: encoders must write the specification's bytes, bulk =
    generic for n >= 1, streaming writer = builder, every decoder reads every encoder (n = 0
    included), wrong element type / format rejected, and an aligned body sent to a borrowing route
    is borrowed exactly when the specification says the element block is aligned; the blocking and
    async clients' call_typed_slice_aligned must put the specification's padded body on the wire for
    every query length (captured by a raw peer).
 3. impl -> spec: random arrays (n <= 4096 and a few up to 2^20) through builders, streaming
    writers and the bulk routes with bulk / aligned / generic request bodies, validated by
    Trace_BeveArray.
"""
import json
import vlib


def run(ctx):
    q = not ctx.thorough
    vec = ctx.tlc_generate("MC_BeveArray", "MC_BeveArray.cfg", ["BeveArray.tla"], timeout=1200)
    n = sum(1 for line in open(vec, errors="replace") if line.startswith('<<"VEC"'))
    ctx.coverage["states"] += n
    ctx.coverage["transitions"] += n
    ctx.coverage["mc_runs"].append({"cfg": "MC_BeveArray.cfg", "vectors": n, "assumes": "layout anchors, DataOffset aligned for q in 0..64, Borrowable <=> misalign % align = 0"})
    ctx.coverage["checker_cmd"] = "tlc -workers 1 -config spec/MC_BeveArray.cfg spec/MC_BeveArray.tla  (ASSUMEs + vector generator)"
    out = ctx.work / "vec.json"
    ctx.vh("bv-vectors", "--vectors", vec, "--out", out)
    w = json.loads(out.read_text())
    ctx.coverage["evaluations"] += w["evaluations"]
    ctx.coverage["traces_validated_against_impl"] += w["evaluations"]
    ctx.coverage["vector_kinds"] = w["vectors"]
    for f in w["failures"]:
        ctx.violation(f"bv:{f['sig']}", f["what"], f)
    tr = ctx.work / "rand.ndjson"
    ctx.vh("bv-random", "--seed", ctx.seed, "--runs", 400 if q else 5000, "--large", 3 if q else 12, "--out", tr, "--summary", ctx.work / "rand.json", timeout=3000)
    res = ctx.tlc_trace("Trace_BeveArray", "Trace_BeveArray.cfg", tr, timeout=1800)
    if not res["accepted"]:
        raise vlib.ToolError(f"trace not consumed: {res['detail']} line {res['unmatched']}")
    evs = vlib.read_ndjson(tr)
    ctx.coverage["evaluations"] += len(evs)
    ctx.coverage["traces_validated_against_impl"] += len(evs) - len(res["mismatches"])
    ctx.coverage["distinct_nontrivial"] = w["evaluations"] + len(evs)
    ctx.coverage["rule"] = "TLC vectors (distinct by construction) plus random arrays (element type, length, query length, random bit patterns)"
    ctx.sample({"kind": "one recorded random array", "event": evs[0]})
    for line, kind in res["mismatches"]:
        e = evs[line - 1]
        ctx.violation(f"bv-random:{kind}", f"array of {e.get('n')} elements (class {e.get('class')}, code {e.get('code')}): {kind}", e)
    ctx.coverage["exhaustive"] = True
    ctx.coverage["explanation"] = "exhaustive over MC_BeveArray's vectors (12 element types x n <= 2 x 5 byte patterns; padding for every query length 0..64 x 5 element types x misalignment 0..7 x n in {0,3}); random arrays are samples"
    ctx.assume("the generic (serde) paths exist for the ten std numeric types; half floats are exercised on the bulk paths only",
               "bit equality of large payloads is decided by the recorder (byte comparison), lengths, headers, padding and the borrow rule by TLA+",
               "the aligned form is only required to be read by a borrowing route (the property's wording); Message::decode_typed_slice on it is not judged",
               "little-endian host")
