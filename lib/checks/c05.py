"""C05: bytes put on a connection are always whole frames (three clients, three servers) against
spec/WireStream.tla and spec/Trace_WireStream.tla.

 1. TLC: WireStream.tla (concurrent writers, piecewise writes, interruption): WholeFrames holds when
    an interrupted write fails the connection; the must-violate configuration (keep writing after an
    interruption) produces the torn stream.
 2. impl -> spec: a raw peer records what each endpoint writes - concurrent callers with payload
    sizes straddling the buffer sizes (0 .. 1 MiB) on the three clients, pipelined and concurrent
    responses on the three servers, and interrupted writes: a write timeout against a stalled reader
    (blocking client, blocking server, async server), a call abandoned mid-send (async client,
    WebSocket client), 16-32 MiB payloads.  An independent content-addressed parser (bodies are keyed
    pseudo-random streams) decomposes the bytes into whole / prefix / foreign segments and
    Trace_WireStream judges them.
"""
import json
import vlib


def run(ctx):
    q = not ctx.thorough
    ctx.tlc_mc("WireStream", "MC_WireStream_TRUE.cfg", workers=4, must_cover=["Acquire", "WriteSome", "Finish", "Interrupt"])
    ctx.tlc_mc("WireStream", "MC_WireStream_FALSE.cfg", workers=4, expect_violation="WholeFrames")
    ctx.coverage["checker_cmd"] = "tlc -workers 4 -coverage 1 -config spec/MC_WireStream_*.cfg spec/WireStream.tla"
    tr = ctx.work / "w5.ndjson"
    sm = ctx.work / "w5.json"
    ctx.vh("w5", "--writers", 8 if q else 32, "--big-mib", 16 if q else 32, "--rounds", 2 if q else 8, "--out", tr, "--summary", sm, timeout=3000)
    res = ctx.tlc_trace("Trace_WireStream", "Trace_WireStream.cfg", tr, timeout=600)
    if not res["accepted"]:
        raise vlib.ToolError(f"trace not consumed: {res['detail']} line {res['unmatched']}")
    evs = vlib.read_ndjson(tr)
    for line, kind in res["mismatches"]:
        e = evs[line - 1]
        tail = [s for s in e["segments"] if s[0] != "whole"]
        ctx.violation(f"c05:{e['endpoint']}:{e['scenario']}", f"{kind} on {e['endpoint']} ({e['scenario']}): non-whole segments {tail}, {e['note']}", e)
    # vacuity guard: the interruption scenarios must actually have interrupted a write
    want_int = [e for e in evs if e["scenario"] in ("write_timeout_stalled_reader", "write_timeout_stalled_peer", "call_abandoned_mid_write",
                                                      "queued_callers_behind_abandoned_write", "queued_callers_behind_write_timeout", "notify_abandoned_mid_write", "forwarded_notify_abandoned_mid_write", "write_timeout_many_small_responses") and e["endpoint"] != "ws_client"]
    n_int = sum(1 for e in want_int if e["interrupted"])
    ctx.coverage["interruption_scenarios"] = len(want_int)
    ctx.coverage["interruption_scenarios_that_interrupted"] = n_int
    if not ctx.violations and (not want_int or n_int * 2 < len(want_int)):
        raise vlib.ToolError(f"only {n_int} of {len(want_int)} interruption scenarios interrupted a write: the stalled-peer part did not run as intended")
    ctx.coverage["evaluations"] += sum(len(e["segments"]) for e in evs)
    ctx.coverage["traces_validated_against_impl"] += len(evs) - len(res["mismatches"])
    ctx.coverage["distinct_nontrivial"] = len(evs)
    ctx.coverage["rule"] = "recorded connections: (endpoint, scenario, round); segments are the frames / partial frames found by the content-addressed parser"
    ctx.coverage["endpoints"] = sorted({e["endpoint"] for e in evs})
    ctx.sample({"kind": "segments of one interrupted connection", "event": next((e for e in evs if e["interrupted"]), evs[0])})
    ctx.assume("frame bodies are keyed pseudo-random streams of the frame's id, so the parser needs no trust in repe's own framing",
               "a stalled peer is one that does not read for 0.4-0.9 s while 16-32 MiB are written (loopback buffers absorb about 4 MiB)",
               "on WebSocket endpoints one binary message must be exactly one whole frame")
