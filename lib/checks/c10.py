"""C10: a failed or interrupted pull never publishes a file, and never a partial one
(src/value_stream.rs) against spec/PullCommit.tla and spec/Trace_PullCommit.tla.

 1. TLC: PullCommit.tla (temp file, chunks, end marker, flush+sync, verification, rename, in-process
    failure + guard, kill): DestNeverPartial, PublishedOnlyWhenComplete, FailureLeavesNothing,
    KillLeavesDest for a pre-existing and an absent destination.
 2. fault enumeration on the real pullers: producer failure after every chunk boundary +-1, connection
    cut by a TCP proxy after the k-th response for every k, a rejecting verifier, a trailer longer than
    the stream, blocking and async pullers, both compressions, destination absent or holding known old
    content; and process death: a child performing the pull is killed by
    `strace -e inject=<write|fsync|rename|close>:signal=KILL:when=n` on the temp/destination paths for
    every n.  The filesystem afterwards (destination absent / old / complete / partial, temp file
    present) and the call result are judged by Trace_PullCommit with PullCommit!Allowed.  Value-decoding
    pulls over a cut connection must return an error.
"""
import json
import vlib

LEVEL = "fault_enumeration"


def run(ctx):
    q = not ctx.thorough
    for pre in ("absent", "old"):
        ctx.tlc_mc("PullCommit", f"MC_PullCommit_{pre}.cfg", workers=2, must_cover=["CreateTmp", "WriteChunk", "Rename", "FailInProcess", "GuardDrop", "Kill"])
    ctx.coverage["checker_cmd"] = "tlc -workers 2 -coverage 1 -config spec/MC_PullCommit_*.cfg spec/PullCommit.tla"
    tr = ctx.work / "c10.ndjson"
    sm = ctx.work / "c10.json"
    files = ctx.work / "files"
    files.mkdir()
    ctx.vh("vs-c10", "--dir", files, "--out", tr, "--summary", sm, "--kill-points", 6 if q else 14, timeout=3300)
    st = json.loads(sm.read_text())
    res = ctx.tlc_trace("Trace_PullCommit", "Trace_PullCommit.cfg", tr, timeout=600)
    if not res["accepted"]:
        raise vlib.ToolError(f"trace not consumed: {res['detail']} line {res['unmatched']}")
    evs = vlib.read_ndjson(tr)
    for line, kind in res["mismatches"]:
        e = evs[line - 1]
        if kind == "tool_error":
            raise vlib.ToolError("strace could not be run in this sandbox")
        ctx.violation(f"c10:{kind}:{e.get('scenario')}", f"{kind}: scenario {e.get('scenario')} fault {e.get('fault')} puller {e.get('puller')} comp {e.get('comp')} pre {e.get('pre')}: {json.dumps(e)}", e)
    killed = sum(1 for e in evs if e.get("killed"))
    ctx.coverage["evaluations"] = len(evs)
    ctx.coverage["distinct_nontrivial"] = len({(e.get("scenario"), str(e.get("fault")), e.get("puller"), e.get("comp"), e.get("pre")) for e in evs})
    ctx.coverage["rule"] = "distinct (scenario, fault placement, puller, compression, destination pre-state) cases; a case is non-trivial by construction (it injects a fault or checks the happy path)"
    ctx.coverage["traces_validated_against_impl"] = st["cases"] - len(res["mismatches"])
    ctx.coverage["kill_points_that_killed"] = killed
    ctx.coverage["samples"] = []
    ctx.sample({"kind": "a pull killed at its first rename", "event": next((e for e in evs if e.get("killed") and str(e.get("fault", "")).startswith("rename")), evs[0])})
    ctx.sample({"kind": "producer failure one byte after a chunk boundary", "event": next(e for e in evs if e.get("scenario") == "producer_failure")})
    ctx.assume("POSIX rename atomicity; durability after power loss is not exercised (only process death)",
               "process death is injected with strace fault injection on syscalls touching the temp or destination path; kill points beyond the number of such syscalls do not kill and the pull completes",
               "a killed process may leave its temp file behind (no guard runs); an in-process failure must not")
    if killed == 0:
        raise vlib.ToolError("no strace kill point killed the child: the crash part of the check did not run")
