"""C10: a failed or interrupted pull never publishes a file, and never a partial one
(src/value_stream.rs) against spec/PullCommit.tla and spec/Trace_PullCommit.tla.

 1. TLC: PullCommit.tla (temp file, chunks, end marker, flush+sync, verification, rename, in-process
    failure + guard, kill): DestNeverPartial, PublishedOnlyWhenComplete, FailureLeavesNothing,
    KillLeavesDest for a pre-existing and an absent destination.
 2. fault enumeration on the real pullers: producer failure after every chunk boundary +-1, connection
    cut by a TCP proxy after the k-th response for every k, a rejecting verifier, a trailer longer than
    the stream, blocking and async pullers, both compressions, destination absent or holding known old
    content; and process death: a child performing the pull is killed by
    `strace -e inject=<write|fsync|rename|close>:signal=KILL:when=n` on the temp/destination paths for
    every n.  The filesystem afterwards (destination absent / old / complete / partial, temp file
    present) and the call result are judged by Trace_PullCommit with PullCommit!Allowed.  Value-decoding
    pulls over a cut connection must return an error.
 3. system-call traces: each of the five pull-to-file entry points runs in a child under
    `strace -f -y -P <dest>.svspart -P <dest>`; every completed system call on those two paths is one
    trace line, validated by Trace_PullSys.tla as PullCommit actions (create, write*, fsync, rename /
    unlink) with the unobservable steps silent; then the run is repeated with a SIGKILL injected at
    each of those calls in turn, and the model's destination and temp file must equal the real ones.
"""
import json
import vlib

LEVEL = "fault_enumeration"


def run(ctx):
    q = not ctx.thorough
    for pre in ("absent", "old"):
        ctx.tlc_mc("PullCommit", f"MC_PullCommit_{pre}.cfg", workers=2,
                   must_cover=["CreateTmp", "WriteChunk", "SeeEnd", "EndFill", "Sync", "Verify", "Rename", "FailInProcess", "FailAtEnd", "PullErrorSurfaces", "GuardDrop", "Kill"])
    ctx.tlc_mc("PullCommit", "MC_PullCommit_noend.cfg", workers=2, expect_violation="DestNeverPartial")
    ctx.coverage["checker_cmd"] = "tlc -workers 2 -coverage 1 -config spec/MC_PullCommit_*.cfg spec/PullCommit.tla"
    tr = ctx.work / "c10.ndjson"
    sm = ctx.work / "c10.json"
    files = ctx.work / "files"
    files.mkdir()
    sy = ctx.work / "c10sys.ndjson"
    ctx.vh("vs-c10", "--dir", files, "--out", tr, "--sys-out", sy, "--summary", sm, *([] if q else ["--thorough"]), timeout=3300)
    st = json.loads(sm.read_text())
    res = ctx.tlc_trace("Trace_PullCommit", "Trace_PullCommit.cfg", tr, timeout=600)
    if not res["accepted"]:
        raise vlib.ToolError(f"trace not consumed: {res['detail']} line {res['unmatched']}")
    evs = vlib.read_ndjson(tr)
    for line, kind in res["mismatches"]:
        e = evs[line - 1]
        if kind == "tool_error":
            raise vlib.ToolError("strace could not be run in this sandbox")
        ctx.violation(f"c10:{kind}:{e.get('scenario')}", f"{kind}: scenario {e.get('scenario')} fault {e.get('fault')} puller {e.get('puller')} comp {e.get('comp')} pre {e.get('pre')}: {json.dumps(e)}", e)
    # ---- system-call traces
    sevs = vlib.read_ndjson(sy)
    if any(e.get("ev") == "tool_error" for e in sevs) or not sevs:
        raise vlib.ToolError("strace could not be run in this sandbox")
    runs, cur = [], []
    for e in sevs:
        if e["ev"] == "begin" and cur:
            runs.append(cur); cur = []
        cur.append(e)
    if cur:
        runs.append(cur)
    remaining, rejected = runs, 0
    for attempt in range(6):
        part = ctx.work / f"c10sys-{attempt}.ndjson"
        part.write_text("".join(json.dumps(e) + "\n" for r in remaining for e in r))
        res2 = ctx.tlc_trace("Trace_PullSys", "Trace_PullSys.cfg", part, timeout=600)
        if res2["accepted"]:
            break
        line, n, bad = res2["unmatched"] or 1, 0, None
        for i, r in enumerate(remaining):
            if n + len(r) >= line:
                bad = i; break
            n += len(r)
        if bad is None:
            bad = len(remaining) - 1
        r = remaining[bad]
        b, at = r[0], r[min(max(line - n - 1, 0), len(r) - 1)]
        what = at.get("what") if at.get("ev") == "sys" else at.get("ev")
        ctx.violation(f"c10sys:{b['puller']}:{b['scenario']}:{'kill' if b['fault'] != 'none' else 'run'}:{what}",
                      f"system-call trace not a PullCommit behaviour ({res2['detail']}) at {json.dumps(at)[:300]}; run: puller {b['puller']} scenario {b['scenario']} fault {b['fault']} comp {b['comp']} pre {b['pre']}",
                      {"run": r, "line_in_run": line - n})
        rejected += 1
        remaining = remaining[:bad] + remaining[bad + 1:]
    killed = sum(1 for e in evs if e.get("killed")) + sum(1 for e in sevs if e.get("ev") == "end" and e.get("killed"))
    ctx.coverage["syscall_runs"] = len(runs)
    ctx.coverage["syscall_events"] = len(sevs)
    ctx.coverage["kill_sites"] = sorted({e["fault"] for e in sevs if e.get("ev") == "end" and e.get("killed")})
    evs = evs + [e for e in sevs if e["ev"] == "end"]
    ctx.coverage["evaluations"] = len(evs)
    ctx.coverage["distinct_nontrivial"] = len({(e.get("scenario"), str(e.get("fault")), e.get("puller"), e.get("comp"), e.get("pre")) for e in evs})
    ctx.coverage["rule"] = "distinct (scenario, fault placement, puller, compression, destination pre-state) cases; a case is non-trivial by construction (it injects a fault or checks the happy path)"
    ctx.coverage["traces_validated_against_impl"] = st["cases"] - len(res["mismatches"]) - rejected
    ctx.coverage["kill_points_that_killed"] = killed
    ctx.coverage["samples"] = []
    ctx.sample({"kind": "a pull killed at its first rename", "run": next((r for r in runs if r[0]["fault"].startswith("rename")), runs[0])})
    ctx.sample({"kind": "producer failure one byte after a chunk boundary", "event": next(e for e in evs if e.get("scenario") == "producer_failure")})
    ctx.assume("POSIX rename atomicity; durability after power loss is not exercised (only process death)",
               "process death is injected with strace fault injection on syscalls touching the temp or destination path; kill points beyond the number of such syscalls do not kill and the pull completes",
               "a killed process may leave its temp file behind (no guard runs); an in-process failure must not")
    if killed == 0 and not ctx.violations:
        raise vlib.ToolError("no strace kill point killed the child: the crash part of the check did not run")
