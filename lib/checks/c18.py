"""C18: PeerRegistry and its aliases stay consistent (src/peer.rs) against spec/PeerRegistry.tla.

 1. TLC: complete reachable graph for 3 peers x 3 keys (IndexConsistent, LookupSound,
    RemoveOnlyOwn, AliasMoves).
 2. spec -> impl: every edge replayed from a shortest path; every mutator/broadcast path up to the
    tier's depth walked on the real registry with all queries compared in every state.
 3. impl -> spec: long sequential histories and concurrent (2-4 thread) histories validated by the
    linearizability trace spec Trace_PeerRegistry (silent Linearize steps).
"""
import json
import vlib


def run(ctx):
    q = not ctx.thorough
    ctx.tlc_mc("MC_PeerRegistry", "MC_PeerRegistry.cfg", workers=4, must_cover=["Mutate", "Query"])
    ctx.coverage["checker_cmd"] = "tlc -workers 4 -coverage 1 -config spec/MC_PeerRegistry.cfg spec/MC_PeerRegistry.tla"
    graph = ctx.tlc_generate("MC_PeerRegistry", "MC_PeerRegistry_graph.cfg", ["PeerRegistry.tla"])
    out = ctx.work / "walk.json"
    ctx.vh("pr-walk", "--graph", graph, "--depth", 6 if q else 7, "--threads", 12, "--out", out, timeout=3000)
    w = json.loads(out.read_text())
    ctx.coverage["graph"] = {k: w[k] for k in ("states", "edges", "labels", "edge_replays", "depth", "paths", "op_executions")}
    ctx.coverage["traces_validated_against_impl"] += w["edge_replays"] + w["paths"]
    ctx.coverage["evaluations"] += w["op_executions"]
    ctx.coverage["distinct_nontrivial"] += w["paths"]
    ctx.sample({"kind": "longest shortest path of the spec graph, replayed on the real PeerRegistry", "path": w["sample_path"]})
    for f in w["failures"]:
        ctx.violation(f"pr-walk:{f.get('op')}", f["what"], f)

    plans = [(1, 60, 5, 5, 150 if q else 600), (2, 6, 3, 3, 200 if q else 1500), (4, 4, 3, 3, 300 if q else 2000), (4, 6, 4, 4, 100 if q else 1000)]
    progs = 0
    for i, (threads, ops, peers, keys, runs) in enumerate(plans):
        tr = ctx.work / f"hist-{i}.ndjson"
        sm = ctx.work / f"hist-{i}.json"
        ctx.vh("pr-hist", "--seed", ctx.seed * 100 + i, "--runs", runs, "--threads", threads, "--ops", ops,
               "--peers", peers, "--keys", keys, "--out", tr, "--summary", sm)
        st = json.loads(sm.read_text())
        progs += st["distinct_programmes"]
        cur, bad = tr, 0
        for attempt in range(6):
            res = ctx.tlc_trace("Trace_PeerRegistry", "Trace_PeerRegistry.cfg", cur, timeout=1800)
            if res["accepted"]:
                break
            evs = vlib.read_ndjson(cur)
            line = res["unmatched"]
            start, run_evs = vlib.run_of_line(evs, line)
            ev = evs[line - 1] if line and line <= len(evs) else {}
            opname = "?"
            if ev.get("ev") in ("res", "panic"):
                for e in reversed(evs[start:line - 1]):
                    if e.get("ev") == "inv" and e.get("t") == ev.get("t"):
                        opname = e["op"]["name"]
                        break
            ctx.violation(f"pr-hist:{threads}thr:{opname}",
                          f"history not linearizable against the sequential model: no specification step matches event {line}: {json.dumps(ev)} ({res['detail']})",
                          {"threads": threads, "run_events": run_evs, "line_in_run": line - start})
            bad += 1
            rest = evs[:start] + evs[start + len(run_evs):]
            cur = ctx.work / f"hist-{i}-r{attempt}.ndjson"
            cur.write_text("".join(json.dumps(e) + "\n" for e in rest))
        ctx.coverage["traces_validated_against_impl"] += runs - bad
        ctx.coverage["evaluations"] += st["events"]
        if i == 2:
            ctx.sample({"kind": "one concurrent 4-thread history (inv/res events)", "events": vlib.read_ndjson(tr)[:12]})
    ctx.coverage["distinct_nontrivial"] += progs
    ctx.coverage["rule"] = "label paths walked on the real registry (each distinct by construction of the DFS) plus distinct per-thread operation programmes of the recorded histories"
    ctx.coverage["exhaustive"] = True
    ctx.coverage["explanation"] = "the reachable graph for 3 peers x 3 keys is complete (302 states, depth 7); every edge replayed; concurrent histories are samples of the OS scheduler"
    ctx.assume("PeerIds are unique: a present peer is never inserted again (API precondition, debug_assert in the code)",
               "broadcast's linearization point is its snapshot of the peer map; deliveries are attributed to a broadcast by a body unique to it",
               "sinks used by the harness never fail, so every broadcast result is Ok")
