"""C12: a parked producer is always woken (src/stream.rs wait_for_credit / wait_for_reconnect).

 1. TLC exhaustively checks TransferSync.tla (lock-step mutex/condvar model over the
    TransferControl action bodies): NoLostWakeup, TimeoutOnlyAtDeadline and the liveness
    properties, for one waiter and up to three signallers; four must-violate configurations
    (one notifier removed each) show the invariant is not vacuous.
 2. impl -> spec: real-thread schedules recorded by the verif-hooks events (under the mutex)
    are validated by Trace_TransferSync, which reuses the model's WEnter / WWake / Expire.
"""
import json
import vlib

REASON = {
    "w_park": ("parked-while-ready", "the waiter parked although its wait condition held"),
    "w_return": ("bad-return", "the wait returned a result the protocol does not allow in that state (e.g. a timeout before the deadline, or ok while blocked)"),
    "w_done": ("early-timeout", "the wait reported a timeout before its deadline (or with a far-future deadline), or a result other than the one logged under the lock"),
    "quiesce": ("lost-wakeup", "all signallers finished, the wait condition holds (or the deadline passed) and the waiter still had not returned after the watchdog"),
}


def run(ctx):
    q = not ctx.thorough
    for cfg in (["quick", "quick3"] if q else ["full2", "thorough", "thorough_live"]):
        ctx.tlc_mc("MC_TransferSync", f"MC_TransferSync_{cfg}.cfg", must_cover=["WEnter", "WWake", "SStep"] + ([] if cfg.endswith("live") else ["Expire"]), timeout=3000)
    for n in ["Ack", "Cancel", "Advance", "Resume"]:
        ctx.tlc_mc("MC_TransferSync", f"MC_TransferSync_no{n}.cfg", expect_violation="NoLostWakeup", timeout=300)
    ctx.coverage["checker_cmd"] = "tlc -workers 8 -coverage 1 -config spec/MC_TransferSync_*.cfg spec/MC_TransferSync.tla"

    batches = 1 if q else 10
    per = 500 if q else 1000
    total_sched = 0
    distinct = 0
    for b in range(batches):
        tr = ctx.work / f"sync-{b}.ndjson"
        sm = ctx.work / f"sync-{b}.json"
        # the first batch also carries the systematic part: every signaller sequence of <= 2 (thorough: 3) operations
        ctx.vh("tc-sync", "--seed", ctx.seed * 100 + b, "--schedules", per, "--systematic-depth", (2 if q else 3) if b == 0 else 0,
               "--out", tr, "--summary", sm, timeout=3000)
        st = json.loads(sm.read_text())
        distinct += st["distinct_schedules"]
        events = vlib.read_ndjson(tr)
        ctx.coverage["evaluations"] += len(events)
        bad = 0
        cur = tr
        for attempt in range(6):
            res = ctx.tlc_trace("Trace_TransferSync", "Trace_TransferSync.cfg", cur)
            if res["accepted"]:
                break
            evs = vlib.read_ndjson(cur)
            line = res["unmatched"]
            ev = evs[line - 1] if line and line <= len(evs) else {}
            start, run_evs = vlib.run_of_line(evs, line)
            if ev.get("ev") in REASON:
                sig, what = REASON[ev["ev"]]
                kind = run_evs[0].get("kind", "?") if run_evs else "?"
                ctx.violation(f"tc-sync:{sig}:{kind}", f"{what}; event {json.dumps(ev)}", {"run_events": run_evs, "line": line})
                bad += 1
            else:
                raise vlib.ToolError(f"trace {cur} rejected at line {line} on a non-judgement event {ev} ({res['detail']}): hook or spec out of date")
            # drop the offending run and validate the remaining ones
            rest = evs[:start] + evs[start + len(run_evs):]
            cur = ctx.work / f"sync-{b}-r{attempt}.ndjson"
            cur.write_text("".join(json.dumps(e) + "\n" for e in rest))
        if not ctx.violations and st["parked_runs"] * 4 < st["schedules"]:
            raise vlib.ToolError(f"only {st['parked_runs']} of {st['schedules']} schedules had the waiter parked before a signaller ran: the wake-up part did not run as intended")
        total_sched += st["schedules"]
        ctx.coverage["traces_validated_against_impl"] += st["schedules"] - bad
        if b == 0:
            s0, run0 = vlib.run_of_line(events, 2)
            ctx.sample({"kind": "one recorded real-thread schedule", "events": run0[:14]})
            ctx.coverage["schedule_stats"] = st
    ctx.coverage["distinct_nontrivial"] = distinct
    ctx.coverage["rule"] = "distinct (wait kind, window, length, deadline, signaller programmes) tuples among the recorded real-thread schedules; each ran under the OS scheduler with random yields"
    ctx.assume("hook events are emitted while TransferControl's mutex is held, so their seq order is the linearization order",
               "a waiter that has not returned 10 s after every signaller finished, although the logged state satisfies its wait condition, is taken to have missed its wake-up",
               "OS scheduling decides which interleavings the real-thread runs visit; exhaustiveness over interleavings comes from the TLC model only")
