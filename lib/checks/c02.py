"""C02: hostile bytes never crash a parser or reader; only consistent frames parse
(src/header.rs, src/message.rs, src/io.rs, src/async_io.rs) against spec/RepeWire.tla.

 1. TLC enumerates the boundary-class product of the three 64-bit length fields x buffer length x
    magic (MC_RepeWire, ~35 000 vectors) with the verdict the specification gives for each entry
    family (Header::decode / slice parsers / exact parsers / stream readers); ASSUME VerdictProps
    checks the verdict function itself.
 2. spec -> impl: every vector is executed on all nine entry points, and on the two buffer-reusing
    readers with a buffer that has already held two smaller frames, in a child process (a panic is
    caught and reported, an abort is attributed to the case being run); ok/err and the returned
    query/body regions are compared with the specification.
 3. impl -> spec: random byte strings <= 4 KiB and structured mutations of valid frames are
    executed the same way and validated by Trace_RepeWire.
"""
import json
import vlib
from checks.wire_common import gen_vectors, note_generator


def run(ctx):
    q = not ctx.thorough
    vec = gen_vectors(ctx)
    note_generator(ctx, vec)
    work = ctx.work / "wx"
    work.mkdir()
    out = work / "out.json"
    tr = work / "trace.ndjson"
    ctx.vh("wire-exec", "--work", work, "--vectors", vec, "--random", 4000 if q else 40000, "--seed", ctx.seed, "--trace", tr, "--out", out, timeout=3400)
    w = json.loads(out.read_text())
    ctx.coverage["evaluations"] += w["evaluations"]
    ctx.coverage["distinct_nontrivial"] = w["cases"]
    ctx.coverage["rule"] = "distinct input buffers (TLC boundary vectors + random/mutated buffers), each run on up to nine entry points"
    ctx.coverage["traces_validated_against_impl"] += w["tlc_vectors"]
    ctx.coverage["entry_verdict_classes_reached"] = w["distinct_entry_verdict_classes"]
    ctx.coverage["child_process_crashes"] = w["crashes"]
    ctx.sample({"kind": "one TLC vector: header bytes, buffer length, verdict per entry family", "vector": w["sample"]})
    for f in w["failures"]:
        fam = "stream-reader" if f["entry"].startswith("read") else ("header-decode" if f["entry"] == "header" else "slice-parser")
        sig = f"wire:{f['class']}:{fam}:{f['expected']}"
        ctx.violation(sig, f"{f['entry']} on a {f['buflen']}-byte buffer: {f['what']} (header bytes {f['header_bytes']})", f)
    if w.get("failure_counts"):
        ctx.coverage["failure_counts"] = w["failure_counts"]
    # random / mutated inputs: TLC recomputes every verdict
    res = ctx.tlc_trace("Trace_RepeWire", "Trace_RepeWire.cfg", tr, timeout=1800)
    if not res["accepted"]:
        raise vlib.ToolError(f"trace not consumed: {res['detail']} line {res['unmatched']}")
    evs = vlib.read_ndjson(tr)
    ctx.coverage["traces_validated_against_impl"] += len(evs) - len(res["mismatches"])
    for line, kind in res["mismatches"]:
        e = evs[line - 1]
        fam = "stream-reader" if e["entry"] == "stream" else ("header-decode" if e["entry"] == "header" else "slice-parser")
        cls = {"panic": "panic", "abort": "abort"}.get(kind, "verdict")
        ctx.violation(f"wire-random:{cls}:{fam}", f"{e['route']} on a {e['buflen']}-byte buffer: outcome {e['outcome']} ({e.get('msg', '')}) contradicts the specification ({kind}); header bytes {e['hb']}", e)
    # on the wire: servers with a read timeout must not re-frame the stream after a timed-out partial header
    to = ctx.work / "c02to.json"
    ctx.vh("srv-c02-timeouts", "--out", to, timeout=300)
    for c in json.loads(to.read_text())["cases"]:
        ctx.coverage["evaluations"] += 1
        if c["dispatched"] or c["response_bytes"] >= 48:
            ctx.violation(f"wire-timeout:{c['server']}", f"{c['server']} with a read timeout: {c['junk']} junk bytes, a stall longer than the timeout, then a valid frame - the frame was "
                          f"dispatched {c['dispatched']} time(s) and {c['response_bytes']} response bytes came back although the stream's first 48 bytes are not a header", c)
    # the clients' response readers are stream-reading entry points as well: well-formed frames nobody waits for, hostile in content only
    st = ctx.work / "stray.json"
    ctx.vh("mux-stray", "--out", st, timeout=900)
    for c in json.loads(st.read_text())["cases"]:
        ctx.coverage["evaluations"] += 1
        if c["panics"] or c["cls"] != "ok":
            ctx.violation(f"client-reader:{c['client']}:{'panic' if c['panics'] else c['cls']}",
                          f"{c['client']} client, a stray {c['flavour']} frame with a {c['query_len']}-byte query ({c['query']}) arrived while a call was in flight: "
                          f"{c['panics']} panic(s) ({c['panic_msg']}), the call then returned {c['cls']} ({c['msg']})", c)
    # unallocatable declared frames on the wire, at each TCP server with and without a read timeout; in a process of its
    # own, because an abort of the code under test would end it
    hg = ctx.work / "huge.json"
    prog = ctx.work / "huge.progress"
    p = ctx.vh("srv-c02-huge", "--out", hg, "--progress", prog, timeout=600, ok_codes=(0, 1, 101, 134, -6, -11))
    if p.returncode != 0 or not hg.exists():
        at = prog.read_text() if prog.exists() else "?"
        ctx.violation("wire-huge:process-died", f"the server process died (exit status {p.returncode}) while handling a header that declares an unallocatable frame: {at}; output tail: {(p.stdout or '')[-300:]}", {"at": at, "rc": p.returncode})
    else:
        for c in json.loads(hg.read_text())["cases"]:
            ctx.coverage["evaluations"] += 1
            if c["panics"] or not c["alive"]:
                ctx.violation(f"wire-huge:{c['server']}:{'panic' if c['panics'] else 'dead'}", f"{c['server']}: a header declaring a body of {c['body_length']} bytes: {c['panics']} panic(s), server still serving afterwards: {c['alive']}", c)
    ctx.coverage["exhaustive"] = True
    ctx.coverage["explanation"] = "exhaustive over the boundary-class product of MC_RepeWire (LenClasses x LenClasses x Totals x BufLens x magic); random inputs are samples"
    ctx.assume("error KIND is not judged (the property only demands an error); disagreements about the reason are not violations",
               "stream readers are only given declared sizes <= 16 MiB or >= 2^62, as the property prescribes",
               "out-of-bounds reads would surface as panics in safe Rust; no memory-safety tool is used here")
