"""C09: a pulled value stream reproduces the producer's bytes exactly and ends once
(src/value_stream.rs) against spec/ValueStream.tla and spec/Trace_ValueStream.tla.

 1. TLC: ValueStream.tla (producer -> ChunkSink -> bounded channel, depth 0 = rendezvous ->
    lookahead -> next handler -> client, cancel) with the parameters drawn in Init (N 0..7, chunk
    1..3, depth 0..2, write sizes 1..3, failure at every byte or none): PrefixOk, AtMostOneLast,
    LastIsComplete, NothingAfterEnd, FailNeverLast, EmptyIsSingle, AfterCancelError, the as-built
    confluence AsBuilt and the liveness property Finishes, over every interleaving.
 2. impl -> spec: scripted producers of every kind (writer, reader, value, typed array, complex
    array) on real servers for chunk sizes 1 B .. 64 KiB (1 MiB thorough), depths 0..4 (8), both
    compression settings, payload lengths at every boundary residue k*chunk-1, k*chunk, k*chunk+1,
    producer failure at chunk boundaries +-1, slow consumer / slow producer regimes, release in the
    middle; pulled by raw /_svs/* exchanges and by the blocking, async and WebSocket pullers.
    Trace_ValueStream judges each pull; the exact chunk sizes of the as-built layer are compared too
    but a difference there alone is reported as spec_drift, not as a violation.
 3. spec -> impl: MC_ValueStreamGen prints the one terminal reply sequence ValueStream has for each of
    the 396 parameter choices (N 0..7 x chunk 1..3 x depth 0..2 x failure point); the same raw exchange
    (next until end marker or error, then one more next) is performed on real writer producers with
    those chunk sizes and depths, twice with different write patterns, and the reply sequence
    (kind, length, end marker) must equal the model's.
"""
import json
import vlib


def run(ctx):
    q = not ctx.thorough
    ctx.tlc_mc("ValueStream", "MC_ValueStream.cfg", must_cover=["Next"], timeout=1800)
    ctx.coverage["checker_cmd"] = "tlc -workers 8 -coverage 1 -config spec/MC_ValueStream.cfg spec/ValueStream.tla"
    tr = ctx.work / "c09.ndjson"
    sm = ctx.work / "c09.json"
    args = ["vs-c09", "--out", tr, "--summary", sm] + ([] if q else ["--thorough"])
    ctx.vh(*args, timeout=3300)
    st = json.loads(sm.read_text())
    res = ctx.tlc_trace("Trace_ValueStream", "Trace_ValueStream.cfg", tr, timeout=1800)
    if not res["accepted"]:
        raise vlib.ToolError(f"trace not consumed: {res['detail']} line {res['unmatched']}")
    evs = vlib.read_ndjson(tr)
    for line, kind in res["mismatches"]:
        e = evs[line - 1]
        who = e.get("via", "raw exchange")
        ctx.violation(f"c09:{kind}:{e.get('producer')}:{who if e['ev'] == 'pull' else 'raw'}",
                      f"{kind}: producer {e.get('producer')} n={e.get('n')} chunk={e.get('chunk')} depth={e.get('depth')} comp={e.get('comp')} fail={e.get('fail')} via {who}: {json.dumps(e)[:500]}", e)
    for line, kind in res.get("drift", []):
        ctx.drift.append({"line": line, "kind": kind, "event": evs[line - 1]})
    # ---- spec -> impl: the model's terminal reply sequences replayed on real producers
    vec = ctx.tlc_generate("MC_ValueStreamGen", "MC_ValueStreamGen.cfg", ["ValueStream.tla"], timeout=1200)
    vt, vs_ = ctx.work / "c09vec.ndjson", ctx.work / "c09vec.json"
    ctx.vh("vs-c09-vec", "--vectors", vec, "--out", vt, "--summary", vs_, "--reps", 2 if q else 5, timeout=1200)
    vst = json.loads(vs_.read_text())
    if vst["vectors"] < 300:
        raise vlib.ToolError(f"generator produced only {vst['vectors']} vectors")

    def proj(rs, fail):
        kinds = []
        for k, _n, last in rs:
            t = "err" if k == "err" else ("last" if last else "chunk")
            if not (t == "chunk" and kinds and kinds[-1] == "chunk"):
                kinds.append(t)
        total = sum(n for k, n, _ in rs if k == "chunk")
        return (kinds, total if fail < 0 else None)
    for e in vlib.read_ndjson(vt):
        if e["same"]:
            continue
        if not e["open"] or not e["bytes_ok"] or proj(e["got"], e["fail"]) != proj(e["expected"], e["fail"]):
            ctx.violation(f"c09vec:{'fail' if e['fail'] >= 0 else 'ok'}:{proj(e['got'], e['fail'])[0]}",
                          f"reply sequence differs from ValueStream's for n={e['n']} chunk={e['chunk']} depth={e['depth']} fail={e['fail']} (writes {e['w']}): expected {e['expected']}, got {e['got']}", e)
        else:
            ctx.drift.append({"kind": "chunk_sizes_vs_model", "event": e})
    ctx.coverage["spec_vectors_replayed"] = vst["replayed_same"] + vst["replayed_different"]
    ctx.coverage["spec_vectors_equal"] = vst["replayed_same"]
    ctx.coverage["evaluations"] += len(evs) + vst["replayed_same"] + vst["replayed_different"]
    ctx.coverage["traces_validated_against_impl"] += st["pulls"] - len(res["mismatches"])
    ctx.coverage["distinct_nontrivial"] = len({(e.get("producer"), e.get("n"), e.get("chunk"), e.get("depth"), e.get("comp"), e.get("fail"), e.get("via", "raw"), e.get("psleep", 0), e.get("csleep", 0), e.get("cancelled", False)) for e in evs})
    ctx.coverage["rule"] = "distinct (producer kind, payload length, chunk, depth, compression, failure point, puller, speed regime, release) tuples"
    ctx.sample({"kind": "one raw exchange", "event": next(e for e in evs if e["ev"] == "raw" and e["n"] > 3)})
    ctx.assume("with compression the chunk boundaries are opaque: the reply sequence is judged structurally (one end marker, at the end) and the decompressed concatenation byte for byte",
               "producer/consumer relative speed is varied with sleeps (consumer 300 us per pull, producer 200 us per write); all interleavings are covered in the TLC model only",
               "failure exactly at the end of the payload may surface as an error or not (both accepted for the high-level pullers)")
