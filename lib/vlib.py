"""Common machinery of the /verif checks (python3 stdlib only).

A check is a function run(ctx) in lib/checks/<id>.py.  It uses ctx to
 * build the Rust harness against /repo's current working tree,
 * run TLC exhaustively on an MC configuration (ctx.tlc_mc),
 * obtain TLC-generated graphs / vectors (ctx.tlc_generate),
 * validate recorded traces against a trace specification (ctx.tlc_trace),
 * report violations (ctx.violation) and coverage (ctx.cov),
and ctx.finish() writes evidence/<id>.json, prints VIOLATION / KNOWN-FINDING lines
and chooses the exit code: 0 held, 1 violation (with replay file), 2 tool error.
"""
import hashlib
import json
import os
import re
import shutil
import subprocess
import sys
import time
from pathlib import Path

VERIF = Path(__file__).resolve().parent.parent
SPEC = VERIF / "spec"
HARNESS = VERIF / "harness"
VH = HARNESS / "target" / "release" / "vh"
WORK = VERIF / "work"
REPLAYS = VERIF / "replays"
EVIDENCE = VERIF / "evidence"
REPO = Path("/repo")

TLC_CP = "/opt/veriftools/tla/tla2tools.jar:/opt/veriftools/tla/CommunityModules-deps.jar"


class ToolError(Exception):
    pass


def log(*a):
    print(*a, file=sys.stderr, flush=True)


def run(cmd, timeout=None, env=None, cwd=None, stdout=None):
    e = dict(os.environ)
    if env:
        e.update(env)
    return subprocess.run(cmd, timeout=timeout, env=e, cwd=cwd, stdout=stdout or subprocess.PIPE,
                          stderr=subprocess.STDOUT, text=True)


def build_harness():
    """cargo build of the harness (path dependency on /repo, feature verif-hooks on).
    Always invoked, so every check runs against /repo's current working tree."""
    t0 = time.time()
    lock = HARNESS / "Cargo.lock"
    if not lock.exists():
        shutil.copy(REPO / "Cargo.lock", lock)
    env = {"CARGO_NET_OFFLINE": "true"}
    # serialise concurrent builds (cargo also locks the target dir itself)
    p = run(["cargo", "build", "--release", "--offline", "--quiet"], cwd=HARNESS, env=env, timeout=1800)
    if p.returncode != 0 or not VH.exists():
        raise ToolError("harness build failed:\n" + (p.stdout or "")[-4000:])
    return time.time() - t0


def spec_hash(*names):
    h = hashlib.sha256()
    for n in sorted(names):
        h.update(n.encode())
        h.update((SPEC / n).read_bytes())
    return h.hexdigest()[:16]


class Ctx:
    def __init__(self, pid, tier, seed, level="model_checking"):
        self.pid, self.tier, self.seed, self.level = pid, tier, seed, level
        self.t0 = time.time()
        self.work = WORK / f"{pid}-{tier}"
        if self.work.exists():
            shutil.rmtree(self.work)
        self.work.mkdir(parents=True)
        self.coverage = {"states": 0, "transitions": 0, "traces_validated_against_impl": 0,
                         "evaluations": 0, "distinct_nontrivial": 0, "samples": [],
                         "checker_cmd": "", "mc_runs": [], "exhaustive": False}
        self.assumptions = []
        self.violations = []   # dicts: signature, what, replay(dict)
        self.drift = []        # spec_drift notes (as-built layer only), never a violation
        self.tool_errors = []
        self.thorough = tier == "thorough"

    # ------------------------------------------------------------------ TLC
    def _tlc(self, args, env=None, timeout=900, out=None, heap="8g"):
        cmd = ["java", "-XX:+UseParallelGC", f"-Xmx{heap}", "-cp", TLC_CP, "tlc2.TLC"] + args
        outp = out or (self.work / f"tlc-{len(list(self.work.glob('tlc-*')))}.log")
        with open(outp, "w") as f:
            try:
                p = run(cmd, timeout=timeout, env=env, cwd=self.work, stdout=f)
                rc = p.returncode
            except subprocess.TimeoutExpired:
                rc = -9
        return rc, outp

    def apalache_inductive(self, module, init, inv, timeout=900):
        """Apalache: Init => inv (length 0) and inv /\ Next => inv' (from `init` = the invariant, length 1).
        Both must report NoError; anything else is a tool error (the specification, not the code, would be wrong)."""
        outs = []
        for (ini, length) in ((None, 0), (init, 1)):
            d = self.work / f"apalache-{module}-{length}"
            d.mkdir(exist_ok=True)
            cmd = ["apalache-mc", "check", f"--inv={inv}", f"--length={length}", f"--out-dir={d}", f"--run-dir={d}"]
            if ini:
                cmd.append(f"--init={ini}")
            cmd.append(str(SPEC / f"{module}.tla"))
            try:
                p = run(cmd, timeout=timeout, cwd=d)
            except subprocess.TimeoutExpired:
                raise ToolError(f"apalache timed out on {module} (length {length})")
            text = (p.stdout or "") + (p.stderr or "")
            if "The outcome is: NoError" not in text:
                raise ToolError(f"apalache does not confirm {inv} on {module} (length {length}):\n{text[-2500:]}")
            outs.append(f"length {length}: NoError")
            shutil.rmtree(d, ignore_errors=True)
        self.coverage.setdefault("apalache", []).append({"module": module, "invariant": inv, "result": outs})

    def tlc_mc(self, module, cfg, workers=8, timeout=900, must_cover=(), expect_violation=None, heap="12g"):
        """Exhaustive run of spec/<module>.tla with spec/<cfg>. Returns dict(states, distinct, coverage).
        expect_violation: name of an invariant/property that MUST be violated (non-vacuity configs)."""
        md = self.work / f"md-{cfg}"
        rc, outp = self._tlc(["-workers", str(workers), "-coverage", "1", "-metadir", str(md), "-cleanup",
                              "-noGenerateSpecTE", "-config", str(SPEC / cfg), str(SPEC / f"{module}.tla")],
                             timeout=timeout, heap=heap)
        shutil.rmtree(md, ignore_errors=True)
        text = outp.read_text(errors="replace")
        if rc == -9:
            raise ToolError(f"TLC timed out on {cfg}")
        m = re.search(r"(\d+) states generated, (\d+) distinct states found", text)
        if not m:
            raise ToolError(f"TLC produced no state count on {cfg}:\n{text[-3000:]}")
        gen, dist = int(m.group(1)), int(m.group(2))
        cov = {}
        for mm in re.finditer(r"^<(\w+) line \d+, col \d+ to line \d+, col \d+ of module \w+(?: \([\d ]+\))?>: (\d+):(\d+)$", text, re.M):
            cov[mm.group(1)] = (int(mm.group(2)), int(mm.group(3)))
        viol = re.search(r"Error: (Invariant (\w+) is violated|Action property (\w+) is violated|Temporal properties were violated|Deadlock reached)", text)
        err = None
        if viol:
            err = viol.group(2) or viol.group(3) or viol.group(1)
        elif "Error:" in text:
            raise ToolError(f"TLC error on {cfg}:\n" + text[text.index('Error:'):][:3000])
        res = {"cfg": cfg, "generated": gen, "distinct": dist, "violated": err, "log": str(outp)}
        if expect_violation:
            if err is None:
                raise ToolError(f"{cfg}: expected a violation of {expect_violation} (non-vacuity config) but TLC found none")
            res["expected_violation"] = expect_violation
        else:
            if err is not None:
                raise ToolError(f"{cfg}: the specification violates {err} — a bug in the spec, not in the code:\n" + text[text.index('Error:'):][:3000])
            for a in must_cover:
                if cov.get(a, (0, 0))[1] == 0:
                    raise ToolError(f"{cfg}: action {a} was never taken — the configuration is vacuous for it")
            self.coverage["states"] += dist
            self.coverage["transitions"] += gen
        self.coverage["mc_runs"].append({k: res[k] for k in ("cfg", "generated", "distinct", "violated")} |
                                        {"actions": {k: v[1] for k, v in cov.items()}})
        return res

    def tlc_generate(self, module, cfg, deps, timeout=1800, env=None, cache=True, extra_args=()):
        """Run TLC (1 worker) as a generator of EDGE/VEC lines; the output is a function of the
        specification only, so it is cached under work/gen keyed by the hash of the spec files."""
        gen = WORK / "gen"
        gen.mkdir(parents=True, exist_ok=True)
        key = spec_hash(f"{module}.tla", cfg, *deps) + ("-" + hashlib.sha256(json.dumps(env, sort_keys=True).encode()).hexdigest()[:8] if env else "")
        if extra_args:
            key += "-" + hashlib.sha256(json.dumps([str(a) for a in extra_args]).encode()).hexdigest()[:8]
        outp = gen / f"{cfg}.{key}.out"
        if cache and outp.exists() and outp.stat().st_size > 0:
            return outp
        for old in gen.glob(f"{cfg}.*.out"):
            old.unlink()
        md = self.work / f"mdg-{cfg}"
        tmp = gen / f"{cfg}.{key}.tmp"
        rc, _ = self._tlc(["-workers", "1"] + [str(a) for a in extra_args] + ["-metadir", str(md), "-cleanup", "-noGenerateSpecTE",
                           "-config", str(SPEC / cfg), str(SPEC / f"{module}.tla")], timeout=timeout, out=tmp, env=env)
        shutil.rmtree(md, ignore_errors=True)
        text_tail = tmp.read_text(errors="replace")[-3000:] if tmp.stat().st_size < 50_000_000 else ""
        if rc != 0:
            with open(tmp, errors="replace") as f:
                head = f.read(200000)
            if "Error:" in head or rc == -9:
                raise ToolError(f"TLC generator {cfg} failed (rc={rc}):\n{head[head.find('Error:'):][:3000]}{text_tail[-1000:]}")
        tmp.rename(outp)
        return outp

    def tlc_trace(self, module, cfg, trace, timeout=900, extra_env=None):
        """Validate an ND-JSON trace against spec/<module>.tla. Returns dict(accepted, unmatched, mismatches, detail)."""
        env = {"TRACE": str(trace),
               "JAVA_TOOL_OPTIONS": "-Xss1g -Dtlc2.tool.queue.IStateQueue=StateDeque"}
        if extra_env:
            env.update(extra_env)
        md = self.work / f"mdt-{Path(trace).name}"
        rc, outp = self._tlc(["-workers", "1", "-metadir", str(md), "-cleanup", "-noGenerateSpecTE",
                              "-config", str(SPEC / cfg), str(SPEC / f"{module}.tla")], env=env, timeout=timeout, heap="6g")
        shutil.rmtree(md, ignore_errors=True)
        text = outp.read_text(errors="replace")
        if rc == -9:
            raise ToolError(f"TLC timed out validating {trace}")
        m = re.search(r"(\d+) states generated, (\d+) distinct states found", text)
        if m:
            self.coverage["trace_states"] = self.coverage.get("trace_states", 0) + int(m.group(2))
        mis = []
        mm = re.search(r'<<"MISMATCHES", (".*")>>', text)
        if mm:
            mis = json.loads(json.loads(mm.group(1)))
        drift = []
        dm = re.search(r'<<"DRIFT", (".*")>>', text)
        if dm:
            drift = json.loads(json.loads(dm.group(1)))
        res = {"accepted": False, "unmatched": None, "mismatches": mis, "drift": drift, "detail": "", "log": str(outp)}
        if "Model checking completed. No error has been found." in text:
            res["accepted"] = True
            return res
        um = re.search(r'<<"UNMATCHED", (\d+)', text)
        iv = re.search(r"Error: (Invariant (\w+) is violated|Action property (\w+) is violated)", text)
        if iv:
            # the trace drove the specification into a property violation: find how far it got
            st = re.findall(r"^State (\d+):", text, re.M)
            res["unmatched"] = int(st[-1]) - 1 if st else None
            res["detail"] = f"property {(iv.group(2) or iv.group(3))} violated along the trace"
            return res
        if um:
            res["unmatched"] = int(um.group(1))
            res["detail"] = "no specification step matches this event"
            return res
        raise ToolError(f"TLC failed on trace {trace}:\n" + text[-3000:])

    # ------------------------------------------------------------------ harness
    def vh(self, *args, timeout=1800, env=None, ok_codes=(0, 1)):
        p = run([str(VH)] + [str(a) for a in args], timeout=timeout, env=env, cwd=self.work)
        if p.returncode not in ok_codes:
            raise ToolError(f"vh {' '.join(map(str, args))} failed rc={p.returncode}:\n{(p.stdout or '')[-3000:]}")
        return p

    # ------------------------------------------------------------------ results
    def sample(self, s, limit=6):
        if len(self.coverage["samples"]) < limit:
            self.coverage["samples"].append(s)

    def violation(self, signature, what, replay):
        self.violations.append({"signature": signature, "what": what, "replay": replay})

    def assume(self, *a):
        for x in a:
            if x not in self.assumptions:
                self.assumptions.append(x)

    def finish(self):
        known = json.loads((VERIF / "known_findings.json").read_text()) if (VERIF / "known_findings.json").exists() else {}
        known_sigs = {(k["property"], k["signature"]): k for k in known.get("known", [])}
        REPLAYS.mkdir(exist_ok=True)
        EVIDENCE.mkdir(exist_ok=True)
        new, seen_known = [], {}
        for v in self.violations:
            k = known_sigs.get((self.pid, v["signature"]))
            if k:
                seen_known.setdefault(v["signature"], k)
            else:
                new.append(v)
        for sig, k in seen_known.items():
            print(f"KNOWN-FINDING: property={self.pid} {k.get('what', sig)}")
        rc = 0
        reported = set()
        for i, v in enumerate(new):
            if v["signature"] in reported:
                continue
            reported.add(v["signature"])
            path = REPLAYS / f"{self.pid}-{self.tier}-{len(reported)}.json"
            path.write_text(json.dumps({"property": self.pid, "tier": self.tier, "seed": self.seed,
                                        "signature": v["signature"], "what": v["what"], "case": v["replay"]}, indent=1, default=str))
            print(f"VIOLATION property={self.pid} replay={path}")
            log(f"  {v['signature']}: {v['what']}")
            rc = 1
        cov = self.coverage
        cov["known_findings_seen"] = sorted(seen_known)
        if self.drift:
            cov["spec_drift"] = self.drift[:20]
        ev = {"property_id": self.pid, "tier": self.tier, "seed": self.seed, "level": self.level,
              "coverage": cov, "assumptions": self.assumptions, "wall_s": round(time.time() - self.t0, 2),
              "violations": len(reported)}
        (EVIDENCE / f"{self.pid}.json").write_text(json.dumps(ev, indent=1, default=str))
        log(f"[{self.pid} {self.tier}] states={cov['states']} transitions={cov['transitions']} "
            f"traces={cov['traces_validated_against_impl']} evals={cov['evaluations']} "
            f"violations={len(reported)} known={len(seen_known)} wall={ev['wall_s']}s")
        return rc


def read_ndjson(path):
    with open(path) as f:
        return [json.loads(x) for x in f if x.strip()]


def run_of_line(events, line):
    """Events of the run (delimited by 'reset' events) that contains 1-based line `line`."""
    if line is None or line < 1:
        return None, []
    line = min(line, len(events))
    start = line - 1
    while start > 0 and events[start].get("ev") != "reset":
        start -= 1
    end = line
    while end < len(events) and events[end].get("ev") != "reset":
        end += 1
    return start, events[start:end]
