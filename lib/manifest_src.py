#!/usr/bin/env python3
"""Source of truth for MANIFEST.json: run `python3 lib/manifest_src.py` to regenerate it."""
import json
from pathlib import Path

ROOT = Path(__file__).resolve().parent.parent

CLAIMED = {
    "C11": dict(
        category="model_checking", design_ref="DESIGN.md §5 C11",
        technique="TLA+ spec TransferControl checked by TLC and shown by TLC to refine the integer fragment CreditInd, whose invariant (acked <= sent, in flight <= max(window, last chunk)) Apalache proves inductively for all integers; TLC state graph replayed on the real object (every edge, every path to depth 4/5); recorded 64-bit histories trace-validated by TLC",
        text="TLC exhausts the credit/ack/cancel/advance/resume state machine over a small domain (adversary and loop-following producer configurations, invariants AckedLeSent, ProducerBound and the step properties GrantSound, AckNoRelease, CancelSticky, CancelReported). The resulting labelled state graph is replayed on the real TransferControl (every edge once from a shortest path, every label path up to depth 4 quick / 5 thorough) and random 200-call histories over 64-bit values are validated by TLC against the same specification instantiated with 64-bit arithmetic.",
        note="Trusts TLC, the U64 arithmetic module, and the harness projection (offsets, cancel_reason, peer, replay_chunks_from). The two waits are evaluated with an expired deadline. record_sent arguments stay below 2^60 and chunk lengths below 2^48, as the property bounds them."),
    "C13": dict(
        category="model_checking", design_ref="DESIGN.md §5 C13",
        technique="TLA+ spec TransferControl (replay ring part) checked by TLC; TLC state graph replayed on the real object; recorded histories with content-tagged bodies trace-validated by TLC",
        text="TLC exhausts push/evict/resume/advance/cancel sequences over small chunk sizes, overheads and capacities (invariants Contiguous, Bounded, step properties ResumeGapless, ResumeOnlyCurrent, KeepsNewest, AdvanceClears). The labelled graph is replayed on the real object and the replay offered after every accepted resume is compared chunk by chunk (offset, lengths, last flag, body content tag); random histories with capacities from 0 to u64::MAX and wire lengths different from logical lengths are validated by TLC.",
        note="Trusts TLC and the harness; body identity is checked through the first 8 bytes of each body (a per-push serial number) and the body length. The producer contract (pushed offsets abut) is respected by the generators."),
    "C12": dict(
        category="model_checking", design_ref="DESIGN.md §5 C12",
        technique="TLA+ lock-step mutex/condvar model TransferSync checked by TLC (safety + liveness, must-violate configs per notifier); real-thread schedules recorded by hooks under the mutex and trace-validated by TLC",
        text="TLC exhausts all interleavings of one waiter (credit or reconnect) with up to three signalling threads over every order of ack, cancel, advance, resume and send in a lock-step model of the mutex/condvar protocol (NoLostWakeup, TimeoutOnlyAtDeadline, liveness WokenWhenReady / ExpiredReturns under weak fairness; removing any one notifier violates NoLostWakeup). The implementation is bound by validating recorded real-thread schedules (500 quick, 10^4 thorough; hook events emitted under the mutex) against the same waiter actions, with an end-of-schedule check that a waiter whose condition holds has returned, and deadline runs that must time out at, not before, the deadline.",
        note="Trusts TLC, the hook placement (events under the mutex, add-only) and the OS scheduler's variety for the real-thread runs; a waiter not back 10 s after all signallers finished while its condition holds is taken as a lost wake-up."),
    "C18": dict(
        category="model_checking", design_ref="DESIGN.md §5 C18",
        technique="TLA+ spec PeerRegistry checked exhaustively by TLC (complete graph, 3 peers x 3 keys); every edge and all paths to depth 6/7 replayed on the real registry; sequential and concurrent histories checked for linearizability by TLC trace validation with silent linearization steps",
        text="TLC computes the complete reachable graph of the registry model for 3 peers and 3 keys (302 states, every state within 7 steps) with IndexConsistent, LookupSound and the step properties RemoveOnlyOwn / AliasMoves. Every edge is replayed on the real PeerRegistry from a shortest path and every mutator/broadcast path up to depth 6 (quick) or 7 (thorough) is walked, comparing get, get_by, key_for, aliases_for, len, peers in every state and counting broadcast deliveries with capturing sinks. Long sequential and 2-4 thread concurrent histories are accepted only if TLC finds a linearization against the same sequential model.",
        note="Trusts TLC and the harness' capturing sinks. The implementation has no state beyond the three maps, so graph closure at depth 7 covers the property's length-10 sequences. Concurrent interleavings are those the OS scheduler produced."),
    "C14": dict(
        category="model_checking", design_ref="DESIGN.md §5 C14",
        technique="TLA+ spec Registry (flat JSON node set + callables) and Pointer (RFC 6901) checked by TLC in a small scope; TLC graph replayed on the real Registry directly and through a Router mount; random sequential and concurrent histories checked for linearizability by TLC trace validation",
        text="TLC exhausts registrations, merges, reads, writes and calls over 6 pointers and 3 values (TreeShaped, ReadYourWrite, Frame, RootMerge, ReadPure, CallExactlyOnce as step properties). The graph of a reduced scope is replayed on a real Registry (every edge, all paths to depth 4/5), both directly and through Router::with_registry under a prefix, comparing each result and a read of every probe pointer. Random 100-operation histories and up-to-4-thread concurrent histories over pointers with escapes, empty tokens, array indices and deep nesting are accepted only if TLC finds a linearization in the same model, and every logged pointer is re-tokenised by the TLA+ Pointer module.",
        note="Trusts TLC, serde_json for value fidelity and the harness' flat-node conversion. '/' is modelled as the root as built; non-canonical array index tokens are not generated."),
    "C19": dict(
        category="model_checking", design_ref="DESIGN.md §5 C19",
        technique="TLA+ spec Fleet (retry loop, cached client, scripted node) checked by TLC over every outcome script; the scripts played against the real Fleet/AsyncFleet by a scripted fake node, single-stepped through a probe, and the recorded attempts trace-validated by TLC; fleet membership, cached connections and fan-out specified in FleetMembers.tla (two must-violate configs), its edge cover and random behaviours replayed call by call on Fleet and AsyncFleet",
        text="TLC checks the retry-loop model for max_attempts 1..3 over every script of length <= max+2 of the seven outcomes (AttemptBound, RetryOnlyTransport, StopAtFirstReply, NotWedged), with must-violate configurations for the retryable-error set. The same scripts are then played by a scripted TCP node against the real blocking and async fleets (all scripts for max 1-2, sampled for max 3 in the quick tier, all in the thorough tier), the retry loop single-stepped through a hook probe; each attempt (what the node did, what the loop saw), the call result and the two healthy-phase calls are validated by the trace specification. Broadcasts over every tag subset on 4 nodes are validated the same way.",
        note="Trusts TLC, the fake node, and the two add-only hook lines per retry loop (probe + attempt event). Time enters only through the node timeout of silent outcomes."),
    "C01": dict(
        category="model_checking", design_ref="DESIGN.md §5 C01",
        technique="TLA+ spec RepeWire (header layout over byte tuples, U64 arithmetic) evaluated by TLC over pairwise boundary patterns; the specification's frames compared byte for byte with every emission route and parsed back; random frames trace-validated by TLC",
        text="The specification lays out the 48 header bytes from byte-tuple fields; TLC enumerates boundary patterns (all-00, all-FF, 80.., ..01, 7F.., ramp) of the seven free fields pairwise with payload lengths 0..2 and checks decode.encode = id and the length equation on the spec (ASSUME LayoutProps). Each vector's frame is compared byte for byte with to_vec, write_to, into_wire_bytes (capacity below / one below / equal / above), write_message, write_message_streaming and write_message_async, and parsed back with all nine parsers and readers. Random full-range frames with payloads to 64 KiB are validated by TLC against HeaderBytes, the 64-bit length equation, route equality and round trip.",
        note="Encode/decode fidelity is a weaker fit for TLA+ than protocol properties: TLA+ decides field order, widths, byte order, the length equation and region offsets; large payload equality is a memcmp in the recorder. Server/client emission routes are covered by C03/C04 engines."),
    "C02": dict(
        category="model_checking", design_ref="DESIGN.md §5 C02",
        technique="TLA+ verdict functions (RepeWire.SliceVerdict / HeaderVerdict / StreamVerdict, exact 64-bit arithmetic) enumerated by TLC over the boundary-class product; every vector executed on nine entry points in a child process; random and mutated buffers trace-validated by TLC; the clients' response readers (stray frames, responses cut at every byte) and the TCP servers (headers declaring unallocatable frames, in a child process) as entry points on the wire",
        text="TLC enumerates ~35 000 header vectors (each length field over 0, small, =buffer, +-1, 2^31, 2^32, 2^62, 2^63, u64::MAX-k, with totals equal to the exact sum, the sum +-1 and the wrapped sum; buffer lengths around 48; good/bad magic) with the specification's verdict per entry family. Every vector runs on Header::decode, Message/MessageView::from_slice(_exact), read_message(_into)(_async) in a child process so panics and aborts are attributed to their input; ok/err and the returned query/body regions must match. 4 000 (quick) / 40 000 (thorough) random and structurally mutated buffers are judged by TLC recomputing the verdict.",
        note="Silent out-of-bounds reads are not detectable here (they would panic in safe Rust). Stream readers get declared sizes <= 16 MiB or >= 2^62 only, as the property prescribes. Error kinds are not compared."),
    "C08": dict(
        category="model_checking", design_ref="DESIGN.md §5 C08",
        technique="TLA+ layout oracle BeveArray (typed / complex / aligned arrays, padding and borrow rule) evaluated exhaustively by TLC; vectors replayed on encoders, decoders, streaming writers and the borrowing route; random arrays trace-validated by TLC",
        text="TLC evaluates the array layouts, closed-form lengths and the padding / borrow rule for every query length 0..64, alignment, size class and buffer misalignment 0..7, anchored on bytes of the real encoders. Every vector is replayed: bulk and (n >= 1) generic encoders and the streaming writers must produce the specification's bytes, every decoder must read every encoder's output bit for bit including the empty array, wrong element types and formats must be rejected, and an aligned request placed at each misalignment in an 8-aligned buffer must be borrowed by a with_typed_slice_ref route exactly when the model says so. Random arrays up to 2^20 elements go through builders, writers and the bulk routes with bulk, aligned and generic bodies and are judged by TLC.",
        note="The layout/padding part is model-checked exhaustively; large payload bit equality is a recorder-side comparison (exploration strength). Half floats only on the bulk paths."),
    "C07": dict(
        category="model_checking", design_ref="DESIGN.md §5 C07",
        technique="TLA+ specs Pointer (RFC 6901 tokens) and Router (lookup precedence, '/' boundary, middleware chain) evaluated by TLC over all short paths and all registration orders; vectors replayed on real routers; random deep paths and the handler x format x body product trace-validated by TLC",
        text="TLC checks escape/unescape round trip on every well-formed path up to length 5 (quick) / 6 (thorough) over {/,~,0,1,a,b} and the route winner for all 120 registration orders of an exact route, a registry mount, a struct mount and two middlewares. Each token vector is replayed through a recording RepeStruct mounted at the root and under a prefix on the owned path, the view path and behind middleware, and through parse_json_pointer; each lookup vector on a router built in that order (winner, remainder tokens, middleware hit order). Random paths with 0..40 segments and the product of twelve routes x seven format codes x eleven bodies x notify are dispatched on all four paths and TLC requires identical outcomes.",
        note="Trusts TLC and the recording struct / middleware. Response comparison is on what a client would receive (empty handler query = echoed request query)."),
    "C04": dict(
        category="model_checking", design_ref="DESIGN.md §5 C04",
        technique="TLA+ spec ClientMux (callers, pending map, reader, adversarial server) checked by TLC; the three real clients driven by a scripted adversarial server over raw TCP / raw WebSocket and the recorded caller-level events trace-validated by TLC with silent reader steps; TLC-generated ClientMux behaviours (MC_ClientMuxGen) stepped through the real clients by probes at allocate / register / write / read / dispatch / take, including forwarded requests (forward_message) that reuse ids of the client's own calls; the WebSocket notify slot modelled separately (NotifySub, must-violate config) and its hook-level traces from scripted subscribe / unsubscribe / push races trace-validated by TLC",
        text="TLC exhausts all interleavings of 2-3 callers with the reader at the granularity allocate / register / write / receive / dispatch / take, against a server that answers in any order, duplicates answers, answers unknown ids and pushes notify frames reusing in-flight ids (Correlated, DistinctIds, NotifyOnlyToSubscriber). The real blocking, async and WebSocket clients are then driven by a scripted server through every permutation of 4 (quick) / 6 (thorough) concurrent calls with a rotating junk frame, 64-caller random orders and batches; what each caller received is accepted only if TLC finds a schedule of the model's reader that delivers exactly that.",
        note="Trusts TLC and the scripted server. The reader's internal steps are inferred, not logged. Probe-gated replay of TLC schedules at register/write granularity was not built (DESIGN.md section 9 fallback): interleaving exhaustiveness comes from the model, order exhaustiveness from the permutation sweep."),
    "C06": dict(
        category="model_checking", design_ref="DESIGN.md §5 C06",
        technique="TLA+ spec ClientMux with fault, timeout and cancel actions checked by TLC (safety + liveness, must-violate config for the shutdown order); fault / timeout / cancel scenarios injected into the three real clients by a scripted server and trace-validated by TLC; TLC-generated fault behaviours (MC_ClientMuxGen_fault: close, junk, malformed, reset, failing write, the two halves of fail_all_pending) stepped through the real clients by probes",
        text="TLC checks NoResidue, WaiterHasFuture and (with fairness) that every waiting call finishes once the connection fails, for faults placed at every step; reversing the shut-writer / drain order of fail_all_pending violates WaiterHasFuture. The real clients face close, reset, malformed frame, inconsistent length, u64::MAX length and truncated response with 0, 1, 3 and 8 (16) calls in flight and every split of requests read / responses sent before the fault; per-call timeouts with late and racing responses; cancellation of async/WebSocket calls. Every call runs under a watchdog; TLC accepts a run only if each result is explainable, the pending map is empty at the end (hook accessor), a later call fails (after a fault) or succeeds (after timeouts/cancels), and a WebSocket subscriber saw end-of-stream.",
        note="Trusts TLC, the scripted server and the add-only verif_pending_len() accessor. A call still running 10 s after the scenario is taken as hung."),
    "C03": dict(
        category="model_checking", design_ref="DESIGN.md §5 C03",
        technique="TLA+ spec ServerConn (reader, inline and off-reader dispatch, outbound FIFO) checked by TLC incl. liveness; pipelined raw-byte request sequences against the four real dispatch paths trace-validated by TLC (response count, codes, echo, invocation, FIFO, cross-transport equality)",
        text="TLC checks the connection model for request mixes under caps 1-3 and unlimited: exactly one response per request and none per notify, handler invoked once iff dispatched, inline FIFO, and that every request is eventually answered. Pipelined sequences of 64 raw requests covering all ordered pairs of 26 request classes x notify flag (valid/invalid version, query formats, non-UTF-8 query, unknown path, every handler kind, body formats with good and bad bodies) are sent to the blocking TCP server, the async TCP server and the WebSocket server (inline and off-reader routes); the trace specification judges response counts, error codes, query echo, handler invocations, inline ordering and equality of the response fields across the four paths.",
        note="Trusts TLC, the raw clients and the request-class table. Error-response bodies are free text and not compared."),
    "C16": dict(
        category="model_checking", design_ref="DESIGN.md §5 C16",
        technique="TLA+ spec ServerConn (off-reader permits: try-acquire, handler exit, enqueue, release as separate steps) checked by TLC incl. liveness NoLeak; release-order schedules executed on the real WebSocket server with gate-parked handlers through a raw client and trace-validated by TLC",
        text="TLC checks the permit protocol for caps 1-3 and unlimited over mixes of returning, erroring and panicking handlers, notifies and inline traffic: the cap is respected, a saturation reply only answers off-reader requests, a panic is contained and reported as InternalError, every permit eventually returns and every request is answered. On the implementation, every release order for caps 1..3 (4) with rotating exit kinds, and random orders for caps 4, 8, 16 and unlimited, run against handlers parked on harness gates behind a forwarding middleware: a gauge of running handlers, the saturation reply and an inline round trip while the others are parked, the response code of each exit kind with the request's id, a dropped saturated notify, and a slot probe after every exit are validated by the trace specification.",
        note="Trusts TLC and the raw WebSocket peer. Immediate = arrives while the others are parked; a slot counts as leaked after 10 s of refused retries."),
    "C17": dict(
        category="model_checking", design_ref="DESIGN.md §5 C17",
        technique="TLA+ outbound guard (ServerConn!Guard, invariant NoOversize) checked by TLC; the (path, limit, size) product executed against the real server, proxy and client with a raw peer measuring every binary message, judged by TLC (Trace_Guard); the proxy loop as a whole specified in ProxyConn.tla (must-violate: guard off) and every complete TLC behaviour replayed on proxy_connection_with_limits between a raw peer and a scripted upstream",
        text="TLC checks that with a limit configured no oversize message reaches the wire and the one-response discipline survives the replacement. For limits 1 KiB and 64 KiB (plus 4 KiB and 16 MiB in the thorough tier) and none, and frame sizes limit-2..limit+2, limit/2 and 4/3 limit, each of seven outbound paths (inline response, off-reader response, proxy-forwarded response, handler-pushed notify, registry broadcast, client request, client notify) is exercised; a raw peer records the byte length of every binary message, error hooks and call results are recorded, and the trace specification requires unchanged delivery at or below the limit, an InternalError replacement with the same id / a reported drop / a local MessageTooLarge above it, and a usable connection afterwards.",
        note="Trusts TLC and the raw peer's length measurement."),
    "C15": dict(
        category="model_checking", design_ref="DESIGN.md §5 C15",
        technique="TLA+ spec ConnLifecycle (guard, connect hooks that may panic, exit causes, guard Drop) checked by TLC with a must-violate config for the guard order; exit cause x phase x entry point scenarios produced against the real WebSocket server by a raw peer and judged by TLC (Trace_Lifecycle)",
        text="TLC checks that the disconnect hooks run exactly once iff the handshake succeeded, that the registry entry is scoped to the connection, that connect-callback notifications precede responses and that a parked handler eventually observes cancellation; arming the guard after the connect hooks violates DisconnectOnce. Against the real server, nine exit causes are crossed with five phases and up to six serving entry points (accept loop, shutdown loop, graceful-drain loop, serve_connection, serve_connection_with_cancel, adopt_upgraded over a duplex), with 1..8 (32) concurrent connections; connect/disconnect callback counts, registry and alias presence during and after, the order of frames on the wire and a parked handler's view of cancellation are validated per scenario.",
        note="Black box: public callbacks, registry and raw frames only. Timing within a phase is whatever the scheduler produced."),
    "C05": dict(
        category="model_checking", design_ref="DESIGN.md §5 C05",
        technique="TLA+ spec WireStream (concurrent writers, partial writes, interruption policy) checked by TLC with a must-violate config; bytes written by the six real endpoints recorded by a raw peer, decomposed by an independent content-addressed parser and judged by TLC (Trace_WireStream)",
        text="TLC proves WholeFrames for the fail-the-connection policy and produces the torn stream for the keep-writing policy. On the implementation a raw peer records the byte stream (or WebSocket messages) of the blocking, async and WebSocket clients under 8 (32) concurrent callers with payloads straddling 8 KiB / 64 KiB / 1 MiB boundaries, of the blocking, async and WebSocket servers under pipelined and concurrent responses, and under interrupted writes (write timeout against a stalled reader on the blocking client and both TCP servers; a call abandoned mid-send on the async and WebSocket clients) with 16 (32) MiB frames; an independent parser keyed on body content classifies the bytes into whole frames, a trailing prefix and foreign bytes, and the trace specification accepts only whole frames optionally followed by one final prefix.",
        note="Trusts TLC and the recorder's content-addressed parser. Stall durations and payload sizes are chosen so that loopback buffering cannot absorb the frame."),
    "C09": dict(
        category="model_checking", design_ref="DESIGN.md §5 C09",
        technique="TLA+ spec ValueStream (producer, re-chunking sink, bounded channel incl. rendezvous, lookahead, next handler, cancel) checked by TLC over the parameter grid and every interleaving incl. liveness; scripted producers pulled through raw /_svs exchanges and all pullers on real servers and judged by TLC (Trace_ValueStream); TLC-generated open / next / cancel vectors (MC_ValueStreamGen) replayed on a real server",
        text="TLC draws payload length, chunk size, channel depth and failure point in Init and checks, over every producer/consumer interleaving, that the delivered bytes are a gapless prefix, that at most one reply carries the end marker and only after everything was delivered, that nothing follows the end or a release, that a failure never yields an end marker, that an empty payload is a single empty final chunk, that the reply sequence is the same function of the parameters in every interleaving, and that the exchange terminates. On the implementation, every producer kind is pulled at every boundary residue of the payload length for chunk sizes 1 B..64 KiB (1 MiB), depths 0..4 (8) and both compressions, with failures at chunk boundaries +-1, slow-consumer and slow-producer regimes and mid-stream release, by raw exchanges and by the blocking, async and WebSocket pullers; each pull is judged by the trace specification.",
        note="Trusts TLC, zstd for decompression of the concatenation, and the scripted producers. Chunk-size predictions are as-built layer (drift only)."),
    "C10": dict(
        category="fault_enumeration", design_ref="DESIGN.md §5 C10",
        technique="TLA+ spec PullCommit checked by TLC; in-process fault scenarios and strace-injected process kills at every write/fsync/rename/close of the temp and destination paths on the real pullers, filesystem outcomes judged by TLC (Trace_PullCommit, PullCommit!Allowed); the same calls made to FAIL by strace error injection (ENOSPC / EIO / EXDEV), system-call traces stepped through PullCommit by Trace_PullSys",
        text="TLC checks the commit protocol (destination never partial; published only after end marker, sync and verification; an in-process failure leaves the destination as it was and no temp file; a kill leaves the destination as it was unless the rename happened). On the implementation the fault space is enumerated: producer failure after every chunk boundary +-1 byte, the connection cut after the k-th response for every k, rejecting verifier, trailer longer than the stream, blocking and async pullers, both compressions, destination absent or pre-existing; and a child process performing the pull is killed by strace fault injection at each write, fsync, rename and close touching the temp or destination path. The resulting filesystem and call result are validated by the trace specification; value-decoding pulls over a cut connection must error.",
        note="fault_enumeration: the fault placements are enumerated, not every interleaving of the OS. Assumes POSIX rename atomicity; power-loss durability is not exercised. Needs ptrace (strace) in the sandbox."),
}

NOT_YET = {}

ALL = [f"C{i:02d}" for i in range(1, 20)]


def main():
    checks = []
    for pid in ALL:
        if pid not in CLAIMED:
            continue
        c = CLAIMED[pid]
        checks.append({
            "property_id": pid,
            "quick_cmd": f"bin/check {pid} quick",
            "thorough_cmd": f"bin/check {pid} thorough",
            "evidence_file": f"/verif/evidence/{pid}.json",
            "replay_cmd_template": f"bin/check {pid} --replay {{path}}",
            "engine": c.get("engine", "tla-conformance"),
            "level_claimed": {"category": c["category"], "text": c["text"], "design_ref": c["design_ref"]},
            "level_note": c["note"],
            "technique": c["technique"],
        })
    na = [{"property_id": p, "reason": NOT_YET.get(p, "check not built yet in this round; planned in DESIGN.md §5 (same TLA+ family)")}
          for p in ALL if p not in CLAIMED]
    man = {
        "version": 1,
        "setup_cmd": "bin/check --setup",
        "hooks": {
            "guard": "cargo feature verif-hooks",
            "enable": "the harness crate (/verif/harness) depends on /repo with features websocket,value-stream,verif-hooks",
            "baseline_off_cmd": "cd /repo && cargo test --workspace --no-fail-fast --offline",
            "source_commits": HOOK_COMMITS,
            "add_only": True,
        },
        "engines": [
            {"name": "tla-conformance", "path": "bin/check", "serves_properties": sorted(CLAIMED),
             "kind_free_text": "python driver: TLC exhaustive runs on spec/MC_*.tla, TLC-generated graphs/vectors replayed by the Rust harness (harness/, binary vh) on the real crate, harness-recorded ND-JSON traces validated by TLC against spec/Trace_*.tla"},
        ],
        "checks": checks,
        "not_applicable": na,
        "notes": "Every check rebuilds the harness against /repo's working tree first. Exit 0 held / 1 VIOLATION / 2 tool error. known_findings.json lists recorded genuine defects.",
    }
    (ROOT / "MANIFEST.json").write_text(json.dumps(man, indent=1) + "\n")


HOOK_COMMITS = ["6646e89", "998c52d", "e3e337b", "e237f47", "2715dc2", "1fe3a72", "aac442f", "bed3429", "146e1f6", "e990f4f", "478b380"]

if __name__ == "__main__":
    main()
