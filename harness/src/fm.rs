//! C19, spec -> impl: behaviours of spec/FleetMembers.tla (sampled by TLC, MC_FleetMembersGen) are performed call by
//! call on a real Fleet / AsyncFleet in front of three scripted nodes.  After every step the call's return value, the
//! set of nodes that saw a request, and the observers (keys, is_connected, connected_nodes, filter_nodes) must equal
//! the specification's.
use crate::fleet::FakeNode;
use crate::util::{self, Args};
use repe::{AsyncFleet, Fleet, FleetOptions, NodeConfig, RetryPolicy};
use serde_json::{json, Value};
use std::collections::{BTreeMap, BTreeSet};
use std::sync::atomic::Ordering;
use std::sync::Arc;
use std::time::Duration;

type Set = BTreeSet<String>;

fn set_of(v: &Value) -> Set {
    v.as_array().map(|a| a.iter().map(|x| x.as_str().unwrap_or("").to_string()).collect()).unwrap_or_default()
}
fn names<I: IntoIterator<Item = String>>(i: I) -> Set {
    i.into_iter().collect()
}

enum F {
    B(Fleet),
    A(AsyncFleet, Arc<tokio::runtime::Runtime>),
}

/// what one fan-out returned: node -> succeeded
type FanOut = BTreeMap<String, bool>;

impl F {
    fn add(&self, c: NodeConfig) -> bool {
        match self { F::B(f) => f.add_node(c).is_ok(), F::A(f, rt) => rt.block_on(f.add_node(c)).is_ok() }
    }
    fn remove(&self, n: &str) -> bool {
        match self { F::B(f) => f.remove_node(n), F::A(f, rt) => rt.block_on(f.remove_node(n)) }
    }
    fn connect_all(&self) -> (Set, Set) {
        let s = match self { F::B(f) => f.connect_all(), F::A(f, rt) => rt.block_on(f.connect_all()) };
        (names(s.connected), names(s.failed))
    }
    fn disconnect_all(&self) -> (Set, Set) {
        let s = match self { F::B(f) => f.disconnect_all(), F::A(f, rt) => rt.block_on(f.disconnect_all()) };
        (names(s.disconnected), names(s.failed))
    }
    fn reconnect(&self) -> (Set, Set) {
        let s = match self { F::B(f) => f.reconnect_disconnected(), F::A(f, rt) => rt.block_on(f.reconnect_disconnected()) };
        (names(s.reconnected), names(s.failed))
    }
    /// None: node not found
    fn call(&self, n: &str, as_message: bool) -> Option<bool> {
        match (self, as_message) {
            (F::B(f), false) => f.call_json(n, "/m", Some(&json!({"x": 1}))).ok().map(|r| r.succeeded()),
            (F::B(f), true) => f.call_message(n, "/m").ok().map(|r| r.succeeded()),
            (F::A(f, rt), false) => rt.block_on(f.call_json(n, "/m", Some(&json!({"x": 1})))).ok().map(|r| r.succeeded()),
            (F::A(f, rt), true) => rt.block_on(f.call_message(n, "/m")).ok().map(|r| r.succeeded()),
        }
    }
    fn broadcast(&self, tags: &[String]) -> (FanOut, usize) {
        let m = match self {
            F::B(f) => f.broadcast_json("/m", Some(&json!({"b": 1})), tags),
            F::A(f, rt) => rt.block_on(f.broadcast_json("/m", Some(&json!({"b": 1})), tags)),
        };
        let len = m.len();
        // the key must be the node the result is about
        (m.into_iter().map(|(k, v)| (if v.node == k { k } else { format!("{k}!={}", v.node) }, v.succeeded())).collect(), len)
    }
    fn map_reduce(&self, tags: &[String]) -> (FanOut, usize) {
        let red = |v: Vec<repe::RemoteResult<Value>>| -> Vec<(String, bool)> { v.into_iter().map(|r| (r.node.clone(), r.succeeded())).collect() };
        let v = match self {
            F::B(f) => f.map_reduce_json("/m", Some(&json!({"b": 2})), tags, red),
            F::A(f, rt) => rt.block_on(f.map_reduce_json("/m", Some(&json!({"b": 2})), tags, red)),
        };
        let len = v.len();
        (v.into_iter().collect(), len)
    }
    fn health(&self) -> (FanOut, usize) {
        let m = match self { F::B(f) => f.health_check("/health"), F::A(f, rt) => rt.block_on(f.health_check("/health")) };
        let len = m.len();
        (m.into_iter().map(|(k, v)| (k, v.healthy && v.error.is_none())).collect(), len)
    }
    fn keys(&self) -> Set {
        names(match self { F::B(f) => f.keys(), F::A(f, rt) => rt.block_on(f.keys()) })
    }
    fn len(&self) -> usize {
        match self { F::B(f) => f.len(), F::A(f, rt) => rt.block_on(f.len()) }
    }
    fn connected(&self) -> Set {
        names(match self { F::B(f) => f.connected_nodes(), F::A(f, rt) => rt.block_on(f.connected_nodes()) }.into_iter().map(|n| n.name))
    }
    fn is_connected(&self, n: &str) -> Option<bool> {
        match self { F::B(f) => f.is_connected(n).ok(), F::A(f, rt) => rt.block_on(f.is_connected(n)).ok() }
    }
    fn is_connected_all(&self) -> bool {
        match self { F::B(f) => f.is_connected_all(), F::A(f, rt) => rt.block_on(f.is_connected_all()) }
    }
    fn filter(&self, tags: &[String]) -> Set {
        names(match self { F::B(f) => f.filter_nodes(tags), F::A(f, rt) => rt.block_on(f.filter_nodes(tags)) }.into_iter().map(|n| n.name))
    }
    fn node_tags(&self, n: &str) -> Option<Set> {
        match self { F::B(f) => f.node(n).ok(), F::A(f, rt) => rt.block_on(f.node(n)).ok() }.map(|x| x.tags.into_iter().collect())
    }
}

const NAMES: [&str; 3] = ["n1", "n2", "n3"];

fn replay_one(kind: &str, b: &Value, rt: &Arc<tokio::runtime::Runtime>, bi: u64) -> Result<u64, String> {
    let max_attempts = b["max_attempts"].as_u64().unwrap_or(2) as usize;
    let nodes: Vec<Arc<FakeNode>> = (0..3).map(|_| FakeNode::start()).collect();
    let opts = FleetOptions { default_timeout: Duration::from_millis(800), retry_policy: RetryPolicy { max_attempts, delay: Duration::from_millis(2) } };
    let f = if kind == "blocking" { F::B(Fleet::with_options(vec![], opts).map_err(|e| format!("{e:?}"))?) } else { F::A(AsyncFleet::with_options(vec![], opts).map_err(|e| format!("{e:?}"))?, rt.clone()) };
    let idx = |n: &str| NAMES.iter().position(|x| *x == n).unwrap();
    let tag_sets: Vec<Vec<String>> = vec![vec![], vec!["a".into()], vec!["b".into()], vec!["a".into(), "b".into()], vec!["b".into(), "a".into()], vec!["a".into(), "a".into()]];
    let mut steps = 0u64;
    let res = (|| -> Result<(), String> {
        for (si, s) in b["steps"].as_array().unwrap().iter().enumerate() {
            let op = s["ret"]["op"].as_str().unwrap_or("?");
            let n = s["n"].as_str().unwrap_or("");
            let mut ts: Vec<String> = set_of(&s["ts"]).into_iter().collect();
            // the caller's tag list is a list: vary its order and repeat a tag, the specification's argument is the set
            if (bi + si as u64) % 3 == 1 { ts.reverse(); }
            if (bi + si as u64) % 3 == 2 && !ts.is_empty() { let t = ts[0].clone(); ts.push(t); }
            let before: Vec<u64> = nodes.iter().map(|x| x.served.load(Ordering::SeqCst)).collect();
            let fail = |what: String| -> Result<(), String> { Err(format!("step {si} {op}({n}{}{:?}): {what}", if n.is_empty() { "" } else { "," }, ts)) };
            let exp_set = |k: &str| set_of(&s["ret"][k]);
            let check_fan = |got: (FanOut, usize), results_key: &str, ok_key: &str| -> Result<(), String> {
                let (m, len) = got;
                let keys: Set = m.keys().cloned().collect();
                if len != m.len() { return fail(format!("{len} results for {} distinct nodes", m.len())); }
                if keys != exp_set(results_key) { return fail(format!("results for {keys:?}, specification: exactly {:?}", exp_set(results_key))); }
                let ok: Set = m.iter().filter(|(_, v)| **v).map(|(k, _)| k.clone()).collect();
                if ok != exp_set(ok_key) { return fail(format!("succeeded on {ok:?}, specification: {:?}", exp_set(ok_key))); }
                Ok(())
            };
            match op {
                "add_node" => {
                    let c = NodeConfig::new("127.0.0.1", nodes[idx(n)].port).unwrap().with_name(n).unwrap().with_tags(ts.clone()).with_timeout(Duration::from_millis(800)).unwrap();
                    let got = f.add(c);
                    if got != s["ret"]["ok"].as_bool().unwrap() { return fail(format!("add_node returned ok={got}")); }
                }
                "remove_node" => {
                    let got = f.remove(n);
                    if got != s["ret"]["ok"].as_bool().unwrap() { return fail(format!("remove_node returned {got}")); }
                }
                "connect_all" => {
                    let (c, fl) = f.connect_all();
                    if c != exp_set("connected") || fl != exp_set("failed") { return fail(format!("connected {c:?} failed {fl:?}, specification: {:?} / {:?}", exp_set("connected"), exp_set("failed"))); }
                }
                "disconnect_all" => {
                    let (d, fl) = f.disconnect_all();
                    if d != exp_set("disconnected") || !fl.is_empty() { return fail(format!("disconnected {d:?} failed {fl:?}, specification: {:?}", exp_set("disconnected"))); }
                }
                "reconnect_disconnected" => {
                    let (r, fl) = f.reconnect();
                    if r != exp_set("reconnected") || fl != exp_set("failed") { return fail(format!("reconnected {r:?} failed {fl:?}, specification: {:?} / {:?}", exp_set("reconnected"), exp_set("failed"))); }
                }
                "call" => {
                    let got = f.call(n, (bi + si as u64) % 2 == 1);
                    let (found, ok) = (s["ret"]["found"].as_bool().unwrap(), s["ret"]["ok"].as_bool().unwrap());
                    if got.is_some() != found || got.unwrap_or(false) != ok { return fail(format!("call returned {got:?} (None = node not found), specification: found={found} ok={ok}")); }
                }
                "broadcast_json" => check_fan(f.broadcast(&ts), "results", "ok")?,
                "map_reduce_json" => check_fan(f.map_reduce(&ts), "results", "ok")?,
                "health_check" => check_fan(f.health(), "results", "healthy")?,
                "node_down" => nodes[idx(n)].arm("refused"),
                "node_up" => nodes[idx(n)].arm("success"),
                other => return fail(format!("unknown operation {other}")),
            }
            steps += 1;
            // who saw a request: exactly the specification's set, one request each
            let seen: Vec<u64> = nodes.iter().enumerate().map(|(i, x)| x.served.load(Ordering::SeqCst) - before[i]).collect();
            let exp_seen = set_of(&s["seen"]);
            for (i, nm) in NAMES.iter().enumerate() {
                let want = if exp_seen.contains(*nm) { 1 } else { 0 };
                if seen[i] != want { return fail(format!("node {nm} saw {} request(s) during the step, specification: {want}", seen[i])); }
            }
            // observers
            let members = set_of(&s["members"]);
            let conn = set_of(&s["conn"]);
            let k = f.keys();
            if k != members || f.len() != members.len() { return fail(format!("keys() = {k:?} len {} afterwards, specification: {members:?}", f.len())); }
            let c = f.connected();
            if c != conn { return fail(format!("connected_nodes() = {c:?} afterwards, specification: {conn:?}")); }
            if f.is_connected_all() != members.is_subset(&conn) { return fail(format!("is_connected_all() = {}, specification: members {members:?} connected {conn:?}", f.is_connected_all())); }
            for nm in NAMES {
                let got = f.is_connected(nm);
                let want = if members.contains(nm) { Some(conn.contains(nm)) } else { None };
                if got != want { return fail(format!("is_connected({nm}) = {got:?} afterwards, specification: {want:?}")); }
                if members.contains(nm) {
                    let t = f.node_tags(nm);
                    if t != Some(set_of(&s["tags"][nm])) { return fail(format!("node({nm}).tags = {t:?}, specification: {:?}", set_of(&s["tags"][nm]))); }
                }
            }
            for q in &tag_sets {
                let qs: Set = q.iter().cloned().collect();
                let want: Set = members.iter().filter(|m| qs.is_subset(&set_of(&s["tags"][m.as_str()]))).cloned().collect();
                let got = f.filter(q);
                if got != want { return fail(format!("filter_nodes({q:?}) = {got:?} afterwards, specification: {want:?}")); }
            }
        }
        Ok(())
    })();
    for x in &nodes { x.shutdown(); }
    res.map(|_| steps)
}

pub fn replay(a: &Args) -> i32 {
    let kind = a.str("kind", "blocking");
    let rt = Arc::new(tokio::runtime::Builder::new_multi_thread().worker_threads(4).enable_all().build().unwrap());
    let max = a.u64("max", 1_000_000);
    let (mut n, mut steps) = (0u64, 0u64);
    let mut failures: Vec<Value> = vec![];
    let mut seen = std::collections::HashSet::new();
    let mut ops: BTreeMap<String, u64> = BTreeMap::new();
    util::tlc_tagged_json_each(&a.req("behaviours"), "BEH", |b| {
        if n >= max || failures.len() >= 3 { return; }
        if !seen.insert(b["steps"].to_string()) { return; }
        n += 1;
        for s in b["steps"].as_array().unwrap() { *ops.entry(s["ret"]["op"].as_str().unwrap_or("?").to_string()).or_default() += 1; }
        match replay_one(&kind, &b, &rt, n) {
            Ok(k) => steps += k,
            Err(e) => failures.push(json!({"fleet": kind, "what": e, "behaviour": b})),
        }
    });
    util::write_json(&a.req("out"), &json!({"fleet": kind, "behaviours": n, "steps": steps, "operations": ops, "failures": failures}));
    0
}
