//! spec -> impl for spec/ProxyConn.tla: every complete behaviour TLC prints for MC_ProxyConn (the peer's script, the
//! upstream's reaction to each forwarded request, the frame before which the upstream died while the proxy was idle)
//! is played against the real `proxy_connection_with_limits` between a raw WebSocket peer and a scripted raw-TCP
//! upstream.  What the upstream received, the binary messages the peer received (kind and id, in order) and how the
//! proxy ended must be what the specification says.
use crate::util::{self, Args};
use tokio_tungstenite::tungstenite;
use repe::{AsyncClient, ErrorCode, Message, WebSocketLimits};
use serde_json::{json, Value};
use std::collections::HashMap;
use std::io::Write;
use std::net::{Shutdown, TcpListener, TcpStream};
use std::sync::atomic::{AtomicBool, Ordering};
use std::sync::{Arc, Mutex};
use std::time::{Duration, Instant};

const LIMIT: usize = 2048;

fn frame(id: u64, notify: bool) -> Vec<u8> {
    let mut m = Message::builder().id(id).notify(notify).query_str(&format!("/p{id}")).body_json(&json!({"id": id})).unwrap().build();
    m.header.query_format = 1;
    m.to_vec()
}

struct Upstream {
    addr: std::net::SocketAddr,
    seen: Arc<Mutex<Vec<(String, u64)>>>,
    conn: Arc<Mutex<Option<TcpStream>>>,
}

/// react: id -> "resp" | "subst" (an oversized reply) | "apperr" | "down"
fn start_upstream(react: HashMap<u64, String>) -> Upstream {
    let l = TcpListener::bind("127.0.0.1:0").unwrap();
    let addr = l.local_addr().unwrap();
    let seen = Arc::new(Mutex::new(vec![]));
    let conn: Arc<Mutex<Option<TcpStream>>> = Arc::new(Mutex::new(None));
    let (seen2, conn2) = (seen.clone(), conn.clone());
    std::thread::spawn(move || {
        let Ok((mut s, _)) = l.accept() else { return };
        s.set_nodelay(true).ok();
        s.set_read_timeout(Some(Duration::from_secs(8))).ok();
        *conn2.lock().unwrap() = s.try_clone().ok();
        while let Ok(m) = repe::read_message(&mut s) {
            let id = m.header.id;
            let is_notify = m.header.notify != 0;
            // forwarding must be faithful: the request the peer sent, unchanged
            let faithful = m.query == format!("/p{id}").into_bytes() && m.json_body::<Value>().map(|v| v["id"] == json!(id)).unwrap_or(false);
            seen2.lock().unwrap().push((if !faithful { "altered".to_string() } else if is_notify { "notify".to_string() } else { "req".to_string() }, id));
            if is_notify { continue; }
            let reply = match react.get(&id).map(|s| s.as_str()).unwrap_or("resp") {
                "down" => { let _ = s.shutdown(Shutdown::Both); return; }
                "subst" => Message::builder().id(id).query_bytes(m.query.clone()).body_bytes(vec![7u8; LIMIT + 500]).body_format_code(0).build(),
                "apperr" => { let mut e = Message::builder().id(id).query_bytes(m.query.clone()).error_code(ErrorCode::ApplicationErrorBase).body_utf8("upstream says no").build(); e.header.ec = 4096; e }
                _ => Message::builder().id(id).query_bytes(m.query.clone()).body_json(&json!({"echo": id})).unwrap().build(),
            };
            if s.write_all(&reply.to_vec()).is_err() { return; }
        }
    });
    Upstream { addr, seen, conn }
}

fn replay_one(b: &Value, rt: &tokio::runtime::Runtime) -> Result<u64, String> {
    let script: Vec<(String, u64)> = b["script"].as_array().unwrap().iter().map(|f| (f["kind"].as_str().unwrap().to_string(), f["id"].as_u64().unwrap())).collect();
    let mut react = HashMap::new();
    let mut die_before: Option<u64> = None;
    for e in b["env"].as_array().unwrap() {
        let (at, what) = (e["at"].as_u64().unwrap(), e["what"].as_str().unwrap());
        if what == "die_idle" { die_before = Some(at); } else { react.insert(at, what.to_string()); }
    }
    let up = start_upstream(react);
    // the proxy
    let pl = rt.block_on(tokio::net::TcpListener::bind("127.0.0.1:0")).map_err(|e| e.to_string())?;
    let paddr = pl.local_addr().unwrap();
    let up_addr = up.addr;
    let ended: Arc<Mutex<Option<Result<(), String>>>> = Arc::new(Mutex::new(None));
    let ended2 = ended.clone();
    let accepted = Arc::new(AtomicBool::new(false));
    let accepted2 = accepted.clone();
    let task = rt.spawn(async move {
        let Ok((s, _)) = pl.accept().await else { return };
        let cfg = tungstenite::protocol::WebSocketConfig { max_frame_size: None, max_message_size: None, ..Default::default() };
        let Ok(ws) = tokio_tungstenite::accept_async_with_config(s, Some(cfg)).await else { return };
        let Ok(client) = AsyncClient::connect(up_addr).await else { return };
        accepted2.store(true, Ordering::SeqCst);
        let wl = WebSocketLimits::unlimited().with_assumed_peer_frame_limit(Some(LIMIT));
        let r = repe::websocket_server::proxy_connection_with_limits(ws, client, wl).await;
        *ended2.lock().unwrap() = Some(r.map_err(|e| e.to_string()));
    });
    // the peer
    let s = TcpStream::connect_timeout(&paddr, Duration::from_secs(5)).map_err(|e| e.to_string())?;
    s.set_nodelay(true).ok();
    s.set_read_timeout(Some(Duration::from_secs(5))).ok();
    let cfg = tungstenite::protocol::WebSocketConfig { max_frame_size: None, max_message_size: None, ..Default::default() };
    let (mut ws, _) = tungstenite::client::client_with_config(format!("ws://{paddr}/"), s, Some(cfg)).map_err(|e| format!("handshake: {e}"))?;
    let t0 = Instant::now();
    while !accepted.load(Ordering::SeqCst) && t0.elapsed() < Duration::from_secs(5) { std::thread::sleep(Duration::from_millis(1)); }
    // the upstream has accepted the proxy's client connection (needed before it can be made to die)
    let t0 = Instant::now();
    while up.conn.lock().unwrap().is_none() && t0.elapsed() < Duration::from_secs(5) { std::thread::sleep(Duration::from_millis(1)); }
    let proxy_over = || ended.lock().unwrap().is_some();
    let mut got: Vec<(String, u64)> = vec![];
    let mut saw_close = false;
    let mut read_one = |ws: &mut tungstenite::WebSocket<TcpStream>, t: Duration, got: &mut Vec<(String, u64)>, saw_close: &mut bool| -> bool {
        ws.get_ref().set_read_timeout(Some(t)).ok();
        loop {
            match ws.read() {
                Ok(tungstenite::Message::Binary(bytes)) => {
                    if bytes.len() < 48 { got.push(("short".into(), 0)); return true; }
                    let id = u64::from_le_bytes(bytes[16..24].try_into().unwrap());
                    let ec = u32::from_le_bytes(bytes[44..48].try_into().unwrap());
                    let declared = u64::from_le_bytes(bytes[0..8].try_into().unwrap()) as usize;
                    let kind = if declared != bytes.len() { "torn" } else if bytes.len() > LIMIT { "resp_over" } else if ec == 0 { "resp" } else if ec == 4096 { "apperr" } else if ec == ErrorCode::InternalError as u32 { "subst" } else { "other_error" };
                    got.push((kind.to_string(), id));
                    return true;
                }
                Ok(tungstenite::Message::Close(_)) => { *saw_close = true; return false; }
                Ok(_) => continue,
                Err(_) => return false,
            }
        }
    };
    let mut steps = 0u64;
    for (kind, id) in &script {
        if proxy_over() { break; }
        if die_before == Some(*id) {
            if let Some(c) = up.conn.lock().unwrap().take() { let _ = c.shutdown(Shutdown::Both); }
            std::thread::sleep(Duration::from_millis(25));
        }
        steps += 1;
        match kind.as_str() {
            "req" => {
                if ws.send(tungstenite::Message::Binary(frame(*id, false).into())).is_err() { break; }
                // its reply, or the end of the proxy
                let t = Instant::now();
                let n0 = got.len();
                while got.len() == n0 && !proxy_over() && t.elapsed() < Duration::from_secs(4) {
                    if !read_one(&mut ws, Duration::from_millis(100), &mut got, &mut saw_close) && saw_close { break; }
                }
            }
            "notify" => {
                if ws.send(tungstenite::Message::Binary(frame(*id, true).into())).is_err() { break; }
                let t = Instant::now();
                while !up.seen.lock().unwrap().iter().any(|(_, i)| i == id) && !proxy_over() && t.elapsed() < Duration::from_millis(1500) { std::thread::sleep(Duration::from_millis(1)); }
                std::thread::sleep(Duration::from_millis(3));
            }
            "ping" => { let _ = ws.send(tungstenite::Message::Ping(vec![1, 2, 3].into())); std::thread::sleep(Duration::from_millis(3)); }
            "text" => { let _ = ws.send(tungstenite::Message::Text("not a repe frame".into())); }
            "bad" => { let _ = ws.send(tungstenite::Message::Binary(vec![9u8; 21].into())); }
            "close" => { let _ = ws.close(None); let _ = ws.flush(); }
            other => return Err(format!("unknown frame kind {other}")),
        }
    }
    let ends_itself = script.last().map(|(k, _)| matches!(k.as_str(), "text" | "bad" | "close")).unwrap_or(false);
    if !proxy_over() && !ends_itself {
        // the peer's stream simply ends (no Close frame)
        let _ = ws.get_ref().shutdown(Shutdown::Write);
    }
    // drain whatever else arrives until the connection ends, and wait for the proxy
    let t = Instant::now();
    while t.elapsed() < Duration::from_secs(4) {
        if !read_one(&mut ws, Duration::from_millis(100), &mut got, &mut saw_close) && (proxy_over() || saw_close) { break; }
    }
    let t = Instant::now();
    while !proxy_over() && t.elapsed() < Duration::from_secs(4) { std::thread::sleep(Duration::from_millis(2)); }
    let result = ended.lock().unwrap().clone();
    task.abort();
    if let Some(c) = up.conn.lock().unwrap().take() { let _ = c.shutdown(Shutdown::Both); }
    // compare
    let want_out: Vec<(String, u64)> = b["out"].as_array().unwrap().iter().filter(|m| m["kind"] != "close").map(|m| (m["kind"].as_str().unwrap().to_string(), m["id"].as_u64().unwrap())).collect();
    let want_seen: Vec<(String, u64)> = b["upseen"].as_array().unwrap().iter().map(|m| (m["kind"].as_str().unwrap().to_string(), m["id"].as_u64().unwrap())).collect();
    let phase = b["phase"].as_str().unwrap();
    let seen = up.seen.lock().unwrap().clone();
    if got != want_out { return Err(format!("the peer received {got:?}, the specification says {want_out:?}")); }
    if seen != want_seen { return Err(format!("the upstream received {seen:?}, the specification says {want_seen:?}")); }
    match (&result, phase) {
        (None, _) => return Err(format!("the proxy did not end although the specification's phase is {phase}")),
        (Some(Ok(())), "exit_err") => return Err("the proxy returned Ok(()) where the specification ends it with an error".into()),
        _ => {}
    }
    Ok(steps)
}

pub fn replay(a: &Args) -> i32 {
    let rt = tokio::runtime::Builder::new_multi_thread().worker_threads(4).enable_all().build().unwrap();
    let max = a.u64("max", 1_000_000);
    let every = a.u64("every", 1).max(1);
    let (mut n, mut k, mut steps) = (0u64, 0u64, 0u64);
    let mut failures: Vec<Value> = vec![];
    let mut ok_exit_results: HashMap<String, u64> = HashMap::new();
    util::tlc_tagged_json_each(&a.req("behaviours"), "BEH", |b| {
        k += 1;
        if k % every != 0 || n >= max || failures.len() >= 3 { return; }
        n += 1;
        match replay_one(&b, &rt) {
            Ok(s) => { steps += s; *ok_exit_results.entry(b["phase"].as_str().unwrap_or("?").to_string()).or_default() += 1; }
            Err(e) => failures.push(json!({"what": e, "behaviour": b})),
        }
    });
    util::write_json(&a.req("out"), &json!({"behaviours": n, "steps": steps, "by_phase": ok_exit_results, "failures": failures}));
    rt.shutdown_timeout(Duration::from_secs(2));
    0
}
