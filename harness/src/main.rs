//! `vh` — conformance harness binding the TLA+ specifications under /verif/spec to
//! the real repe crate. One sub-command per engine; every sub-command reads its
//! parameters from `--key value` arguments and writes ND-JSON / JSON files that the
//! python driver (bin/check) hands to TLC or compares with TLC output.
mod util;
mod tc;
mod sync;
mod pr;
mod rg;
mod fleet;
mod fm;
mod px;
mod wire;
mod bv;
mod rt;
mod mux;
mod srv;
mod wsx;
mod life;
mod w5;
mod vs;
mod nsub;

fn main() {
    let args: Vec<String> = std::env::args().collect();
    if args.len() < 2 {
        eprintln!("usage: vh <engine> [--key value]...");
        std::process::exit(2);
    }
    let a = util::Args::parse(&args[2..]);
    let code = match args[1].as_str() {
        "tc-walk" => tc::walk(&a),
        "tc-random" => tc::random(&a),
        "tc-sync" => sync::run(&a),
        "pr-walk" => pr::walk(&a),
        "pr-hist" => pr::hist(&a),
        "rg-walk" => rg::walk(&a),
        "rg-hist" => rg::hist(&a),
        "fleet-scripts" => fleet::scripts(&a),
        "fleet-broadcast" => fleet::broadcast(&a),
        "fleet-members" => fm::replay(&a),
        "proxy-replay" => px::replay(&a),
        "wire-exec" => wire::exec(&a),
        "wire-child" => wire::child(&a),
        "wire-c01" => wire::c01(&a),
        "bv-vectors" => bv::vectors(&a),
        "bv-random" => bv::random(&a),
        "rt-vectors" => rt::vectors(&a),
        "rt-random" => rt::random(&a),
        "mux" => mux::run(&a),
        "mux-replay" => mux::replay(&a),
        "mux-stray" => mux::stray(&a),
        "srv-c03" => srv::c03(&a),
        "srv-c02-timeouts" => srv::c02_timeouts(&a),
        "srv-c02-huge" => srv::c02_huge(&a),
        "ws-c16" => wsx::c16(&a),
        "ws-c17" => wsx::c17(&a),
        "ws-c15" => life::run(&a),
        "w5" => w5::run(&a),
        "nsub" => nsub::run(&a),
        "vs-c09" => vs::c09(&a),
        "vs-c09-vec" => vs::c09_vec(&a),
        "vs-c10" => vs::c10(&a),
        "vs-pull-child" => vs::pull_child(&a),
        other => {
            eprintln!("unknown engine {other}");
            2
        }
    };
    std::process::exit(code);
}
