//! C09 / C10 engines: serialized value streams (src/value_stream.rs).
//!
//! `vs-c09`  : scripted producers (writer / reader / value / typed / complex) on real servers, pulled
//!             by raw /_svs/open|next|cancel exchanges and by the library's pullers (blocking, async,
//!             WebSocket); one event per pull for Trace_ValueStream.tla.
//! `vs-c10`  : pull-to-file under in-process faults (producer failure at every chunk boundary +- 1,
//!             connection cut after the k-th response, rejecting verifier, trailer longer than the
//!             stream) and under process death: `vs-pull-child` is run under
//!             `strace -e inject=...:signal=KILL:when=n` for every write / fsync / rename touching the
//!             temp or destination path; filesystem outcomes for Trace_PullCommit.tla.

use crate::util::{self, Args};
use repe::value_stream::{self as svs, Compression, RouterValueStreamExt, StreamOpts};
use repe::{AsyncClient, BodyFormat, Client, Complex, Message, RepeError, Router, Server, WebSocketClient, WebSocketServer};
use serde::{Deserialize, Serialize};
use serde_json::{json, Value};
use std::io::{Read, Write};
use std::net::{TcpListener, TcpStream};
use std::path::{Path, PathBuf};
use std::sync::atomic::{AtomicUsize, Ordering};
use std::sync::Arc;
use std::time::Duration;

fn byte_at(i: usize) -> u8 {
    ((i as u64).wrapping_mul(2654435761).wrapping_add(17) >> 7) as u8
}
pub fn produced(n: usize) -> Vec<u8> {
    (0..n).map(byte_at).collect()
}

#[derive(Serialize, Deserialize)]
struct OpenRequest { resource: String }
#[derive(Serialize, Deserialize)]
struct OpenResponse { version: u8, stream_id: u64, format: u16, compression: u8 }
#[derive(Serialize, Deserialize)]
struct NextRequest { stream_id: u64 }
#[derive(Serialize, Deserialize)]
struct CancelRequest { stream_id: u64, reason: String }

/// resource string "n=<N>,w=<a.b.c>,fail=<f|-1>,ps=<producer sleep us>[,panic=1]"; with panic=1 the producer
/// panics at the failure point instead of returning an error (its thread vanishes without a terminal marker)
fn parse_res(r: &str) -> (usize, Vec<usize>, i64, u64) {
    let (n, w, fail, ps, _) = parse_res5(r);
    (n, w, fail, ps)
}
fn fail_now(panic: bool) -> std::io::Error {
    if panic { panic!("scripted producer panic"); }
    // the error KIND rotates: a producer failure is a failure whatever its kind (BrokenPipe, reset, timeout ...).  Interrupted
    // and WouldBlock are left out: std's read adapters legitimately retry those.
    static K: AtomicUsize = AtomicUsize::new(0);
    use std::io::ErrorKind::*;
    const KINDS: [std::io::ErrorKind; 9] = [Other, BrokenPipe, UnexpectedEof, ConnectionReset, TimedOut, ConnectionAborted, WriteZero, InvalidData, NotConnected];
    std::io::Error::new(KINDS[K.fetch_add(1, Ordering::Relaxed) % KINDS.len()], "scripted producer failure")
}
fn parse_res5(r: &str) -> (usize, Vec<usize>, i64, u64, bool) {
    let mut n = 0;
    let mut w = vec![1usize];
    let mut fail = -1i64;
    let mut ps = 0u64;
    let mut panic = false;
    for kv in r.split(',') {
        let (k, v) = kv.split_once('=').unwrap_or((kv, ""));
        match k {
            "n" => n = v.parse().unwrap_or(0),
            "w" => w = v.split('.').filter_map(|x| x.parse().ok()).collect(),
            "fail" => fail = v.parse().unwrap_or(-1),
            "ps" => ps = v.parse().unwrap_or(0),
            "panic" => panic = v == "1",
            _ => {}
        }
    }
    if w.is_empty() { w = vec![1]; }
    (n, w, fail, ps, panic)
}

struct FailingReader { data: Vec<u8>, pos: usize, fail: i64, sizes: Vec<usize>, k: usize, panic: bool, once: bool, failed: bool }
impl Read for FailingReader {
    fn read(&mut self, out: &mut [u8]) -> std::io::Result<usize> {
        // "once": the source reports its error a single time and end-of-file afterwards (a reset socket, a dead pipe)
        if self.failed && self.once { return Ok(0); }
        if self.fail >= 0 && self.pos as i64 >= self.fail { self.failed = true; return Err(fail_now(self.panic)); }
        let lim = if self.fail >= 0 { (self.fail as usize).min(self.data.len()) } else { self.data.len() };
        let want = self.sizes[self.k % self.sizes.len()].max(1);
        self.k += 1;
        let n = want.min(out.len()).min(lim - self.pos);
        out[..n].copy_from_slice(&self.data[self.pos..self.pos + n]);
        self.pos += n;
        Ok(n)
    }
}

pub fn router_for(kind: &str, opts: StreamOpts) -> Router {
    let r = Router::new();
    match kind {
        "writer" => r.with_writer_stream(BodyFormat::RawBinary, |res: &str| {
            let (n, w, fail, ps, panic) = parse_res5(res);
            Some(move |sink: &mut dyn Write| -> std::io::Result<()> {
                let data = produced(n);
                let mut pos = 0usize;
                let mut k = 0usize;
                loop {
                    if fail >= 0 && pos as i64 >= fail { return Err(fail_now(panic)); }
                    if pos >= n { return Ok(()); }
                    let lim = if fail >= 0 { (fail as usize).min(n) } else { n };
                    let take = w[k % w.len()].max(1).min(lim - pos);
                    k += 1;
                    sink.write_all(&data[pos..pos + take])?;
                    pos += take;
                    if ps > 0 { std::thread::sleep(Duration::from_micros(ps)); }
                }
            })
        }, opts),
        "reader" => r.with_reader_stream(|res: &str| { let (n, w, fail, _, panic) = parse_res5(res); Some(FailingReader { data: produced(n), pos: 0, fail, sizes: w, k: 0, panic, once: res.contains("once=1"), failed: false }) }, opts),
        // serde value: a byte vector (BEVE-encoded by the producer)
        "value" => r.with_value_stream(|res: &str| { let (n, ..) = parse_res(res); Some(produced(n).into_iter().map(|b| b as u16).collect::<Vec<u16>>()) }, opts),
        "typed" => r.with_typed_value_stream(|res: &str| { let (n, ..) = parse_res(res); Some((0..n).map(|i| i as f64 * 0.5).collect::<Vec<f64>>()) }, opts),
        "complex" => r.with_complex_value_stream(|res: &str| { let (n, ..) = parse_res(res); Some((0..n).map(|i| Complex { re: i as f32, im: -(i as f32) }).collect::<Vec<Complex<f32>>>()) }, opts),
        _ => panic!("kind"),
    }
}

/// the logical bytes a producer kind emits for n
fn logical(kind: &str, n: usize) -> Vec<u8> {
    match kind {
        "writer" | "reader" => produced(n),
        "value" => beve::to_vec(&produced(n).into_iter().map(|b| b as u16).collect::<Vec<u16>>()).unwrap(),
        "typed" => Message::builder().body_typed_slice(&(0..n).map(|i| i as f64 * 0.5).collect::<Vec<f64>>()).build().body,
        "complex" => Message::builder().body_complex_slice(&(0..n).map(|i| Complex { re: i as f32, im: -(i as f32) }).collect::<Vec<Complex<f32>>>()).build().body,
        _ => vec![],
    }
}

pub struct Srv { pub addr: std::net::SocketAddr, pub ws_addr: std::net::SocketAddr }
pub fn start(kind: &str, opts: StreamOpts, rt: &tokio::runtime::Runtime) -> Srv {
    let l = TcpListener::bind("127.0.0.1:0").unwrap();
    let addr = l.local_addr().unwrap();
    let r = router_for(kind, opts);
    std::thread::spawn(move || { let _ = Server::new(r).serve(l); });
    let wl = rt.block_on(WebSocketServer::listen("127.0.0.1:0")).unwrap();
    let ws_addr = wl.local_addr().unwrap();
    let r2 = router_for(kind, opts);
    rt.spawn(async move { let _ = WebSocketServer::new(r2).serve_listener(wl, "/ws").await; });
    Srv { addr, ws_addr }
}

/// raw exchange: open, next ... (with an optional cancel after `cancel_after` replies), one next past the end
fn raw_pull(c: &Client, resource: &str, csleep_us: u64, cancel_after: Option<usize>) -> Value {
    let open = c.call_with_formats(svs::ROUTE_OPEN, 1, Some(&beve::to_vec(&OpenRequest { resource: resource.into() }).unwrap()), 1);
    let Ok(open) = open else { return json!({"open": "err"}) };
    let o: OpenResponse = match open.beve_body() { Ok(o) => o, Err(_) => return json!({"open": "bad"}) };
    let mut replies: Vec<Value> = vec![];
    let mut bytes: Vec<u8> = vec![];
    let next = |c: &Client| c.call_with_formats(svs::ROUTE_NEXT, 1, Some(&beve::to_vec(&NextRequest { stream_id: o.stream_id }).unwrap()), 1);
    let mut ended = "none";
    let mut cancelled = false;
    for i in 0..100000 {
        if Some(i) == cancel_after {
            let _ = c.call_with_formats(svs::ROUTE_CANCEL, 1, Some(&beve::to_vec(&CancelRequest { stream_id: o.stream_id, reason: "test".into() }).unwrap()), 1);
            cancelled = true;
            break;
        }
        if csleep_us > 0 { std::thread::sleep(Duration::from_micros(csleep_us)); }
        match next(c) {
            Ok(m) => {
                let last = m.query.first().copied() == Some(1);
                replies.push(json!([m.body.len(), last]));
                bytes.extend_from_slice(&m.body);
                if last { ended = "last"; break; }
            }
            Err(_) => { ended = "error"; break; }
        }
    }
    // pulling past the end / after release must be an error
    let after = match next(c) { Ok(m) => if m.query.first().copied() == Some(1) { "last" } else { "chunk" }, Err(_) => "err" };
    json!({"open": "ok", "format": o.format, "compression": o.compression, "replies": replies, "ended": ended, "cancelled": cancelled, "after": after, "bytes_hex_len": bytes.len(), "bytes": util::hex(&bytes)})
}

/// a release sent from a SECOND connection while a `next` of the first one is parked on a slow producer:
/// the parked `next` may still complete, the one after it must be an error
fn raw_pull_concurrent_cancel(addr: std::net::SocketAddr, resource: &str) -> Value {
    let c = Client::connect(addr).unwrap();
    let Ok(open) = c.call_with_formats(svs::ROUTE_OPEN, 1, Some(&beve::to_vec(&OpenRequest { resource: resource.into() }).unwrap()), 1) else { return json!({"open": "err"}) };
    let Ok(o) = open.beve_body::<OpenResponse>() else { return json!({"open": "bad"}) };
    let sid = o.stream_id;
    let next = move |c: &Client| c.call_with_formats(svs::ROUTE_NEXT, 1, Some(&beve::to_vec(&NextRequest { stream_id: sid }).unwrap()), 1);
    let kind = |r: Result<Message, RepeError>| match r { Ok(m) => if m.query.first().copied() == Some(1) { "last" } else { "chunk" }, Err(_) => "err" };
    let first = kind(next(&c));
    let c1 = c.clone();
    let parked = std::thread::spawn(move || kind(next(&c1)));
    std::thread::sleep(Duration::from_millis(25));
    let c2 = Client::connect(addr).unwrap();
    let acked = c2.call_with_formats(svs::ROUTE_CANCEL, 1, Some(&beve::to_vec(&CancelRequest { stream_id: sid, reason: "from another connection".into() }).unwrap()), 1).is_ok();
    let second = parked.join().unwrap_or("err");
    let third = kind(next(&c));
    json!({"ev": "raw_cc", "open": "ok", "first": first, "second": second, "third": third, "cancel_acked": acked})
}

/// two connections pull the SAME stream at the same time (each `next` of the one queues behind a `next` of the other
/// that is parked on a slow producer): over all replies of both there is at most one end marker, exactly one when the
/// producer completes and none when it fails; every reply after it is an error
fn raw_pull_concurrent_next(addr: std::net::SocketAddr, resource: &str) -> Value {
    let c = Client::connect(addr).unwrap();
    let Ok(open) = c.call_with_formats(svs::ROUTE_OPEN, 1, Some(&beve::to_vec(&OpenRequest { resource: resource.into() }).unwrap()), 1) else { return json!({"ev": "raw_cn", "open": "err"}) };
    let Ok(o) = open.beve_body::<OpenResponse>() else { return json!({"ev": "raw_cn", "open": "bad"}) };
    let sid = o.stream_id;
    let pull_all = move |c: Client| -> Vec<&'static str> {
        let mut kinds = vec![];
        for _ in 0..64 {
            let r = c.call_with_formats_and_timeout(svs::ROUTE_NEXT, 1, Some(&beve::to_vec(&NextRequest { stream_id: sid }).unwrap()), 1, Duration::from_secs(8));
            let k = match r { Ok(m) => if m.query.first().copied() == Some(1) { "last" } else { "chunk" }, Err(_) => "err" };
            kinds.push(k);
            if k == "err" { break; }
        }
        kinds
    };
    let c2 = Client::connect(addr).unwrap();
    let (a, b) = (std::thread::spawn(move || pull_all(c)), std::thread::spawn(move || pull_all(c2)));
    let (ka, kb) = (a.join().unwrap_or_default(), b.join().unwrap_or_default());
    let lasts = ka.iter().chain(kb.iter()).filter(|k| **k == "last").count();
    // nothing but errors after a connection saw the end marker
    let after_last_ok = [&ka, &kb].iter().all(|k| k.iter().position(|x| *x == "last").map(|i| k[i + 1..].iter().all(|x| *x == "err")).unwrap_or(true));
    json!({"ev": "raw_cn", "open": "ok", "lasts": lasts, "after_last_only_errors": after_last_ok, "a": ka, "b": kb})
}

/// a LIBRARY puller (its stream id is hidden from the caller) is pulling from a slow producer when the stream is released
/// from a second connection: the pull returns an error, or - if the release lost the race - the complete content; never a
/// prefix of it passed off as the value
fn lib_pull_released(addr: std::net::SocketAddr, n: usize, chunk: usize, via: &str, comp: u8) -> Value {
    // stream ids are issued in sequence: open one by hand to learn where the sequence stands, and release it
    let c0 = Client::connect(addr).unwrap();
    let probe = c0.call_with_formats(svs::ROUTE_OPEN, 1, Some(&beve::to_vec(&OpenRequest { resource: "n=1,w=1,fail=-1,ps=0".into() }).unwrap()), 1).ok().and_then(|m| m.beve_body::<OpenResponse>().ok());
    let Some(p) = probe else { return json!({"ev": "pull_released", "open": "err"}) };
    let _ = c0.call_with_formats(svs::ROUTE_CANCEL, 1, Some(&beve::to_vec(&CancelRequest { stream_id: p.stream_id, reason: "probe".into() }).unwrap()), 1);
    let res = format!("n={n},w={chunk},fail=-1,ps=40000");
    let c = Client::connect(addr).unwrap();
    let via2 = via.to_string();
    let res2 = res.clone();
    let puller = std::thread::spawn(move || -> Result<Vec<u8>, String> {
        match via2.as_str() {
            "pull_to_vec" => svs::pull_to_vec(&c, &res2).map_err(|e| e.to_string()),
            _ => svs::pull_consume(&c, &res2, |rd| { let mut b = vec![]; rd.read_to_end(&mut b)?; Ok(b) }).map_err(|e| e.to_string()),
        }
    });
    std::thread::sleep(Duration::from_millis(70));
    let mut acked = false;
    for guess in [p.stream_id + 1, p.stream_id + 2] {
        if c0.call_with_formats(svs::ROUTE_CANCEL, 1, Some(&beve::to_vec(&CancelRequest { stream_id: guess, reason: "released from another connection".into() }).unwrap()), 1).is_ok() { acked = true; break; }
    }
    let r = puller.join().unwrap_or(Err("puller panicked".into()));
    let want = logical("writer", n);
    let (ok, equal, got_len) = match &r { Ok(b) => (true, decompress(comp, b).map(|d| d == want).unwrap_or(false) || *b == want, b.len()), Err(_) => (false, false, 0) };
    json!({"ev": "pull_released", "open": "ok", "via": via, "n": n, "chunk": chunk, "release_acked": acked, "ok": ok, "equal": equal, "got_len": got_len, "err": r.err().unwrap_or_default().chars().take(80).collect::<String>()})
}

fn decompress(comp: u8, b: &[u8]) -> Option<Vec<u8>> {
    if comp == 0 { Some(b.to_vec()) } else { zstd::stream::decode_all(b).ok() }
}
fn unhex(s: &str) -> Vec<u8> { (0..s.len() / 2).map(|k| u8::from_str_radix(&s[2 * k..2 * k + 2], 16).unwrap()).collect() }

pub fn c09(a: &Args) -> i32 {
    let thorough = a.flag("thorough");
    let prev = std::panic::take_hook();
    std::panic::set_hook(Box::new(move |info| {
        let scripted = info.payload().downcast_ref::<&str>().map(|s| s.contains("scripted producer panic")).unwrap_or(false);
        if !scripted { prev(info); }
    }));
    let rt = tokio::runtime::Builder::new_multi_thread().worker_threads(4).enable_all().build().unwrap();
    let mut out = util::NdJson::create(&a.req("out"));
    let chunks: Vec<usize> = if thorough { vec![1, 2, 3, 7, 64, 1000, 1 << 16, 1 << 20] } else { vec![1, 3, 7, 64, 1 << 16] };
    let depths: Vec<usize> = if thorough { vec![0, 1, 2, 4, 8] } else { vec![0, 1, 4] };
    let mut n_pulls = 0u64;
    for &comp in &[Compression::None, Compression::Zstd] {
        for &chunk in &chunks {
            for &depth in &depths {
                let opts = StreamOpts { chunk_bytes: chunk, compression: comp, zstd_level: 1, session_depth: depth };
                let compu = if comp == Compression::None { 0u8 } else { 1 };
                // --- writer producer: raw exchange over every boundary residue and failure point
                let srv = start("writer", opts, &rt);
                let c = Client::connect(srv.addr).unwrap();
                let mut ns: Vec<usize> = vec![0];
                for k in 1..=4usize { for d in [-1i64, 0, 1] { let v = (k * chunk) as i64 + d; if v >= 0 && (v as usize) <= 5_000_000 { ns.push(v as usize); } } }
                ns.sort(); ns.dedup();
                if chunk >= 1 << 16 { ns.retain(|n| *n <= 3 * chunk + 1); }
                for (ni, &n) in ns.iter().enumerate() {
                    let pattern = ["1", "3.1", "1000", "7.2.64"][ni % 4];
                    // speed regimes: neither sleeps / consumer sleeps (channel fills) / producer sleeps (consumer parks)
                    for (ps, cs) in [(0u64, 0u64), (0, 300), (200, 0)] {
                        if (ps > 0 || cs > 0) && (n > 64 * chunk.min(64) || ni % 3 != 0) { continue; }
                        let res = format!("n={n},w={pattern},fail=-1,ps={ps}");
                        let mut e = raw_pull(&c, &res, cs, None);
                        finish_raw(&mut e, "writer", n, -1, compu, chunk, depth, &logical("writer", n), ps, cs);
                        out.push(&e); n_pulls += 1;
                    }
                    // producer failure at chunk boundaries +- 1, at 0 and at n (small n only, to bound time)
                    if n <= 8 * chunk.min(64) + 1 {
                        let mut fails: Vec<i64> = vec![0, n as i64];
                        for k in 1..=3usize { for d in [-1i64, 0, 1] { let v = (k * chunk) as i64 + d; if v > 0 && v < n as i64 { fails.push(v); } } }
                        fails.sort(); fails.dedup();
                        for f in fails {
                            if f as usize > n { continue; }
                            // the producer fails by returning an error, or by panicking (its thread vanishes)
                            for pn in [0, 1] {
                                let res = format!("n={n},w={pattern},fail={f},ps=0,panic={pn}");
                                let mut e = raw_pull(&c, &res, 0, None);
                                finish_raw(&mut e, "writer", n, f, compu, chunk, depth, &logical("writer", n), 0, 0);
                                e["panic"] = json!(pn == 1);
                                out.push(&e); n_pulls += 1;
                            }
                        }
                    }
                    // release in the middle: cancel after k replies, the next pull must be an error
                    if n >= chunk * 2 && n <= 8 * chunk.min(1 << 16) {
                        let res = format!("n={n},w={pattern},fail=-1,ps=0");
                        let mut e = raw_pull(&c, &res, 0, Some(1));
                        finish_raw(&mut e, "writer", n, -1, compu, chunk, depth, &logical("writer", n), 0, 0);
                        out.push(&e); n_pulls += 1;
                    }
                }
                // --- release from another connection while a next is parked on the (slow) producer
                if chunk <= 64 {
                    let mut e = raw_pull_concurrent_cancel(srv.addr, &format!("n={},w={},fail=-1,ps=70000", 4 * chunk, chunk));
                    e["producer"] = json!("writer"); e["comp"] = json!(compu); e["chunk"] = json!(chunk); e["depth"] = json!(depth);
                    out.push(&e); n_pulls += 1;
                }
                // --- two connections pull the same stream concurrently (slow producer: their `next`s queue behind each other)
                if chunk <= 64 {
                    for fail in [-1i64, (2 * chunk) as i64] {
                        let mut e = raw_pull_concurrent_next(srv.addr, &format!("n={},w={},fail={fail},ps=30000", 3 * chunk, chunk));
                        e["producer"] = json!("writer"); e["comp"] = json!(compu); e["chunk"] = json!(chunk); e["depth"] = json!(depth); e["fail"] = json!(fail);
                        out.push(&e); n_pulls += 1;
                    }
                }
                // --- the stream is released from another connection while a library puller is in the middle of it
                if chunk <= 64 && depth <= 1 {
                    for via in ["pull_to_vec", "pull_consume"] {
                        let mut e = lib_pull_released(srv.addr, 8 * chunk, chunk, via, compu);
                        e["producer"] = json!("writer"); e["comp"] = json!(compu); e["depth"] = json!(depth);
                        out.push(&e); n_pulls += 1;
                    }
                }
                // --- library pullers over the three clients on the writer producer
                let ac = rt.block_on(AsyncClient::connect(srv.addr)).unwrap();
                let wc = rt.block_on(WebSocketClient::connect(&format!("ws://{}/ws", srv.ws_addr))).unwrap();
                for &n in ns.iter().step_by(3) {
                    for (fail, pn) in [(-1i64, 0), ((n / 2) as i64, 0), ((n / 2) as i64, 1), (0, 1)] {
                        if fail == 0 && n == 0 { continue; }
                        let res = format!("n={n},w=3.1,fail={fail},ps=0,panic={pn}");
                        let want = logical("writer", n);
                        for via in ["pull_to_vec", "pull_to_vec_async", "pull_to_vec_ws"] {
                            let r: Result<Vec<u8>, RepeError> = match via {
                                "pull_to_vec" => svs::pull_to_vec(&c, &res),
                                "pull_to_vec_async" => rt.block_on(svs::pull_to_vec_async(&ac, &res)),
                                _ => rt.block_on(svs::pull_to_vec_async(&wc, &res)),
                            };
                            out.push(&json!({"ev": "pull", "via": via, "producer": "writer", "n": n, "fail": fail, "comp": compu, "chunk": chunk, "depth": depth,
                                             "ok": r.is_ok(), "equal": r.as_ref().map(|v| *v == want).unwrap_or(false), "got_len": r.as_ref().map(|v| v.len()).unwrap_or(0)}));
                            n_pulls += 1;
                        }
                    }
                }
                drop((c, ac, wc));
                // --- the connection is cut after the k-th response (a forwarding peer hangs up): every puller, the async ones
                // included, returns an error - a prefix of the stream is not the value
                if chunk <= 64 && depth <= 1 {
                    let n = 6 * chunk;
                    let res = format!("n={n},w={chunk},fail=-1,ps=0");
                    for k in 1..=3usize {
                        for via in ["pull_to_vec", "pull_to_vec_async"] {
                            let p = proxy(srv.addr, k);
                            let r: Result<Vec<u8>, RepeError> = if via == "pull_to_vec" {
                                match Client::connect(p) { Ok(c) => svs::pull_to_vec(&c, &res), Err(e) => Err(e.into()) }
                            } else {
                                rt.block_on(async { match AsyncClient::connect(p).await { Ok(c) => svs::pull_to_vec_async(&c, &res).await, Err(e) => Err(e.into()) } })
                            };
                            let want = logical("writer", n);
                            // "fail" = the response after which the connection went away (before the end of the stream)
                            out.push(&json!({"ev": "pull", "via": format!("{via}_cut"), "producer": "writer", "n": n, "fail": (k * chunk).min(n - 1), "comp": compu, "chunk": chunk, "depth": depth,
                                             "ok": r.is_ok(), "equal": r.as_ref().map(|v| *v == want).unwrap_or(false), "got_len": r.as_ref().map(|v| v.len()).unwrap_or(0)}));
                            n_pulls += 1;
                        }
                    }
                }
                // --- the other producer kinds (fewer sizes): raw exchange + typed pullers
                if chunk <= 64 || chunk == 1 << 16 {
                    for kind in ["reader", "value", "typed", "complex"] {
                        let srv = start(kind, opts, &rt);
                        let c = Client::connect(srv.addr).unwrap();
                        let ac = rt.block_on(AsyncClient::connect(srv.addr)).unwrap();
                        for n in [0usize, 1, 5, 33] {
                            let res = format!("n={n},w=2.5,fail=-1,ps=0");
                            let want = logical(kind, n);
                            let mut e = raw_pull(&c, &res, 0, None);
                            finish_raw(&mut e, kind, want.len(), -1, compu, chunk, depth, &want, 0, 0);
                            out.push(&e); n_pulls += 1;
                            let (ok, equal) = match kind {
                                "value" => { let w: Vec<u16> = produced(n).into_iter().map(|b| b as u16).collect(); let r = svs::pull_value::<Vec<u16>>(&c, &res); let r2 = rt.block_on(svs::pull_value_async::<Vec<u16>, _>(&ac, &res));
                                             (r.is_ok() && r2.is_ok(), r.map(|v| v == w).unwrap_or(false) && r2.map(|v| v == w).unwrap_or(false)) }
                                "typed" => { let r = svs::pull_typed_slice::<f64>(&c, &res); let r2 = rt.block_on(svs::pull_typed_slice_async::<f64, _>(&ac, &res)); let w: Vec<f64> = (0..n).map(|i| i as f64 * 0.5).collect(); (r.is_ok() && r2.is_ok(), r.map(|v| v == w).unwrap_or(false) && r2.map(|v| v == w).unwrap_or(false)) }
                                "complex" => { let r = svs::pull_complex_slice::<f32>(&c, &res); let r2 = rt.block_on(svs::pull_complex_slice_async::<f32, _>(&ac, &res)); let w: Vec<(f32, f32)> = (0..n).map(|i| (i as f32, -(i as f32))).collect();
                                               let same = |v: Vec<Complex<f32>>| v.iter().map(|c| (c.re, c.im)).collect::<Vec<_>>() == w;
                                               (r.is_ok() && r2.is_ok(), r.map(&same).unwrap_or(false) && r2.map(&same).unwrap_or(false)) }
                                _ => {
                                    let r = svs::pull_to_vec(&c, &res);
                                    // the two format-agnostic escape hatches
                                    let r2 = svs::pull_consume(&c, &res, |rd| { let mut b = vec![]; rd.read_to_end(&mut b)?; Ok(b) });
                                    let r3 = rt.block_on(svs::pull_consume_async(&ac, &res, |mut rd| { let mut b = vec![]; rd.read_to_end(&mut b)?; Ok(b) }));
                                    (r.is_ok() && r2.is_ok() && r3.is_ok(), r.map(|v| v == want).unwrap_or(false) && r2.map(|v| v == want).unwrap_or(false) && r3.map(|v| v == want).unwrap_or(false))
                                }
                            };
                            out.push(&json!({"ev": "pull", "via": format!("typed_puller_{kind}"), "producer": kind, "n": n, "fail": -1, "comp": compu, "chunk": chunk, "depth": depth, "ok": ok, "equal": equal, "got_len": 0}));
                            n_pulls += 1;
                        }
                        // a failing reader
                        if kind == "reader" {
                            for (f, pn, once) in [(7, 0, 0), (7, 1, 0), (0, 1, 0), (0, 0, 0), (7, 0, 1), (5, 0, 1), (1, 0, 1), (13, 0, 1)] {
                                let mut e = raw_pull(&c, &format!("n=20,w=3,fail={f},ps=0,panic={pn},once={once}"), 0, None);
                                finish_raw(&mut e, kind, 20, f, compu, chunk, depth, &produced(20), 0, 0);
                                e["panic"] = json!(pn == 1);
                                out.push(&e); n_pulls += 1;
                            }
                        }
                    }
                }
            }
        }
    }
    out.finish();
    util::write_json(&a.str("summary", "/dev/null"), &json!({"pulls": n_pulls}));
    rt.shutdown_timeout(Duration::from_secs(1));
    0
}

/// spec -> impl: replay ValueStream's terminal reply sequences (MC_ValueStreamGen) on a real writer producer.
/// The exchange is the model's: `next` until an end marker or an error, then one more `next`.
pub fn c09_vec(a: &Args) -> i32 {
    let vecs = util::tlc_tagged_json(&a.req("vectors"), "VEC");
    let rt = tokio::runtime::Builder::new_multi_thread().worker_threads(2).enable_all().build().unwrap();
    let mut out = util::NdJson::create(&a.req("out"));
    let mut servers: std::collections::HashMap<(usize, usize), Client> = Default::default();
    let patterns = ["1", "2", "3.1", "2.3", "1000"];
    let (mut n_ok, mut n_bad) = (0u64, 0u64);
    for (i, v) in vecs.iter().enumerate() {
        let (n, chunk, depth, fail) = (v["n"].as_u64().unwrap() as usize, v["chunk"].as_u64().unwrap() as usize, v["depth"].as_u64().unwrap() as usize, v["fail"].as_i64().unwrap());
        let c = servers.entry((chunk, depth)).or_insert_with(|| {
            let srv = start("writer", StreamOpts { chunk_bytes: chunk, compression: Compression::None, zstd_level: 1, session_depth: depth }, &rt);
            Client::connect(srv.addr).unwrap()
        });
        for rep in 0..a.usize("reps", 2) {
            let pattern = patterns[(i + rep * 2) % patterns.len()];
            let res = format!("n={n},w={pattern},fail={fail},ps=0");
            let mut got: Vec<Value> = vec![];
            let open = c.call_with_formats(svs::ROUTE_OPEN, 1, Some(&beve::to_vec(&OpenRequest { resource: res.clone() }).unwrap()), 1);
            let o: Option<OpenResponse> = open.ok().and_then(|m| m.beve_body().ok());
            let mut bytes: Vec<u8> = vec![];
            if let Some(o) = &o {
                let mut ended = false;
                for _ in 0..1000 {
                    let r = c.call_with_formats(svs::ROUTE_NEXT, 1, Some(&beve::to_vec(&NextRequest { stream_id: o.stream_id }).unwrap()), 1);
                    let was_ended = ended;
                    match r {
                        Ok(m) => { let last = m.query.first().copied() == Some(1); got.push(json!(["chunk", m.body.len(), last])); bytes.extend_from_slice(&m.body); if last { ended = true; } }
                        Err(_) => { got.push(json!(["err", 0, false])); ended = true; }
                    }
                    if was_ended { break; }
                }
            }
            let same = o.is_some() && Value::Array(got.clone()) == v["replies"];
            if same { n_ok += 1 } else { n_bad += 1 }
            out.push(&json!({"ev": "vec", "n": n, "chunk": chunk, "depth": depth, "fail": fail, "w": pattern, "expected": v["replies"], "got": got, "same": same,
                             "bytes_ok": produced(n).starts_with(&bytes), "open": o.is_some()}));
        }
    }
    out.finish();
    util::write_json(&a.str("summary", "/dev/null"), &json!({"vectors": vecs.len(), "replayed_same": n_ok, "replayed_different": n_bad}));
    rt.shutdown_timeout(Duration::from_secs(1));
    0
}

#[allow(clippy::too_many_arguments)]
fn finish_raw(e: &mut Value, kind: &str, n: usize, fail: i64, comp: u8, chunk: usize, depth: usize, want: &[u8], ps: u64, cs: u64) {
    let bytes = unhex(e["bytes"].as_str().unwrap_or(""));
    // what the consumer holds must be (after decompression when the stream completed) the producer's logical bytes,
    // or, on a failed / released stream, a prefix of the emitted (possibly compressed) stream
    let ended_last = e["ended"] == "last";
    let (concat_ok, concat_len) = if ended_last {
        match decompress(comp, &bytes) { Some(d) => (d == want, d.len()), None => (false, 0) }
    } else if comp == 0 {
        (want.starts_with(&bytes), bytes.len())
    } else {
        (true, bytes.len()) // a truncated compressed stream is opaque; nothing to compare
    };
    let o = e.as_object_mut().unwrap();
    o.remove("bytes");
    o.insert("ev".into(), json!("raw"));
    o.insert("producer".into(), json!(kind));
    o.insert("n".into(), json!(n));
    o.insert("fail".into(), json!(fail));
    o.insert("comp".into(), json!(comp));
    o.insert("chunk".into(), json!(chunk));
    o.insert("depth".into(), json!(depth));
    o.insert("concat_ok".into(), json!(concat_ok));
    o.insert("concat_len".into(), json!(concat_len));
    o.insert("psleep".into(), json!(ps));
    o.insert("csleep".into(), json!(cs));
}

// ---------------------------------------------------------------------------
// C10

/// TCP proxy that forwards everything but cuts both directions after `cut_after` server->client frames
fn proxy(upstream: std::net::SocketAddr, cut_after: usize) -> std::net::SocketAddr {
    let l = TcpListener::bind("127.0.0.1:0").unwrap();
    let addr = l.local_addr().unwrap();
    std::thread::spawn(move || {
        let Ok((mut client, _)) = l.accept() else { return };
        let Ok(mut up) = TcpStream::connect(upstream) else { return };
        let (mut c2, mut u2) = (client.try_clone().unwrap(), up.try_clone().unwrap());
        std::thread::spawn(move || { let mut b = [0u8; 65536]; while let Ok(n) = c2.read(&mut b) { if n == 0 || u2.write_all(&b[..n]).is_err() { break; } } let _ = u2.shutdown(std::net::Shutdown::Both); });
        let mut frames = 0usize;
        loop {
            let mut h = [0u8; 48];
            if up.read_exact(&mut h).is_err() { break; }
            let total = u64::from_le_bytes(h[0..8].try_into().unwrap()) as usize;
            if !(48..=(256usize << 20)).contains(&total) { break; } // never trust a declared length with an allocation
            let mut rest = vec![0u8; total - 48];
            if up.read_exact(&mut rest).is_err() { break; }
            if frames >= cut_after { break; }
            frames += 1;
            if client.write_all(&h).is_err() || client.write_all(&rest).is_err() { break; }
        }
        let _ = client.shutdown(std::net::Shutdown::Both);
        let _ = up.shutdown(std::net::Shutdown::Both);
    });
    addr
}

fn classify_file(p: &Path, old: &[u8], complete: &[u8]) -> &'static str {
    match std::fs::read(p) {
        Err(_) => "absent",
        Ok(b) if b == old && !old.is_empty() => "old",
        Ok(b) if b == complete => "complete",
        Ok(b) if complete.starts_with(&b) => "partial",
        Ok(_) => "other",
    }
}
fn tmp_of(p: &Path) -> PathBuf { let mut n = p.file_name().unwrap().to_os_string(); n.push(".svspart"); p.with_file_name(n) }

struct CountDigest(Arc<AtomicUsize>);
impl Write for CountDigest { fn write(&mut self, b: &[u8]) -> std::io::Result<usize> { self.0.fetch_add(b.len(), Ordering::SeqCst); Ok(b.len()) } fn flush(&mut self) -> std::io::Result<()> { Ok(()) } }

pub fn c10(a: &Args) -> i32 {
    let dir = PathBuf::from(a.req("dir"));
    std::fs::create_dir_all(&dir).unwrap();
    let dir = dir.canonicalize().unwrap();
    let rt = tokio::runtime::Builder::new_multi_thread().worker_threads(4).enable_all().build().unwrap();
    let mut out = util::NdJson::create(&a.req("out"));
    let mut sysout = util::NdJson::create(&a.str("sys-out", "/dev/null"));
    let old = b"previous content of the destination".to_vec();
    let mut cases = 0u64;
    let mut case_id = 0u64;
    for &comp in &[Compression::None, Compression::Zstd] {
        let compu = if comp == Compression::None { 0u8 } else { 1 };
        let chunk = 16usize;
        let opts = StreamOpts { chunk_bytes: chunk, compression: comp, zstd_level: 1, session_depth: 2 };
        let srv = start("writer", opts, &rt);
        let n = 50usize;
        let complete = produced(n);
        // the two BEVE file outputs (pull_to_beve_file: decompressed; pull_to_beve_zst_file: the compressed stream as is)
        // exist for compressed BEVE producers only
        let bsrv = if compu == 1 { Some(start("value", opts, &rt)) } else { None };
        let (beve_logical, beve_compressed): (Vec<u8>, Vec<u8>) = match &bsrv {
            Some(b) => {
                let c = Client::connect(b.addr).unwrap();
                let e = raw_pull(&c, &format!("n={n},w=1,fail=-1,ps=0"), 0, None);
                (logical("value", n), unhex(e["bytes"].as_str().unwrap_or("")))
            }
            None => (vec![], vec![]),
        };
        let rsrv = start("reader", opts, &rt);
        let exe = std::env::current_exe().unwrap();
        let mut run = |scenario: &str, fault: Value, pre_exists: bool, puller: &str, addr: std::net::SocketAddr, resource: &str, out: &mut util::NdJson| {
            case_id += 1;
            let dest = dir.join(format!("dest-{case_id}.bin"));
            let _ = std::fs::remove_file(&dest);
            let _ = std::fs::remove_file(tmp_of(&dest));
            if pre_exists { std::fs::write(&dest, &old).unwrap(); }
            // every other case starts with a stale, longer <dest>.svspart left behind by an earlier killed pull
            // (only where the pull must succeed: a pull that fails before creating its temp file rightly leaves a foreign file alone)
            if case_id % 2 == 0 && ["complete", "verifier_accepts", "trailer_ok"].contains(&scenario) { std::fs::write(tmp_of(&dest), vec![0x5A; 4 * n]).unwrap(); }
            let want_complete: Vec<u8> = if puller == "beve_file" { beve_logical.clone() } else if puller == "beve_zst_file" { beve_compressed.clone() }
                else if scenario == "trailer_ok" || scenario == "trailer_reject" { complete[..n - 8].to_vec() } else { complete.clone() };
            let res: Result<(), String> = match puller {
                "pull_to_file" => Client::connect(addr).map_err(|e| e.to_string()).and_then(|c| svs::pull_to_file(&c, resource, &dest).map_err(|e| e.to_string())),
                "beve_file" => Client::connect(addr).map_err(|e| e.to_string()).and_then(|c| svs::pull_to_beve_file(&c, resource, &dest).map_err(|e| e.to_string())),
                "beve_zst_file" => Client::connect(addr).map_err(|e| e.to_string()).and_then(|c| svs::pull_to_beve_zst_file(&c, resource, &dest).map_err(|e| e.to_string())),
                "pull_to_file_async" => rt.block_on(async { let c = AsyncClient::connect(addr).await.map_err(|e| e.to_string())?; svs::pull_to_file_async(&c, resource, &dest).await.map(|_| ()).map_err(|e| e.to_string()) }),
                "verified_reject" | "verified_accept" => rt.block_on(async {
                    let c = AsyncClient::connect(addr).await.map_err(|e| e.to_string())?;
                    let seen = Arc::new(AtomicUsize::new(0));
                    let accept = puller == "verified_accept";
                    svs::pull_to_file_verified_async(&c, resource, &dest, CountDigest(seen.clone()), move |_d| if accept { Ok(()) } else { Err(RepeError::Io(std::io::Error::other("digest mismatch"))) }).await.map_err(|e| e.to_string())
                }),
                "trailer" | "trailer_reject" | "trailer_too_long" => Client::connect(addr).map_err(|e| e.to_string()).and_then(|c| {
                    let tl = if puller == "trailer_too_long" { n + 5 } else { 8 };
                    let reject = puller == "trailer_reject";
                    svs::pull_to_file_trailer_verified(&c, resource, &dest, tl, CountDigest(Arc::new(AtomicUsize::new(0))), move |_d, _t| if reject { Err(RepeError::Io(std::io::Error::other("trailer mismatch"))) } else { Ok(()) }).map_err(|e| e.to_string())
                }),
                "trailer_async" | "trailer_async_reject" | "trailer_async_too_long" => rt.block_on(async {
                    let c = AsyncClient::connect(addr).await.map_err(|e| e.to_string())?;
                    let tl = if puller == "trailer_async_too_long" { n + 5 } else { 8 };
                    let reject = puller == "trailer_async_reject";
                    svs::pull_to_file_trailer_verified_async(&c, resource, &dest, tl, CountDigest(Arc::new(AtomicUsize::new(0))), move |_d, _t| if reject { Err(RepeError::Io(std::io::Error::other("trailer mismatch"))) } else { Ok(()) }).await.map_err(|e| e.to_string())
                }),
                _ => Err("?".into()),
            };
            std::thread::sleep(Duration::from_millis(5));
            out.push(&json!({"ev": "commit", "scenario": scenario, "fault": fault, "puller": puller, "comp": compu, "pre": if pre_exists { "old" } else { "absent" },
                             "ok": res.is_ok(), "err": res.err().unwrap_or_default().chars().take(80).collect::<String>(),
                             "dest": classify_file(&dest, &old, &want_complete), "tmp_exists": tmp_of(&dest).exists(), "killed": false}));
            let _ = std::fs::remove_file(&dest);
            let _ = std::fs::remove_file(tmp_of(&dest));
        };
        for pre in [false, true] {
            for puller in ["pull_to_file", "pull_to_file_async"] {
                // the happy path publishes exactly the complete content
                run("complete", json!("none"), pre, puller, srv.addr, &format!("n={n},w=7.3,fail=-1,ps=0"), &mut out); cases += 1;
                // producer failure after every chunk boundary +- 1, at 0 and at n-1
                let mut fails: Vec<usize> = vec![0, 1, n - 1];
                for k in 1..=(n / chunk) { for d in [-1i64, 0, 1] { let v = (k * chunk) as i64 + d; if v > 0 && (v as usize) < n { fails.push(v as usize); } } }
                fails.sort(); fails.dedup();
                for f in fails { run("producer_failure", json!(f), pre, puller, srv.addr, &format!("n={n},w=7.3,fail={f},ps=0"), &mut out); cases += 1; }
                // connection cut after the k-th response (open is response 1)
                for k in 0..=(n / chunk + 2) { let p = proxy(srv.addr, k); run("connection_cut", json!(k), pre, puller, p, &format!("n={n},w=7.3,fail=-1,ps=0"), &mut out); cases += 1; }
            }
            // a byte-source producer whose read fails once mid-block and then reports end-of-file
            for puller in ["pull_to_file", "pull_to_file_async"] {
                for f in [1usize, 7, 17, 33, 49] { run("producer_failure", json!(format!("reader-once@{f}")), pre, puller, rsrv.addr, &format!("n={n},w=5,fail={f},ps=0,once=1"), &mut out); cases += 1; }
            }
            if let Some(b) = &bsrv {
                let res = format!("n={n},w=1,fail=-1,ps=0");
                let nchunks = beve_compressed.len() / chunk + 3;
                for puller in ["beve_file", "beve_zst_file"] {
                    run("complete", json!("none"), pre, puller, b.addr, &res, &mut out); cases += 1;
                    for k in 0..=nchunks { let p = proxy(b.addr, k); run("connection_cut", json!(k), pre, puller, p, &res, &mut out); cases += 1; }
                }
            }
            run("verifier_accepts", json!("none"), pre, "verified_accept", srv.addr, &format!("n={n},w=5,fail=-1,ps=0"), &mut out); cases += 1;
            run("verifier_rejects", json!("none"), pre, "verified_reject", srv.addr, &format!("n={n},w=5,fail=-1,ps=0"), &mut out); cases += 1;
            run("trailer_ok", json!("none"), pre, "trailer", srv.addr, &format!("n={n},w=5,fail=-1,ps=0"), &mut out); cases += 1;
            run("trailer_reject", json!("none"), pre, "trailer_reject", srv.addr, &format!("n={n},w=5,fail=-1,ps=0"), &mut out); cases += 1;
            run("trailer_too_long", json!("none"), pre, "trailer_too_long", srv.addr, &format!("n={n},w=5,fail=-1,ps=0"), &mut out); cases += 1;
            run("trailer_ok", json!("none"), pre, "trailer_async", srv.addr, &format!("n={n},w=5,fail=-1,ps=0"), &mut out); cases += 1;
            run("trailer_reject", json!("none"), pre, "trailer_async_reject", srv.addr, &format!("n={n},w=5,fail=-1,ps=0"), &mut out); cases += 1;
            run("trailer_too_long", json!("none"), pre, "trailer_async_too_long", srv.addr, &format!("n={n},w=5,fail=-1,ps=0"), &mut out); cases += 1;
            for f in [0usize, 17, 41, 43, 49] { for p in ["trailer", "trailer_async", "verified_accept"] { run("producer_failure", json!(f), pre, p, srv.addr, &format!("n={n},w=7.3,fail={f},ps=0"), &mut out); cases += 1; } }
        }
        // a value-decoding pull on a truncated stream must return an error, never a value
        let vsrv = start("typed", opts, &rt);
        for k in 1..=3usize {
            let p = proxy(vsrv.addr, k);
            let r = Client::connect(p).ok().map(|c| svs::pull_typed_slice::<f64>(&c, "n=40,w=1,fail=-1,ps=0").is_ok());
            out.push(&json!({"ev": "decode", "scenario": "connection_cut", "fault": k, "comp": compu, "returned_value": r.unwrap_or(false)}));
            cases += 1;
        }
        // ---- syscall-level traces and process death: the child pulls under strace; every syscall touching the
        // temp or destination path is logged, and a SIGKILL is injected at each of them in turn
        if !a.flag("no-kill") {
            let thorough = a.flag("thorough");
            for pre in [false, true] {
                for puller in ["pull_to_file", "pull_to_file_async", "verified", "trailer", "trailer_async"] {
                    let mut scen: Vec<(&str, String, bool)> = vec![("complete", format!("n={n},w=7.3,fail=-1,ps=0"), false), ("producer_failure", format!("n={n},w=7.3,fail=33,ps=0"), false)];
                    if thorough { for f in [0usize, 16, 17, 49] { scen.push(("producer_failure", format!("n={n},w=7.3,fail={f},ps=0"), false)); } }
                    if puller != "pull_to_file" && puller != "pull_to_file_async" { scen.push(("verifier_rejects", format!("n={n},w=5,fail=-1,ps=0"), true)); }
                    for (scenario, resource, reject) in scen {
                        let want_len = if puller.starts_with("trailer") { n - 8 } else { n };
                        // inject: (syscall, n-th call of that kind on the two paths, what strace does to it): a SIGKILL on entry, or
                        // the call is not executed and returns an error (a local I/O failure: disk full, I/O error)
                        let mut sysrun = |inject: Option<(String, usize, &'static str)>, out: &mut util::NdJson| -> Vec<(String, usize)> {
                            case_id += 1;
                            let dest = dir.join(format!("kdest-{case_id}.bin"));
                            let tmp = tmp_of(&dest);
                            let log = dir.join(format!("strace-{case_id}.log"));
                            let _ = std::fs::remove_file(&dest);
                            let _ = std::fs::remove_file(&tmp);
                            if pre { std::fs::write(&dest, &old).unwrap(); }
                            let stale = inject.is_none() && scenario == "complete" && case_id % 2 == 0;
                            if stale { std::fs::write(&tmp, vec![0x5A; 4 * n]).unwrap(); }
                            let mut cmd = std::process::Command::new("strace");
                            cmd.args(["-f", "-y", "-o", log.to_str().unwrap(), "-P", tmp.to_str().unwrap(), "-P", dest.to_str().unwrap(), "-e", SYS_TRACE]);
                            if let Some((call, when, act)) = &inject { cmd.args(["-e", &format!("inject={call}:{act}:when={when}")]); }
                            cmd.arg(&exe).args(["vs-pull-child", "--addr", &srv.addr.to_string(), "--resource", &resource, "--dest", dest.to_str().unwrap(), "--puller", puller]);
                            if reject { cmd.arg("--reject"); }
                            let st = cmd.stdout(std::process::Stdio::null()).stderr(std::process::Stdio::null()).status();
                            use std::os::unix::process::ExitStatusExt;
                            let Ok(st) = st else { out.push(&json!({"ev": "tool_error", "what": "strace could not be run"})); return vec![]; };
                            let killed = st.signal().is_some() || st.code() == Some(137);
                            let io_error = inject.as_ref().map(|(_, _, act)| act.starts_with("error=")).unwrap_or(false);
                            let fault = inject.as_ref().map(|(c, w, act)| if act.starts_with("error=") { format!("{c}#{w}!{}", &act[6..]) } else { format!("{c}#{w}") }).unwrap_or("none".into());
                            out.push(&json!({"ev": "begin", "scenario": scenario, "fault": fault, "puller": puller, "comp": compu, "pre": if pre { "old" } else { "absent" }, "resource": resource, "stale_tmp": stale}));
                            let calls = parse_strace(&std::fs::read_to_string(&log).unwrap_or_default(), tmp.to_str().unwrap(), dest.to_str().unwrap(), want_len, out);
                            let tmpc = match std::fs::read(&tmp) { Err(_) => "absent", Ok(b) if b.is_empty() => "empty", Ok(b) if b == complete[..want_len] => "complete", Ok(b) if complete.starts_with(&b) => "partial", Ok(_) => "other" };
                            out.push(&json!({"ev": "end", "scenario": scenario, "fault": fault, "puller": puller, "comp": compu, "pre": if pre { "old" } else { "absent" },
                                             "ok": st.success(), "killed": killed, "dest": classify_file(&dest, &old, &complete[..want_len]), "tmp": tmpc,
                                             "must": if scenario == "complete" && !io_error { "succeed" } else { "fail" }}));
                            let _ = std::fs::remove_file(&dest);
                            let _ = std::fs::remove_file(&tmp);
                            if !a.flag("keep-logs") { let _ = std::fs::remove_file(&log); }
                            calls
                        };
                        let calls = sysrun(None, &mut sysout); cases += 1;
                        // kill at every syscall the unkilled run made on those paths (n-th call of its kind)
                        let mut seen: std::collections::BTreeMap<String, usize> = Default::default();
                        let mut points: Vec<(String, usize)> = vec![];
                        for (c, _) in &calls { let k = seen.entry(c.clone()).or_insert(0); *k += 1; points.push((c.clone(), *k)); }
                        let cap = a.usize("kill-points", 64);
                        for (i, pt) in points.into_iter().enumerate() {
                            if i >= cap { break; }
                            if !thorough && scenario != "complete" && !(pt.0 == "unlink" || pt.0 == "unlinkat" || i == 1) { continue; }
                            sysrun(Some((pt.0.clone(), pt.1, "signal=KILL")), &mut sysout); cases += 1;
                            // the same call failing instead (disk full on a write, an I/O error on the sync, a failing rename): the
                            // pull must fail and leave the destination as it was
                            if scenario == "complete" {
                                let err = match pt.0.as_str() { "write" | "pwrite64" | "writev" => Some("error=ENOSPC"), "fsync" | "fdatasync" => Some("error=EIO"), "rename" | "renameat" | "renameat2" => Some("error=EXDEV"), _ => None };
                                if let Some(err) = err { sysrun(Some((pt.0, pt.1, err)), &mut sysout); cases += 1; }
                            }
                        }
                    }
                }
            }
        }
    }
    out.finish();
    sysout.finish();
    util::write_json(&a.str("summary", "/dev/null"), &json!({"cases": cases}));
    rt.shutdown_timeout(Duration::from_secs(1));
    0
}

const SYS_TRACE: &str = "trace=openat,open,creat,write,pwrite64,writev,fsync,fdatasync,rename,renameat,renameat2,unlink,unlinkat,close,ftruncate,truncate,link,linkat,symlink,symlinkat";

/// Turn an `strace -f -y -P tmp -P dest` log into one "sys" event per completed syscall; returns (syscall, index) list.
fn parse_strace(log: &str, tmp: &str, dest: &str, want_len: usize, out: &mut util::NdJson) -> Vec<(String, usize)> {
    let mut partial: std::collections::HashMap<String, String> = Default::default();
    let mut cum = 0usize;
    let mut calls = vec![];
    for line in log.lines() {
        let Some((pid, rest)) = line.split_once(' ') else { continue };
        let mut rest = rest.trim_start().to_string();
        if rest.starts_with("+++") || rest.starts_with("---") { continue; }
        if rest.ends_with("<unfinished ...>") { partial.insert(pid.to_string(), rest.trim_end_matches("<unfinished ...>").to_string()); continue; }
        if rest.starts_with("<...") {
            let Some(p) = partial.remove(pid) else { continue };
            let after = rest.split_once("resumed>").map(|x| x.1).unwrap_or("").to_string();
            rest = p + &after;
        }
        let Some(paren) = rest.find('(') else { continue };
        let name = rest[..paren].to_string();
        let ret = rest.rsplit_once(" = ").map(|x| x.1.trim().to_string()).unwrap_or_default();
        let retn: Option<i64> = { let t: String = ret.chars().enumerate().take_while(|(i, c)| c.is_ascii_digit() || (*i == 0 && *c == '-')).map(|x| x.1).collect(); t.parse().ok() };
        let args = &rest[paren + 1..rest.rfind(" = ").unwrap_or(rest.len())];
        let on_tmp_fd = args.contains(&format!("<{tmp}>"));
        let on_dest_fd = args.contains(&format!("<{dest}>"));
        let q_tmp = args.contains(&format!("\"{tmp}\""));
        let q_dest = args.contains(&format!("\"{dest}\""));
        if retn.is_none() { continue; } // "= ?": the kill landed on entering this call; it did not execute
        calls.push((name.clone(), calls.len()));
        let failed = retn.unwrap() < 0;
        let what = match name.as_str() {
            "openat" | "open" | "creat" if q_tmp && !failed && (args.contains("O_CREAT") || name == "creat") => "create_tmp",
            "write" | "pwrite64" | "writev" if on_tmp_fd && !failed => { cum += retn.unwrap() as usize; "write_tmp" }
            "fsync" | "fdatasync" if on_tmp_fd && !failed => "sync_tmp",
            "close" if on_tmp_fd => "close_tmp",
            "rename" | "renameat" | "renameat2" if q_tmp && q_dest && !failed && args.find(&format!("\"{tmp}\"")) < args.find(&format!("\"{dest}\"")) => "rename",
            "unlink" | "unlinkat" if q_tmp && !q_dest && !failed => "unlink_tmp",
            "unlink" | "unlinkat" if q_tmp && failed => "noop",
            "write" | "pwrite64" | "writev" | "fsync" | "fdatasync" if on_tmp_fd && failed => "io_failed",
            "rename" | "renameat" | "renameat2" if q_tmp && q_dest && failed => "io_failed",
            _ => "other",
        };
        let _ = on_dest_fd;
        out.push(&json!({"ev": "sys", "what": what, "cum": cum, "full": cum == want_len, "over": cum > want_len, "call": rest.chars().take(160).collect::<String>()}));
    }
    calls
}

pub fn pull_child(a: &Args) -> i32 {
    let addr: std::net::SocketAddr = a.req("addr").parse().unwrap();
    let dest = PathBuf::from(a.req("dest"));
    let resource = a.req("resource");
    let reject = a.flag("reject");
    let puller = a.str("puller", "pull_to_file");
    let verdict = move || if reject { Err(RepeError::Io(std::io::Error::other("rejected"))) } else { Ok(()) };
    let r: Result<(), String> = match puller.as_str() {
        "pull_to_file" => { let c = Client::connect(addr).unwrap(); svs::pull_to_file(&c, &resource, &dest).map_err(|e| e.to_string()) }
        "trailer" => { let c = Client::connect(addr).unwrap(); svs::pull_to_file_trailer_verified(&c, &resource, &dest, 8, CountDigest(Arc::new(AtomicUsize::new(0))), move |_d, _t| verdict()).map_err(|e| e.to_string()) }
        _ => {
            let rt = tokio::runtime::Builder::new_multi_thread().worker_threads(2).enable_all().build().unwrap();
            rt.block_on(async {
                let c = AsyncClient::connect(addr).await.map_err(|e| e.to_string())?;
                match puller.as_str() {
                    "pull_to_file_async" => svs::pull_to_file_async(&c, &resource, &dest).await.map(|_| ()).map_err(|e| e.to_string()),
                    "verified" => svs::pull_to_file_verified_async(&c, &resource, &dest, CountDigest(Arc::new(AtomicUsize::new(0))), move |_d| verdict()).await.map_err(|e| e.to_string()),
                    "trailer_async" => svs::pull_to_file_trailer_verified_async(&c, &resource, &dest, 8, CountDigest(Arc::new(AtomicUsize::new(0))), move |_d, _t| verdict()).await.map_err(|e| e.to_string()),
                    _ => Err("unknown puller".into()),
                }
            })
        }
    };
    match r { Ok(()) => 0, Err(_) => 3 }
}
