//! C01 / C02 engine: the wire codec against spec/RepeWire.tla.
//!
//! `wire-exec`  : executes parse cases (buffers) on every parsing / stream-reading entry
//!                point in a CHILD process (`wire-child`), so that a panic is data and an abort
//!                (e.g. an impossible allocation) is attributed to the case being run.
//!                Cases come from TLC's VEC lines (with the verdicts the specification expects)
//!                and/or a random generator (byte strings <= 4 KiB, mutations of valid frames);
//!                results are compared with the expected verdicts and written as trace events
//!                for Trace_RepeWire.
//! `wire-c01`   : replays TLC's layout vectors through every emission route and every parser,
//!                and records random full-range frames for Trace_RepeWire.

use crate::util::{self, Args};
use rand::rngs::StdRng;
use rand::{Rng, SeedableRng};
use repe::{Header, Message, MessageView};
use serde_json::{json, Value};
use std::io::{BufRead, Write};

const ENTRIES: [&str; 11] = ["header", "slice", "slice_view", "exact", "exact_view", "read", "read_into", "read_async", "read_into_async", "read_into_reused", "read_into_async_reused"];

/// a buffer as a connection loop has it after two earlier frames (it grew once, then again): capacity > len is possible
fn warmed_buffer(rt: &tokio::runtime::Runtime, asynchronous: bool) -> Vec<u8> {
    let mut v = Vec::new();
    for n in [16usize, 100] {
        let f = Message::builder().id(1).query_str("/warm").body_bytes(vec![7u8; n]).build().to_vec();
        if asynchronous { rt.block_on(async { repe::async_io::read_message_into_async(&mut &f[..], &mut v).await }).unwrap(); }
        else { repe::read_message_into(&mut std::io::Cursor::new(&f), &mut v).unwrap(); }
    }
    v
}

fn filler(i: usize) -> u8 {
    ((i * 7 + 3) & 0xff) as u8
}

/// (outcome, query (off,len), body (off,len)) ; offsets are relative to the start of `buf`
type Out = (String, (usize, usize), (usize, usize), String);

fn locate(buf: &[u8], part: &[u8], at: usize) -> bool {
    buf.len() >= at + part.len() && &buf[at..at + part.len()] == part
}

fn run_entry(entry: &str, buf: &[u8], rt: &tokio::runtime::Runtime) -> Out {
    let r = std::panic::catch_unwind(|| -> Result<(Vec<u8>, Vec<u8>), String> {
        match entry {
            "header" => Header::decode(buf).map(|_| (vec![], vec![])).map_err(|e| format!("{e:?}")),
            "slice" => Message::from_slice(buf).map(|m| (m.query, m.body)).map_err(|e| format!("{e:?}")),
            "exact" => Message::from_slice_exact(buf).map(|m| (m.query, m.body)).map_err(|e| format!("{e:?}")),
            "slice_view" => MessageView::from_slice(buf).map(|m| (m.query.to_vec(), m.body.to_vec())).map_err(|e| format!("{e:?}")),
            "exact_view" => MessageView::from_slice_exact(buf).map(|m| (m.query.to_vec(), m.body.to_vec())).map_err(|e| format!("{e:?}")),
            "read" => repe::read_message(&mut std::io::Cursor::new(buf)).map(|m| (m.query, m.body)).map_err(|e| format!("{e:?}")),
            "read_into" => {
                let mut v = Vec::new();
                repe::read_message_into(&mut std::io::Cursor::new(buf), &mut v).map_err(|e| format!("{e:?}"))?;
                MessageView::from_slice_exact(&v).map(|m| (m.query.to_vec(), m.body.to_vec())).map_err(|e| format!("reader returned Ok but the frame does not parse: {e:?}"))
            }
            "read_async" => rt.block_on(async { repe::async_io::read_message_async(&mut &buf[..]).await }).map(|m| (m.query, m.body)).map_err(|e| format!("{e:?}")),
            "read_into_async" => {
                let mut v = Vec::new();
                rt.block_on(async { repe::async_io::read_message_into_async(&mut &buf[..], &mut v).await }).map_err(|e| format!("{e:?}"))?;
                MessageView::from_slice_exact(&v).map(|m| (m.query.to_vec(), m.body.to_vec())).map_err(|e| format!("reader returned Ok but the frame does not parse: {e:?}"))
            }
            "read_into_reused" => {
                let mut v = warmed_buffer(rt, false);
                repe::read_message_into(&mut std::io::Cursor::new(buf), &mut v).map_err(|e| format!("{e:?}"))?;
                MessageView::from_slice_exact(&v).map(|m| (m.query.to_vec(), m.body.to_vec())).map_err(|e| format!("reader returned Ok but the frame does not parse: {e:?}"))
            }
            "read_into_async_reused" => {
                let mut v = warmed_buffer(rt, true);
                rt.block_on(async { repe::async_io::read_message_into_async(&mut &buf[..], &mut v).await }).map_err(|e| format!("{e:?}"))?;
                MessageView::from_slice_exact(&v).map(|m| (m.query.to_vec(), m.body.to_vec())).map_err(|e| format!("reader returned Ok but the frame does not parse: {e:?}"))
            }
            other => panic!("entry {other}"),
        }
    });
    match r {
        Err(p) => {
            let msg = p.downcast_ref::<String>().cloned().or_else(|| p.downcast_ref::<&str>().map(|s| s.to_string())).unwrap_or_default();
            ("panic".into(), (0, 0), (0, 0), msg.chars().take(120).collect())
        }
        Ok(Err(e)) => ("err".into(), (0, 0), (0, 0), e.chars().take(80).collect()),
        Ok(Ok((q, b))) => {
            if entry == "header" {
                return ("ok".into(), (0, 0), (0, 0), String::new());
            }
            // the returned query and body must be exactly the input bytes at 48 and 48+|q|
            let qo = 48;
            let bo = 48 + q.len();
            if locate(buf, &q, qo) && locate(buf, &b, bo) {
                ("ok".into(), (qo, q.len()), (bo, b.len()), String::new())
            } else {
                ("ok_wrong_bytes".into(), (qo, q.len()), (bo, b.len()), "returned query/body are not the corresponding input bytes".into())
            }
        }
    }
}

/// Is the stream entry within the property's quantifier for this buffer? (declared size <= 16 MiB or >= 2^62)
fn stream_in_scope(buf: &[u8]) -> bool {
    if buf.len() < 48 {
        return true;
    }
    let q = u64::from_le_bytes(buf[24..32].try_into().unwrap());
    let b = u64::from_le_bytes(buf[32..40].try_into().unwrap());
    let small = |x: u64| x <= 16 << 20;
    let huge = |x: u64| x >= 1 << 62;
    (small(q) || huge(q)) && (small(b) || huge(b)) && (small(q.saturating_add(b)) || huge(q.saturating_add(b)))
}

/// child: `wire-child --cases f --results f --progress f --start i`
pub fn child(a: &Args) -> i32 {
    std::panic::set_hook(Box::new(|_| {}));
    let start = a.usize("start", 0);
    let f = std::fs::File::open(a.req("cases")).unwrap();
    let mut res = std::fs::OpenOptions::new().create(true).append(true).open(a.req("results")).unwrap();
    let progress = a.req("progress");
    let rt = tokio::runtime::Builder::new_current_thread().enable_all().build().unwrap();
    for (i, line) in std::io::BufReader::new(f).lines().enumerate() {
        if i < start {
            continue;
        }
        let line = line.unwrap();
        let buf: Vec<u8> = (0..line.len() / 2).map(|k| u8::from_str_radix(&line[2 * k..2 * k + 2], 16).unwrap()).collect();
        let mut outl = String::new();
        for e in ENTRIES {
            if e.starts_with("read") && !stream_in_scope(&buf) {
                continue;
            }
            // progress goes down a pipe (cheap); the parent keeps the last line it saw
            {
                let mut so = std::io::stdout().lock();
                let _ = writeln!(so, "{i} {e}");
                let _ = so.flush();
            }
            let (o, q, b, msg) = run_entry(e, &buf, &rt);
            outl.push_str(&json!({"i": i, "e": e, "o": o, "q": [q.0, q.1], "b": [b.0, b.1], "m": msg}).to_string());
            outl.push('\n');
        }
        res.write_all(outl.as_bytes()).unwrap();
    }
    let _ = &progress;
    println!("done");
    0
}

fn hexs(b: &[u8]) -> String {
    util::hex(b)
}

fn gen_random(rng: &mut StdRng) -> Vec<u8> {
    let valid = |rng: &mut StdRng| -> Vec<u8> {
        let q: Vec<u8> = (0..rng.gen_range(0..40)).map(|_| rng.r#gen()).collect();
        let bmax = if rng.gen_bool(0.1) { 3000 } else { 100 };
        let b: Vec<u8> = (0..rng.gen_range(0..bmax)).map(|_| rng.r#gen()).collect();
        let mut h = Header::new();
        h.id = rng.r#gen();
        h.notify = rng.gen_range(0..2);
        h.query_format = rng.gen_range(0..4);
        h.body_format = rng.gen_range(0..5);
        h.ec = if rng.gen_bool(0.2) { rng.r#gen() } else { 0 };
        h.reserved = if rng.gen_bool(0.2) { rng.r#gen() } else { 0 };
        h.query_length = q.len() as u64;
        h.body_length = b.len() as u64;
        h.length = 48 + h.query_length + h.body_length;
        let mut v = h.encode().to_vec();
        v.extend(&q);
        v.extend(&b);
        v
    };
    match rng.gen_range(0..10) {
        0 => (0..rng.gen_range(0..4096)).map(|_| rng.r#gen()).collect(), // fully random
        1 => {
            // random with good magic
            let mut v: Vec<u8> = (0..rng.gen_range(48..300)).map(|_| rng.r#gen()).collect();
            v[8] = 0x07;
            v[9] = 0x15;
            v
        }
        2 => valid(rng),
        3 => {
            // truncated / extended valid frame
            let mut v = valid(rng);
            if rng.gen_bool(0.5) {
                v.truncate(rng.gen_range(0..=v.len()));
            } else {
                v.extend((0..rng.gen_range(1..20)).map(|_| 0xEEu8));
            }
            v
        }
        _ => {
            // structured mutation of a length field (or another header field) of a valid frame
            let mut v = valid(rng);
            let n = v.len() as u64;
            let field = [0usize, 24, 32][rng.gen_range(0..3)];
            let cur = u64::from_le_bytes(v[field..field + 8].try_into().unwrap());
            let new = match rng.gen_range(0..12) {
                0 => 0,
                1 => cur.wrapping_add(1),
                2 => cur.wrapping_sub(1),
                3 => n,
                4 => 1 << 31,
                5 => 1 << 32,
                6 => 1 << 62,
                7 => 1 << 63,
                8 => u64::MAX - rng.gen_range(0..60),
                9 => u64::MAX,
                10 => rng.r#gen(),
                _ => cur ^ (1 << rng.gen_range(0..64)),
            };
            v[field..field + 8].copy_from_slice(&new.to_le_bytes());
            if rng.gen_bool(0.3) {
                // make the total consistent with the (possibly wrapped) sum, to reach the "looks consistent" class
                let q = u64::from_le_bytes(v[24..32].try_into().unwrap());
                let b = u64::from_le_bytes(v[32..40].try_into().unwrap());
                v[0..8].copy_from_slice(&48u64.wrapping_add(q).wrapping_add(b).to_le_bytes());
            }
            if rng.gen_bool(0.1) {
                let k = rng.gen_range(8..48);
                v[k] ^= 1 << rng.gen_range(0..8);
            }
            v
        }
    }
}

/// parent: build the case file, run the child (restarting after aborts), compare / record.
pub fn exec(a: &Args) -> i32 {
    let work = a.req("work");
    let cases_path = format!("{work}/cases.hex");
    let results_path = format!("{work}/results.ndjson");
    let progress_path = format!("{work}/progress");
    let _ = std::fs::remove_file(&results_path);
    let mut cases: Vec<Vec<u8>> = vec![];
    let mut expected: Vec<Option<Value>> = vec![];
    if let Some(vecfile) = a.get("vectors") {
        for v in util::tlc_tagged_json(&vecfile, "VEC") {
            if v.get("hb").is_none() {
                continue;
            }
            let hb: Vec<u8> = v["hb"].as_array().unwrap().iter().map(|x| x.as_u64().unwrap() as u8).collect();
            let n = v["buflen"].as_u64().unwrap() as usize;
            let mut buf: Vec<u8> = hb.iter().copied().take(n).collect();
            while buf.len() < n {
                buf.push(filler(buf.len()));
            }
            cases.push(buf);
            expected.push(Some(v));
        }
    }
    let nrand = a.usize("random", 0);
    let mut rng = StdRng::seed_from_u64(a.u64("seed", 1));
    for _ in 0..nrand {
        cases.push(gen_random(&mut rng));
        expected.push(None);
    }
    {
        let mut f = std::io::BufWriter::new(std::fs::File::create(&cases_path).unwrap());
        for c in &cases {
            writeln!(f, "{}", hexs(c)).unwrap();
        }
    }
    // run the child, restarting after a crash
    let exe = std::env::current_exe().unwrap();
    let mut start = 0usize;
    let mut crashes: Vec<Value> = vec![];
    loop {
        let mut ch = std::process::Command::new(&exe)
            .args(["wire-child", "--cases", &cases_path, "--results", &results_path, "--progress", &progress_path, "--start", &start.to_string()])
            .stdout(std::process::Stdio::piped())
            .stderr(std::process::Stdio::null())
            .spawn()
            .unwrap();
        let mut prog = String::new();
        for l in std::io::BufReader::new(ch.stdout.take().unwrap()).lines() {
            prog = l.unwrap_or_default();
        }
        let st = ch.wait().unwrap();
        if st.success() && prog == "done" {
            break;
        }
        // the child died: attribute it to the case and entry it was running
        let mut it = prog.split_whitespace();
        let i: usize = it.next().and_then(|x| x.parse().ok()).unwrap_or(start);
        let e = it.next().unwrap_or("?").to_string();
        use std::os::unix::process::ExitStatusExt;
        crashes.push(json!({"i": i, "e": e, "signal": st.signal(), "code": st.code()}));
        if crashes.len() > 2000 {
            break;
        }
        start = i + 1;
        if start >= cases.len() {
            break;
        }
    }
    // read results
    let mut by_case: Vec<Vec<Value>> = vec![vec![]; cases.len()];
    if let Ok(f) = std::fs::File::open(&results_path) {
        for l in std::io::BufReader::new(f).lines() {
            let v: Value = serde_json::from_str(&l.unwrap()).unwrap();
            by_case[v["i"].as_u64().unwrap() as usize].push(v);
        }
    }
    for c in &crashes {
        let i = c["i"].as_u64().unwrap() as usize;
        by_case[i].push(json!({"i": i, "e": c["e"], "o": "abort", "q": [0, 0], "b": [0, 0], "m": format!("process died: signal {:?} exit code {:?}", c["signal"], c["code"])}));
    }
    // compare with the specification's verdicts (TLC vectors) and write the trace for the random cases
    let family = |e: &str| match e {
        "header" => "header",
        "slice" | "slice_view" => "slice",
        "exact" | "exact_view" => "exact",
        _ => "stream",
    };
    let mut failures: Vec<Value> = vec![];
    let mut fail_counts = std::collections::BTreeMap::<String, u64>::new();
    let mut evaluations = 0u64;
    let mut classes = std::collections::HashSet::new();
    let mut trace = util::NdJson::create(&a.req("trace"));
    let mut drift = std::collections::BTreeMap::<String, u64>::new();
    for (i, rs) in by_case.iter().enumerate() {
        for r in rs {
            evaluations += 1;
            let e = r["e"].as_str().unwrap();
            let o = r["o"].as_str().unwrap();
            let hb: Vec<u8> = cases[i].iter().copied().take(48).collect();
            if let Some(exp) = &expected[i] {
                let want = exp[family(e)].as_str().unwrap();
                classes.insert(format!("{e}:{want}"));
                let want_ok = want == "ok";
                let mut bad = None;
                if o == "panic" || o == "abort" || o == "ok_wrong_bytes" {
                    bad = Some(format!("{o}: {}", r["m"].as_str().unwrap_or("")));
                } else if (o == "ok") != want_ok {
                    bad = Some(format!("returned {o} ({}), specification verdict {want}", r["m"].as_str().unwrap_or("")));
                } else if want_ok && e != "header" && family(e) != "stream" {
                    let rg = &exp["regions"];
                    if r["q"] != json!([rg["qoff"], rg["qlen"]]) || r["b"] != json!([rg["boff"], rg["blen"]]) {
                        bad = Some(format!("query/body regions {} {} differ from the specification's {}", r["q"], r["b"], rg));
                    }
                }
                if let Some(b) = bad {
                    let cls = if o == "panic" { "panic" } else if o == "abort" { "abort" } else { "verdict" };
                    let key = format!("{cls}:{e}");
                    let cnt = fail_counts.entry(key).or_insert(0u64);
                    *cnt += 1;
                    // keep a few examples of every (class, entry) pair
                    if *cnt <= 3 {
                        failures.push(json!({"entry": e, "outcome": o, "expected": want, "buflen": cases[i].len(), "header_bytes": hb, "what": b,
                                             "class": if o == "panic" { "panic" } else if o == "abort" { "abort" } else { "verdict" }}));
                    }
                } else if !want_ok {
                    // error KIND is not part of the property: record disagreement with the spec's reason as drift only
                    let _ = drift.entry(format!("{e}:{want}")).or_insert(0);
                }
            } else {
                trace.push(&json!({"ev": "parse", "hb": hb, "buflen": cases[i].len(), "entry": family(e), "route": e,
                                   "outcome": o, "qoff": r["q"][0], "qlen": r["q"][1], "boff": r["b"][0], "blen": r["b"][1], "case": i, "msg": r["m"]}));
            }
        }
    }
    trace.finish();
    util::write_json(&a.req("out"), &json!({
        "cases": cases.len(), "tlc_vectors": expected.iter().filter(|x| x.is_some()).count(), "random_cases": nrand,
        "evaluations": evaluations, "distinct_entry_verdict_classes": classes.len(), "crashes": crashes.len(),
        "failures": failures, "failure_counts": fail_counts,
        "sample": expected.iter().flatten().nth(1234).cloned(),
    }));
    0
}

// ---------------------------------------------------------------------------
// C01

fn header_of(f: &Value) -> Header {
    let by = |k: &str| -> Vec<u8> { f[k].as_array().unwrap().iter().map(|x| x.as_u64().unwrap() as u8).collect() };
    Header {
        length: u64::from_le_bytes(by("length").try_into().unwrap()),
        spec: u16::from_le_bytes(by("spec").try_into().unwrap()),
        version: by("version")[0],
        notify: by("notify")[0],
        reserved: u32::from_le_bytes(by("reserved").try_into().unwrap()),
        id: u64::from_le_bytes(by("id").try_into().unwrap()),
        query_length: u64::from_le_bytes(by("qlen").try_into().unwrap()),
        body_length: u64::from_le_bytes(by("blen").try_into().unwrap()),
        query_format: u16::from_le_bytes(by("qfmt").try_into().unwrap()),
        body_format: u16::from_le_bytes(by("bfmt").try_into().unwrap()),
        ec: u32::from_le_bytes(by("ec").try_into().unwrap()),
    }
}
fn fields_json(h: &Header) -> Value {
    json!({"length": h.length.to_le_bytes(), "spec": h.spec.to_le_bytes(), "version": [h.version], "notify": [h.notify],
           "reserved": h.reserved.to_le_bytes(), "id": h.id.to_le_bytes(), "qlen": h.query_length.to_le_bytes(), "blen": h.body_length.to_le_bytes(),
           "qfmt": h.query_format.to_le_bytes(), "bfmt": h.body_format.to_le_bytes(), "ec": h.ec.to_le_bytes()})
}

/// every emission route for (header, query, body): (route name, bytes)
/// a sink that accepts at most `step` bytes per write call (a socket with a small send buffer)
struct ShortSink { out: Vec<u8>, step: usize }
impl Write for ShortSink {
    fn write(&mut self, b: &[u8]) -> std::io::Result<usize> { let n = b.len().min(self.step); self.out.extend_from_slice(&b[..n]); Ok(n) }
    fn write_vectored(&mut self, bufs: &[std::io::IoSlice<'_>]) -> std::io::Result<usize> {
        let mut left = self.step; let mut n = 0;
        for b in bufs { let k = b.len().min(left); self.out.extend_from_slice(&b[..k]); left -= k; n += k; if left == 0 { break; } }
        Ok(n)
    }
    fn flush(&mut self) -> std::io::Result<()> { Ok(()) }
}
impl tokio::io::AsyncWrite for ShortSink {
    fn poll_write(mut self: std::pin::Pin<&mut Self>, _: &mut std::task::Context<'_>, b: &[u8]) -> std::task::Poll<std::io::Result<usize>> { std::task::Poll::Ready(Write::write(&mut *self, b)) }
    fn poll_write_vectored(mut self: std::pin::Pin<&mut Self>, _: &mut std::task::Context<'_>, bufs: &[std::io::IoSlice<'_>]) -> std::task::Poll<std::io::Result<usize>> { std::task::Poll::Ready(Write::write_vectored(&mut *self, bufs)) }
    fn is_write_vectored(&self) -> bool { true }
    fn poll_flush(self: std::pin::Pin<&mut Self>, _: &mut std::task::Context<'_>) -> std::task::Poll<std::io::Result<()>> { std::task::Poll::Ready(Ok(())) }
    fn poll_shutdown(self: std::pin::Pin<&mut Self>, _: &mut std::task::Context<'_>) -> std::task::Poll<std::io::Result<()>> { std::task::Poll::Ready(Ok(())) }
}
/// a source that returns at most `step` bytes per read call
struct ShortSource<'a> { data: &'a [u8], pos: usize, step: usize }
impl std::io::Read for ShortSource<'_> {
    fn read(&mut self, out: &mut [u8]) -> std::io::Result<usize> { let n = out.len().min(self.step).min(self.data.len() - self.pos); out[..n].copy_from_slice(&self.data[self.pos..self.pos + n]); self.pos += n; Ok(n) }
}
impl tokio::io::AsyncRead for ShortSource<'_> {
    fn poll_read(mut self: std::pin::Pin<&mut Self>, _: &mut std::task::Context<'_>, out: &mut tokio::io::ReadBuf<'_>) -> std::task::Poll<std::io::Result<()>> {
        let n = out.remaining().min(self.step).min(self.data.len() - self.pos);
        let (p, d) = (self.pos, self.data);
        out.put_slice(&d[p..p + n]); self.pos += n; std::task::Poll::Ready(Ok(()))
    }
}

fn emit_all(h: &Header, q: &[u8], b: &[u8], rt: &tokio::runtime::Runtime) -> Vec<(String, Result<Vec<u8>, String>)> {
    let msg = || Message { header: *h, query: q.to_vec(), body: b.to_vec() };
    let mut out: Vec<(String, Result<Vec<u8>, String>)> = vec![];
    let guard = |name: &str, f: &dyn Fn() -> Result<Vec<u8>, String>| -> (String, Result<Vec<u8>, String>) {
        let r = std::panic::catch_unwind(std::panic::AssertUnwindSafe(f));
        (name.to_string(), r.unwrap_or_else(|_| Err("panic".into())))
    };
    out.push(guard("to_vec", &|| Ok(msg().to_vec())));
    out.push(guard("write_to", &|| {
        let mut v = vec![];
        msg().write_to(&mut v).map_err(|e| e.to_string())?;
        Ok(v)
    }));
    let total = 48 + q.len() + b.len();
    for (name, cap) in [("into_wire_bytes_below", b.len()), ("into_wire_bytes_below1", total.saturating_sub(1).max(b.len())), ("into_wire_bytes_equal", total), ("into_wire_bytes_above", total + 1), ("into_wire_bytes_above64", total + 64)] {
        out.push(guard(name, &|| {
            let mut body = Vec::with_capacity(cap);
            body.extend_from_slice(b);
            body.shrink_to(cap);
            let m = Message { header: *h, query: q.to_vec(), body };
            Ok(m.into_wire_bytes())
        }));
    }
    out.push(guard("write_message", &|| {
        let mut v = vec![];
        repe::write_message(&mut v, &msg()).map_err(|e| e.to_string())?;
        Ok(v)
    }));
    out.push(guard("write_message_streaming", &|| {
        let mut v = vec![];
        // the streaming writer fills in the three length fields itself: hand it garbage there
        let mut hh = *h;
        hh.length = 0xDEAD;
        hh.query_length = 0xBEEF;
        hh.body_length = 7;
        repe::write_message_streaming(&mut v, hh, q, b.len() as u64, |w: &mut Vec<u8>| w.write_all(b)).map_err(|e| e.to_string())?;
        Ok(v)
    }));
    out.push(guard("write_message_async", &|| {
        let mut v: Vec<u8> = vec![];
        rt.block_on(async { repe::async_io::write_message_async(&mut v, &msg()).await }).map_err(|e| e.to_string())?;
        Ok(v)
    }));
    // the stream routes against sinks that take only a few bytes per call: the short write may end inside the header,
    // at its end, inside the query or inside the body
    for step in [1usize, 47, 49, 48 + q.len() + 1] {
        out.push(guard(&format!("write_to_short{step}"), &|| { let mut v = ShortSink { out: vec![], step }; msg().write_to(&mut v).map_err(|e| e.to_string())?; Ok(v.out) }));
        out.push(guard(&format!("write_message_short{step}"), &|| { let mut v = ShortSink { out: vec![], step }; repe::write_message(&mut v, &msg()).map_err(|e| e.to_string())?; Ok(v.out) }));
        out.push(guard(&format!("write_message_streaming_short{step}"), &|| {
            let mut v = ShortSink { out: vec![], step };
            repe::write_message_streaming(&mut v, *h, q, b.len() as u64, |w: &mut ShortSink| w.write_all(b)).map_err(|e| e.to_string())?;
            Ok(v.out)
        }));
        out.push(guard(&format!("write_message_async_short{step}"), &|| {
            let mut v = ShortSink { out: vec![], step };
            rt.block_on(async { repe::async_io::write_message_async(&mut v, &msg()).await }).map_err(|e| e.to_string())?;
            Ok(v.out)
        }));
    }
    out
}

/// every parser on a frame: names of the parsers whose result differs from (h, q, b)
fn parse_all(frame: &[u8], h: &Header, q: &[u8], b: &[u8], rt: &tokio::runtime::Runtime) -> Vec<String> {
    let mut bad = vec![];
    let mut chk = |name: &str, r: Result<(Header, Vec<u8>, Vec<u8>), String>| match r {
        Ok((hh, qq, bb)) if hh == *h && qq == q && bb == b => {}
        Ok((hh, _, _)) => bad.push(format!("{name}: parsed {hh:?}")),
        Err(e) => bad.push(format!("{name}: {e}")),
    };
    let g = |f: &dyn Fn() -> Result<(Header, Vec<u8>, Vec<u8>), String>| std::panic::catch_unwind(std::panic::AssertUnwindSafe(f)).unwrap_or_else(|_| Err("panic".into()));
    chk("Message::from_slice", g(&|| Message::from_slice(frame).map(|m| (m.header, m.query, m.body)).map_err(|e| e.to_string())));
    chk("Message::from_slice_exact", g(&|| Message::from_slice_exact(frame).map(|m| (m.header, m.query, m.body)).map_err(|e| e.to_string())));
    chk("MessageView::from_slice", g(&|| MessageView::from_slice(frame).map(|m| (m.header, m.query.to_vec(), m.body.to_vec())).map_err(|e| e.to_string())));
    chk("MessageView::from_slice_exact", g(&|| MessageView::from_slice_exact(frame).map(|m| (m.header, m.query.to_vec(), m.body.to_vec())).map_err(|e| e.to_string())));
    chk("MessageView::to_message", g(&|| MessageView::from_slice(frame).map(|v| { let m = v.to_message(); (m.header, m.query, m.body) }).map_err(|e| e.to_string())));
    chk("Message::serialized_len", g(&|| Message::from_slice(frame).map_err(|e| e.to_string()).and_then(|m| if m.serialized_len() == 48 + q.len() + b.len() && m.serialized_len() == m.to_vec().len() { Ok((m.header, m.query, m.body)) } else { Err(format!("serialized_len {} for a {}-byte frame", m.serialized_len(), m.to_vec().len())) })));
    chk("Header::decode", g(&|| Header::decode(frame).map(|hh| (hh, q.to_vec(), b.to_vec())).map_err(|e| e.to_string())));
    chk("read_message", g(&|| repe::read_message(&mut std::io::Cursor::new(frame)).map(|m| (m.header, m.query, m.body)).map_err(|e| e.to_string())));
    chk("read_message_into", g(&|| {
        let mut v = vec![0xAA; 5];
        repe::read_message_into(&mut std::io::Cursor::new(frame), &mut v).map_err(|e| e.to_string())?;
        if v != frame {
            return Err("buffer differs from the frame".into());
        }
        MessageView::from_slice_exact(&v).map(|m| (m.header, m.query.to_vec(), m.body.to_vec())).map_err(|e| e.to_string())
    }));
    chk("read_message_async", g(&|| rt.block_on(async { repe::async_io::read_message_async(&mut &frame[..]).await }).map(|m| (m.header, m.query, m.body)).map_err(|e| e.to_string())));
    chk("read_message_into_async", g(&|| {
        let mut v = vec![];
        rt.block_on(async { repe::async_io::read_message_into_async(&mut &frame[..], &mut v).await }).map_err(|e| e.to_string())?;
        MessageView::from_slice_exact(&v).map(|m| (m.header, m.query.to_vec(), m.body.to_vec())).map_err(|e| e.to_string())
    }));
    // sources that deliver a few bytes per call
    for step in [1usize, 47, 49] {
        chk(&format!("read_message_short{step}"), g(&|| repe::read_message(&mut ShortSource { data: frame, pos: 0, step }).map(|m| (m.header, m.query, m.body)).map_err(|e| e.to_string())));
        chk(&format!("read_message_into_short{step}"), g(&|| {
            let mut v = vec![];
            repe::read_message_into(&mut ShortSource { data: frame, pos: 0, step }, &mut v).map_err(|e| e.to_string())?;
            MessageView::from_slice_exact(&v).map(|m| (m.header, m.query.to_vec(), m.body.to_vec())).map_err(|e| e.to_string())
        }));
        chk(&format!("read_message_async_short{step}"), g(&|| rt.block_on(async { repe::async_io::read_message_async(&mut ShortSource { data: frame, pos: 0, step }).await }).map(|m| (m.header, m.query, m.body)).map_err(|e| e.to_string())));
        chk(&format!("read_message_into_async_short{step}"), g(&|| {
            let mut v = vec![];
            rt.block_on(async { repe::async_io::read_message_into_async(&mut ShortSource { data: frame, pos: 0, step }, &mut v).await }).map_err(|e| e.to_string())?;
            MessageView::from_slice_exact(&v).map(|m| (m.header, m.query.to_vec(), m.body.to_vec())).map_err(|e| e.to_string())
        }));
    }
    bad
}

fn keyed(n: usize, key: u64) -> Vec<u8> {
    let mut x = key.wrapping_mul(0x9E3779B97F4A7C15) | 1;
    (0..n).map(|_| { x ^= x << 13; x ^= x >> 7; x ^= x << 17; (x >> 24) as u8 }).collect()
}

/// the typed-array emission routes: the buffered builder and the streaming typed-slice writers must put the same frame
/// on the wire for the same slice, the empty one included
fn typed_route_failures() -> Vec<Value> {
    let mut bad = vec![];
    fn one<T: beve::BeveTypedSlice + Copy + std::fmt::Debug>(v: &[T], tag: &str, bad: &mut Vec<Value>) {
        let built = Message::builder().id(9).query_str("/t").body_typed_slice(v).build();
        let mut streamed = vec![];
        let mut h = Header::new();
        h.id = 9;
        if let Err(e) = repe::write_message_typed_slice(&mut streamed, h, b"/t", v) { bad.push(json!({"class": "layout", "route": "write_message_typed_slice", "what": format!("{tag} len {}: {e}", v.len())})); return; }
        let mut hb = built.clone();
        hb.header.query_format = Message::from_slice(&streamed).map(|m| m.header.query_format).unwrap_or(0);
        hb.header.body_format = Message::from_slice(&streamed).map(|m| m.header.body_format).unwrap_or(0);
        if Message::from_slice(&streamed).map(|m| m.body != built.body).unwrap_or(true) {
            bad.push(json!({"class": "layout", "route": "write_message_typed_slice", "what": format!("{tag} len {}: streamed body {:?} differs from the builder's {:?}", v.len(), Message::from_slice(&streamed).map(|m| m.body).ok(), built.body)}));
        }
    }
    for n in 0..5usize {
        one::<f64>(&vec![1.5; n], "f64", &mut bad);
        one::<i32>(&vec![-3; n], "i32", &mut bad);
        one::<u8>(&vec![200; n], "u8", &mut bad);
    }
    bad
}

pub fn c01(a: &Args) -> i32 {
    std::panic::set_hook(Box::new(|_| {}));
    let rt = tokio::runtime::Builder::new_current_thread().enable_all().build().unwrap();
    let mut failures: Vec<Value> = vec![];
    let mut nvec = 0u64;
    let mut evals = 0u64;
    let mut routes_seen = std::collections::BTreeSet::new();
    // spec -> impl : TLC layout vectors
    for v in util::tlc_tagged_json(&a.req("vectors"), "VEC") {
        if v.get("fields").is_none() {
            continue;
        }
        nvec += 1;
        let h = header_of(&v["fields"]);
        let (qn, bn) = (v["qn"].as_u64().unwrap() as usize, v["bn"].as_u64().unwrap() as usize);
        let (q, b) = (keyed(qn, 11 + nvec), keyed(bn, 97 + nvec));
        let mut want: Vec<u8> = v["header_bytes"].as_array().unwrap().iter().map(|x| x.as_u64().unwrap() as u8).collect();
        want.extend(&q);
        want.extend(&b);
        for (route, r) in emit_all(&h, &q, &b, &rt) {
            evals += 1;
            routes_seen.insert(route.clone());
            match r {
                Ok(bytes) if bytes == want => {}
                Ok(bytes) => {
                    if failures.len() < 40 {
                        failures.push(json!({"class": "layout", "route": route, "fields": v["fields"], "qn": qn, "bn": bn, "what": format!("route {route} emitted {} but the specification's frame is {}", util::hex(&bytes[..bytes.len().min(64)]), util::hex(&want[..want.len().min(64)]))}));
                    }
                }
                Err(e) => failures.push(json!({"class": "layout", "route": route, "fields": v["fields"], "what": format!("route {route} failed: {e}")})),
            }
        }
        for p in parse_all(&want, &h, &q, &b, &rt) {
            evals += 1;
            if failures.len() < 40 {
                failures.push(json!({"class": "roundtrip", "route": p.split(':').next(), "fields": v["fields"], "qn": qn, "bn": bn, "what": format!("parsing the specification's frame back: {p}")}));
            }
        }
    }
    // impl -> spec : random full-range frames, recorded for Trace_RepeWire
    let mut trace = util::NdJson::create(&a.req("trace"));
    let mut rng = StdRng::seed_from_u64(a.u64("seed", 1));
    let nrand = a.usize("random", 300);
    for i in 0..nrand {
        let pick_len = |rng: &mut StdRng| -> usize {
            match rng.gen_range(0..8) {
                0 => 0,
                1 => 1,
                2 => rng.gen_range(0..64),
                3 => 65535,
                4 => 65536,
                5 => rng.gen_range(8000..8300),
                _ => rng.gen_range(0..2000),
            }
        };
        let (qn, bn) = (pick_len(&mut rng), pick_len(&mut rng));
        let (q, b) = (keyed(qn, 5 + i as u64), keyed(bn, 1_000_003 + i as u64));
        let mut h = Header {
            length: 0, spec: repe::REPE_SPEC, version: rng.r#gen(), notify: rng.r#gen(), reserved: rng.r#gen(), id: rng.r#gen(),
            query_length: qn as u64, body_length: bn as u64, query_format: rng.r#gen(), body_format: rng.r#gen(), ec: rng.r#gen(),
        };
        if rng.gen_bool(0.3) {
            h.id = [0, u64::MAX, 1 << 63, 1 << 32][rng.gen_range(0..4)];
            h.ec = [0, u32::MAX, 1 << 31][rng.gen_range(0..3)];
        }
        h.length = 48 + qn as u64 + bn as u64;
        let outs = emit_all(&h, &q, &b, &rt);
        let first = outs[0].1.clone().unwrap_or_default();
        let differing: Vec<String> = outs.iter().filter(|(_, r)| r.as_ref().ok() != Some(&first)).map(|(n, _)| n.clone()).collect();
        let payload_ok = first.len() == 48 + qn + bn && first[48..48 + qn] == q[..] && first[48 + qn..] == b[..];
        let bad_parsers = parse_all(&first, &h, &q, &b, &rt);
        evals += outs.len() as u64 + 9;
        trace.push(&json!({"ev": "emit", "fields": fields_json(&h), "qn": qn, "bn": bn, "hb": first.iter().take(48).collect::<Vec<_>>(), "total": first.len(),
                           "routes_differing": differing, "payload_ok": payload_ok, "parsers_differing": bad_parsers}));
    }
    trace.finish();
    failures.extend(typed_route_failures());
    util::write_json(&a.req("out"), &json!({"tlc_vectors": nvec, "random_frames": nrand, "evaluations": evals, "routes": routes_seen, "failures": failures}));
    0
}
