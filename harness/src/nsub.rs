//! Notify-subscription engine (part of C04): the WebSocket client's one-live-subscriber slot under
//! concurrent subscribe / unsubscribe / drop-receiver / drain calls while a raw peer pushes numbered
//! notifies; recorded for spec/Trace_NotifySub.tla.
//!
//! Everything is logged through the verif-hooks sink (one sequence counter under one mutex), so the
//! library's own events (ns_sub / ns_unsub / ns_snap / ns_sent / ns_sendfail, emitted inside the slot's
//! critical sections) and the harness's events are in one order:
//!   reset                      a new connection
//!   push(n)                    the peer is about to write notify n (ids 1, 2, ...)
//!   inv(t, op) / res(t, ret)   the harness's lock-free calls on a receiver it holds: drop(tok),
//!                              drain(tok) -> the notify ids received (try_recv until empty)
//!   quiesce(pushed)            a request issued after the last push has been answered: the response
//!                              loop has handled every pushed notify
//! The token of a successful ns_sub is attached afterwards: the k-th success of worker t is the k-th
//! receiver that worker obtained.

use crate::util::{self, Args};
use rand::rngs::StdRng;
use rand::{Rng, SeedableRng};
use repe::{Message, WebSocketClient};
use serde_json::{json, Value};
use std::net::TcpListener;
use std::sync::atomic::{AtomicU64, Ordering};
use std::sync::{Arc, Mutex};
use std::time::Duration;
use tokio_tungstenite::tungstenite;

struct Log { toks: Mutex<std::collections::HashMap<u64, Vec<u64>>> }
impl Log {
    /// one event through the library's sink; `v` is a JSON object
    fn push(&self, v: Value) {
        let s = v.to_string();
        repe::verif::ev(s[1..s.len() - 1].to_string());
    }
}

type Rx = tokio::sync::mpsc::UnboundedReceiver<Message>;

fn drain(rx: &mut Rx) -> Vec<u64> {
    let mut got = vec![];
    while let Ok(m) = rx.try_recv() { got.push(m.header.id); }
    got
}

fn scenario(rt: &tokio::runtime::Runtime, log: &Arc<Log>, seed: u64, notes: u64, workers: usize, ops: usize) {
    log.push(json!({"ev": "reset"}));
    let l = TcpListener::bind("127.0.0.1:0").unwrap();
    let addr = l.local_addr().unwrap();
    let log_s = log.clone();
    let pushed = Arc::new(AtomicU64::new(0));
    let pushed_s = pushed.clone();
    let srv = std::thread::spawn(move || {
        let mut r = StdRng::seed_from_u64(seed ^ 0x5eed);
        let (s, _) = l.accept().unwrap();
        let mut ws = tungstenite::accept(s).unwrap();
        for n in 1..=notes {
            if r.gen_bool(0.7) { std::thread::sleep(Duration::from_micros(r.gen_range(0..400))); }
            log_s.push(json!({"ev": "push", "n": n}));
            let f = Message::builder().id(n).notify(true).query_str("/note").body_json(&json!({"n": n})).unwrap().build().to_vec();
            if ws.send(tungstenite::Message::Binary(f.into())).is_err() { return; }
            pushed_s.store(n, Ordering::SeqCst);
        }
        // answer the synchronisation request(s) that follow the last push
        ws.get_ref().set_read_timeout(Some(Duration::from_secs(10))).ok();
        while let Ok(m) = ws.read() {
            if let tungstenite::Message::Binary(b) = m {
                if let Ok(req) = Message::from_slice(&b) {
                    let resp = Message::builder().id(req.header.id).query_bytes(req.query.clone()).body_json(&json!({"ok": true})).unwrap().build().to_vec();
                    if ws.send(tungstenite::Message::Binary(resp.into())).is_err() { break; }
                }
            }
        }
    });
    let client = rt.block_on(WebSocketClient::connect(&format!("ws://{addr}"))).unwrap();
    let next_tok = Arc::new(AtomicU64::new(1));
    let leftovers: Arc<Mutex<Vec<(u64, Rx)>>> = Arc::new(Mutex::new(vec![]));
    let hs: Vec<_> = (1..=workers as u64).map(|t| {
        let (client, log, next_tok, leftovers) = (client.clone(), log.clone(), next_tok.clone(), leftovers.clone());
        std::thread::spawn(move || {
            repe::verif::set_tid(t);
            let mut r = StdRng::seed_from_u64(seed.wrapping_mul(31).wrapping_add(t));
            let mut mine: Vec<(u64, Rx)> = vec![];
            for _ in 0..ops {
                if r.gen_bool(0.5) { std::thread::sleep(Duration::from_micros(r.gen_range(0..300))); }
                let k = r.gen_range(0..10);
                if (k < 4 || mine.is_empty() && k < 7) && next_tok.load(Ordering::SeqCst) < 60 {
                    if let Ok(rx) = client.subscribe_notifies() {
                        let tok = next_tok.fetch_add(1, Ordering::SeqCst);
                        log.toks.lock().unwrap().entry(t).or_default().push(tok);
                        mine.push((tok, rx));
                    }
                } else if k < 6 {
                    client.unsubscribe_notifies();
                } else if k < 8 && !mine.is_empty() {
                    let i = r.gen_range(0..mine.len());
                    let (tok, rx) = mine.swap_remove(i);
                    log.push(json!({"ev": "inv", "op": {"name": "drop", "tok": tok}}));
                    drop(rx);
                    log.push(json!({"ev": "res", "ret": "ok"}));
                } else if !mine.is_empty() {
                    let i = r.gen_range(0..mine.len());
                    let tok = mine[i].0;
                    log.push(json!({"ev": "inv", "op": {"name": "drain", "tok": tok}}));
                    let got = drain(&mut mine[i].1);
                    log.push(json!({"ev": "res", "ret": got}));
                }
            }
            leftovers.lock().unwrap().extend(mine);
        })
    }).collect();
    for h in hs { let _ = h.join(); }
    // wait for the peer to finish pushing, then put one request behind the last push
    let t0 = std::time::Instant::now();
    while pushed.load(Ordering::SeqCst) < notes && t0.elapsed() < Duration::from_secs(10) { std::thread::sleep(Duration::from_millis(1)); }
    let synced = rt.block_on(client.call_json_with_timeout("/sync", &json!({}), Duration::from_secs(10))).is_ok();
    if synced && pushed.load(Ordering::SeqCst) == notes {
        log.push(json!({"ev": "quiesce", "pushed": notes}));
    }
    repe::verif::set_tid(1);
    for (tok, mut rx) in leftovers.lock().unwrap().drain(..) {
        log.push(json!({"ev": "inv", "op": {"name": "drain", "tok": tok}}));
        let got = drain(&mut rx);
        log.push(json!({"ev": "res", "ret": got}));
    }
    {
        // WebSocketClient's Drop sends the close frame only inside a runtime context
        let _g = rt.enter();
        drop(client);
    }
    let _ = srv.join();
}

/// Scripted races, single-stepped through the two probes in the response loop (`ns_before_send`: between taking
/// the sender clone and sending on it; `ns_after_failed_send`: between the failed send and the stale-slot decision).
fn scripted(rt: &tokio::runtime::Runtime, log: &Arc<Log>, which: &str) -> bool {
    use repe::verif;
    log.push(json!({"ev": "reset"}));
    let l = TcpListener::bind("127.0.0.1:0").unwrap();
    let addr = l.local_addr().unwrap();
    let (tx, rx) = std::sync::mpsc::channel::<u64>();
    let log_s = log.clone();
    let srv = std::thread::spawn(move || {
        let (s, _) = l.accept().unwrap();
        let mut ws = tungstenite::accept(s).unwrap();
        while let Ok(n) = rx.recv() {
            if n == 0 { break; }
            log_s.push(json!({"ev": "push", "n": n}));
            let f = Message::builder().id(n).notify(true).query_str("/note").body_json(&json!({"n": n})).unwrap().build().to_vec();
            if ws.send(tungstenite::Message::Binary(f.into())).is_err() { return; }
        }
        ws.get_ref().set_read_timeout(Some(Duration::from_secs(10))).ok();
        while let Ok(m) = ws.read() {
            if let tungstenite::Message::Binary(b) = m {
                if let Ok(req) = Message::from_slice(&b) {
                    let resp = Message::builder().id(req.header.id).query_bytes(req.query.clone()).body_json(&json!({"ok": true})).unwrap().build().to_vec();
                    if ws.send(tungstenite::Message::Binary(resp.into())).is_err() { break; }
                }
            }
        }
    });
    let client = rt.block_on(WebSocketClient::connect(&format!("ws://{addr}"))).unwrap();
    verif::set_tid(1);
    let mut toks = vec![];
    let mut sub = |toks: &mut Vec<u64>| -> Option<Rx> {
        let r = client.subscribe_notifies().ok();
        if r.is_some() { let t = toks.len() as u64 + 1; toks.push(t); log.toks.lock().unwrap().entry(1).or_default().push(t); }
        r
    };
    let wait = |gate: &str| verif::await_parked(gate, 1, Duration::from_secs(5));
    let mut reached = true;
    let mut held: Vec<(u64, Rx)> = vec![];
    match which {
        // the receiver is dropped, a notify fails to send, and BEFORE the loop decides about the slot a fresh
        // subscription is installed: it must survive, and get the next notify
        "fresh_survives_failed_send" => {
            let r1 = sub(&mut toks).unwrap();
            log.push(json!({"ev": "inv", "op": {"name": "drop", "tok": 1}})); drop(r1); log.push(json!({"ev": "res", "ret": "ok"}));
            verif::gate("ns_after_failed_send");
            let _ = tx.send(1);
            reached &= wait("ns_after_failed_send");
            if let Some(r2) = sub(&mut toks) { held.push((2, r2)); }
            verif::release("ns_after_failed_send");
            let _ = tx.send(2);
        }
        // the loop holds a clone of subscriber 1's sender; 1 is unsubscribed and 2 subscribes before the send:
        // the notify in flight goes to 1's receiver (still alive), never to 2
        "inflight_goes_to_old" => {
            let r1 = sub(&mut toks).unwrap();
            held.push((1, r1));
            verif::gate("ns_before_send");
            let _ = tx.send(1);
            reached &= wait("ns_before_send");
            client.unsubscribe_notifies();
            if let Some(r2) = sub(&mut toks) { held.push((2, r2)); }
            verif::release("ns_before_send");
            let _ = tx.send(2);
        }
        // as above but 1's receiver is dropped while the notify is in flight: the send fails, the slot (now 2's) stays
        _ => {
            let r1 = sub(&mut toks).unwrap();
            verif::gate("ns_before_send");
            let _ = tx.send(1);
            reached &= wait("ns_before_send");
            log.push(json!({"ev": "inv", "op": {"name": "drop", "tok": 1}})); drop(r1); log.push(json!({"ev": "res", "ret": "ok"}));
            if let Some(r2) = sub(&mut toks) { held.push((2, r2)); }
            verif::release("ns_before_send");
            let _ = tx.send(2);
        }
    }
    let _ = tx.send(0);
    let synced = rt.block_on(client.call_json_with_timeout("/sync", &json!({}), Duration::from_secs(10))).is_ok();
    if synced { log.push(json!({"ev": "quiesce", "pushed": 2})); }
    for (tok, mut rx) in held.drain(..) {
        log.push(json!({"ev": "inv", "op": {"name": "drain", "tok": tok}}));
        let got = drain(&mut rx);
        log.push(json!({"ev": "res", "ret": got}));
    }
    verif::release_all();
    { let _g = rt.enter(); drop(client); }
    let _ = srv.join();
    reached && synced
}

pub fn run(a: &Args) -> i32 {
    let rt = tokio::runtime::Builder::new_multi_thread().worker_threads(2).enable_all().build().unwrap();
    let log = Arc::new(Log { toks: Mutex::new(Default::default()) });
    let n = a.usize("scenarios", 20);
    let seed = a.u64("seed", 1);
    repe::verif::enable(true);
    let _ = repe::verif::take();
    let mut evs: Vec<Value> = vec![];
    for i in 0..n as u64 {
        let workers = 1 + (i % 3) as usize;
        log.toks.lock().unwrap().clear();
        scenario(&rt, &log, seed.wrapping_mul(1000).wrapping_add(i), a.u64("notes", 40), workers, a.usize("ops", 14));
        std::thread::sleep(Duration::from_millis(5));
        // attach tokens: the k-th successful ns_sub of worker t is the k-th receiver that worker obtained
        let toks = log.toks.lock().unwrap().clone();
        let mut idx: std::collections::HashMap<u64, usize> = Default::default();
        for line in repe::verif::take() {
            let mut e: Value = serde_json::from_str(&line).unwrap();
            if (e["ev"] == "ns_unsub_begin" || e["ev"] == "ns_unsub_end") && e["t"].as_u64().unwrap_or(0) >= 1000 { e["t"] = json!(5); }
            if e["ev"] == "ns_sub" {
                let t = e["t"].as_u64().unwrap_or(0);
                let tok = if e["ok"] == json!(true) { let k = idx.entry(t).or_insert(0); let v = toks.get(&t).and_then(|v| v.get(*k)).copied().unwrap_or(0); *k += 1; v } else { 0 };
                e["tok"] = json!(tok);
            }
            evs.push(e);
        }
    }
    // scripted races through the probes
    let mut scripted_reached = 0;
    for rep in 0..a.usize("scripted-reps", 3) {
        for which in ["fresh_survives_failed_send", "inflight_goes_to_old", "inflight_fails_slot_kept"] {
            let _ = rep;
            log.toks.lock().unwrap().clear();
            if scripted(&rt, &log, which) { scripted_reached += 1; }
            std::thread::sleep(Duration::from_millis(5));
            let toks = log.toks.lock().unwrap().clone();
            let mut idx: std::collections::HashMap<u64, usize> = Default::default();
            for line in repe::verif::take() {
                let mut e: Value = serde_json::from_str(&line).unwrap();
                if (e["ev"] == "ns_unsub_begin" || e["ev"] == "ns_unsub_end") && e["t"].as_u64().unwrap_or(0) >= 1000 { e["t"] = json!(5); }
                if e["ev"] == "ns_sub" {
                    let t = e["t"].as_u64().unwrap_or(0);
                    let tok = if e["ok"] == json!(true) { let k = idx.entry(t).or_insert(0); let v = toks.get(&t).and_then(|v| v.get(*k)).copied().unwrap_or(0); *k += 1; v } else { 0 };
                    e["tok"] = json!(tok);
                }
                evs.push(e);
            }
        }
    }
    repe::verif::enable(false);
    let mut out = util::NdJson::create(&a.req("out"));
    for e in &evs { out.push(e); }
    let lines = out.lines;
    out.finish();
    util::write_json(&a.str("summary", "/dev/null"), &json!({"scenarios": n, "events": lines, "scripted_races_reached": scripted_reached,
        "refused": evs.iter().filter(|e| e["ev"] == "ns_sub" && e["ok"] == json!(false)).count(),
        "stale_cleared": evs.iter().filter(|e| e["ev"] == "ns_sendfail" && e["cleared"] == json!(true)).count(),
        "snapshots": evs.iter().filter(|e| e["ev"] == "ns_snap_end").count(),
        "stale_not_own": evs.iter().filter(|e| e["ev"] == "ns_sendfail" && e["cleared"] == json!(false)).count(),
        "delivered": evs.iter().filter_map(|e| e["ret"].as_array().map(|x| x.len())).sum::<usize>()}));
    rt.shutdown_timeout(Duration::from_secs(1));
    0
}
