//! C16 / C17 engines: the WebSocket server's off-reader cap and its outbound size guard, driven
//! by a raw WebSocket peer and recorded for Trace_OffReader.tla / Trace_Guard.tla.

use crate::srv::Log;
use crate::util::{self, Args};
use rand::rngs::StdRng;
use rand::seq::SliceRandom;
use rand::{Rng, SeedableRng};
use repe::websocket_server::ConnectionError;
use repe::{AsyncClient, AsyncServer, BodyFormat, ErrorCode, Message, NotifyBody, PeerRegistry, RepeError, Router, WebSocketClient, WebSocketLimits, WebSocketServer};
use serde_json::{json, Value};
use std::collections::HashMap;
use std::net::TcpStream;
use std::sync::atomic::{AtomicI64, AtomicU64, Ordering};
use std::sync::{Arc, Condvar, Mutex};
use std::time::{Duration, Instant};
use tokio_tungstenite::tungstenite;

type Ws = tungstenite::WebSocket<TcpStream>;

fn ws_connect(addr: std::net::SocketAddr, path: &str) -> Ws {
    try_ws_connect(addr, path).expect("ws handshake")
}
/// never blocks for ever: a server whose accept path is stuck yields None after 5 s
fn try_ws_connect(addr: std::net::SocketAddr, path: &str) -> Option<Ws> {
    let s = TcpStream::connect_timeout(&addr, Duration::from_secs(5)).ok()?;
    s.set_nodelay(true).ok();
    s.set_read_timeout(Some(Duration::from_secs(5))).ok();
    let cfg = tungstenite::protocol::WebSocketConfig { max_frame_size: None, max_message_size: None, ..Default::default() };
    let (ws, _) = tungstenite::client::client_with_config(format!("ws://{addr}{path}"), s, Some(cfg)).ok()?;
    Some(ws)
}
fn ws_send(ws: &mut Ws, m: &Message) {
    let mut m = m.clone();
    m.header.query_format = 1; // JSON pointer
    let _ = ws.send(tungstenite::Message::Binary(m.to_vec().into())); // a failed send shows as silence later
}
/// next binary message within `t`, as (id, ec, notify flag, query, total length)
fn ws_next(ws: &mut Ws, t: Duration) -> Option<(u64, u32, u8, String, usize)> {
    ws.get_ref().set_read_timeout(Some(t)).ok();
    loop {
        match ws.read() {
            Ok(tungstenite::Message::Binary(b)) => {
                let h = &b[..48];
                let q = u64::from_le_bytes(h[24..32].try_into().unwrap()) as usize;
                return Some((u64::from_le_bytes(h[16..24].try_into().unwrap()), u32::from_le_bytes(h[44..48].try_into().unwrap()), h[11], String::from_utf8_lossy(&b[48..48 + q]).to_string(), b.len()));
            }
            Ok(tungstenite::Message::Close(_)) | Err(_) => return None,
            Ok(_) => continue,
        }
    }
}

// ---------------------------------------------------------------------------
// C16

#[derive(Default)]
struct Gates {
    open: Mutex<HashMap<u64, bool>>,
    cv: Condvar,
}
impl Gates {
    fn wait(&self, n: u64) {
        let mut g = self.open.lock().unwrap();
        while !g.get(&n).copied().unwrap_or(false) {
            g = self.cv.wait(g).unwrap();
        }
    }
    fn release(&self, n: u64) {
        self.open.lock().unwrap().insert(n, true);
        self.cv.notify_all();
    }
}

fn invoked(log: &Arc<Log>, n: u64) -> bool {
    log.ev.lock().unwrap().iter().any(|(_, e)| e["ev"] == "invoked" && e["n"] == json!(n))
}
fn wait_invoked(log: &Arc<Log>, n: u64, t: Duration) -> bool {
    let t0 = Instant::now();
    while t0.elapsed() < t {
        if invoked(log, n) {
            return true;
        }
        std::thread::sleep(Duration::from_micros(300));
    }
    false
}

pub fn c16(a: &Args) -> i32 {
    let seed = a.u64("seed", 1);
    let max_cap = a.usize("max-cap", 3);
    let random_runs = a.usize("random", 4);
    let mut rng = StdRng::seed_from_u64(seed);
    let rt = tokio::runtime::Builder::new_multi_thread().worker_threads(4).max_blocking_threads(256).enable_all().build().unwrap();
    let log = Log::new();
    let gates = Arc::new(Gates::default());
    let gauge = Arc::new(AtomicI64::new(0));
    std::panic::set_hook(Box::new(|_| {}));
    let mut out = util::NdJson::create(&a.req("out"));
    let mut schedules: Vec<(usize, Vec<usize>, Vec<&'static str>)> = vec![]; // cap (0 = unlimited), release order, exit kinds
    let exits = ["ret", "err", "panic"];
    for cap in 1..=max_cap {
        let mut perms = vec![];
        fn rec(cur: &mut Vec<usize>, used: &mut Vec<bool>, n: usize, out: &mut Vec<Vec<usize>>) {
            if cur.len() == n { out.push(cur.clone()); return; }
            for i in 0..n { if !used[i] { used[i] = true; cur.push(i); rec(cur, used, n, out); cur.pop(); used[i] = false; } }
        }
        rec(&mut vec![], &mut vec![false; cap], cap, &mut perms);
        for (pi, p) in perms.into_iter().enumerate() {
            // exit kinds rotate so that every (position, kind) combination occurs
            for shift in 0..3 {
                schedules.push((cap, p.clone(), (0..cap).map(|i| exits[(i + shift + pi) % 3]).collect()));
            }
        }
    }
    for _ in 0..random_runs {
        let cap = [0usize, 4, 8, 16][rng.gen_range(0..4)];
        let n = if cap == 0 { 12 } else { cap };
        let mut p: Vec<usize> = (0..n).collect();
        p.shuffle(&mut rng);
        schedules.push((cap, p, (0..n).map(|_| exits[rng.gen_range(0..3)]).collect()));
    }
    let mut next_n = 1u64;
    let next_id = std::cell::Cell::new(1u64);
    let mut stalls = 0usize;
    for (si, (cap, order, kinds)) in schedules.iter().enumerate() {
        // every stall costs a 5-10 s wait: a few are evidence enough
        if stalls >= 3 {
            break;
        }
        let (cap, nwork) = (*cap, order.len());
        // a fresh server per schedule
        let (l2, g2, ga2) = (log.clone(), gates.clone(), gauge.clone());
        let work = move |v: Value| -> Result<Value, (ErrorCode, String)> {
            let n = v["n"].as_u64().unwrap_or(0);
            let now = ga2.fetch_add(1, Ordering::SeqCst) + 1;
            l2.push(json!({"ev": "invoked", "n": n, "gauge": now}));
            g2.wait(n);
            ga2.fetch_sub(1, Ordering::SeqCst);
            match v["exit"].as_str().unwrap_or("ret") {
                "err" => Err((ErrorCode::ApplicationErrorBase, "scripted".into())),
                // panic messages of every shape: short, and long ones whose multi-byte characters straddle every
                // round byte offset (whatever is done with the message, the caller still gets its InternalError reply)
                "panic" => match n % 4 {
                    0 => panic!("scripted handler panic"),
                    1 => panic!("{}", format!("p{}", "é".repeat(700))),
                    2 => panic!("{}", format!("pp{}", "é".repeat(700))),
                    _ => panic!("{}", format!("{}{}", "p".repeat((n % 3) as usize), "€".repeat(500))),
                },
                _ => Ok(json!({"n": n})),
            }
        };
        let l3 = log.clone();
        // on odd schedules the blocking route is registered BEFORE the middleware (the middleware rebuild must keep it off-reader)
        // the route's name is long and not ASCII on two schedules out of three (it is echoed, logged and reported)
        let wpath: String = match si % 3 { 0 => "/work".to_string(), 1 => format!("/wx{}", "é".repeat(40)), _ => format!("/wxy{}", "€".repeat(150)) };
        let router = if si % 2 == 0 {
            Router::new().with_middleware(|req: &Message, next: repe::server::Next<'_>| next.run(req)).with_json_blocking(&wpath, work)
        } else {
            Router::new().with_json_blocking(&wpath, work).with_middleware(|req: &Message, next: repe::server::Next<'_>| next.run(req))
        };
        let router = router
            .with_json("/inline", |v| Ok(json!({"inline": v})))
            .with_json("/inlinebig", |_v| Ok(json!({"pad": "z".repeat(6 << 20)})))
            // used from a SECOND connection: not counted by the gauge, returns at once
            .with_json_blocking("/work2", |v| Ok(json!({"other": v})));
        let listener = rt.block_on(WebSocketServer::listen("127.0.0.1:0")).unwrap();
        let addr = listener.local_addr().unwrap();
        // the per-connection outbound queue is also varied: parked handlers must not pin its capacity
        let outcap = [256usize, 1, 2][si % 3];
        let server = WebSocketServer::new(router).with_offreader_limit(cap).with_outbound_capacity(outcap);
        // one schedule in four has NO error hook (the server then prints the event itself); the others format it, as a
        // logging hook would
        let server = if si % 4 == 3 { server } else { server.on_error(move |e: &ConnectionError| {
            let k = match e { ConnectionError::Saturation { .. } => "saturation", ConnectionError::HandlerPanic { .. } => "handler_panic", _ => "other" };
            let text = format!("{e} / {e:?}");
            l3.push(json!({"ev": "on_error", "kind": k, "text_len": text.len()}));
        }) };
        let srv = rt.spawn(async move { let _ = server.serve_listener(listener, "/ws").await; });
        std::thread::sleep(Duration::from_millis(20));
        let mut ws = ws_connect(addr, "/ws");
        gauge.store(0, Ordering::SeqCst);
        log.push(json!({"ev": "reset", "cap": cap, "schedule": si, "order": order, "exits": kinds, "outbound_capacity": outcap}));
        let send_work = |ws: &mut Ws, n: u64, exit: &str, notify: bool, log: &Arc<Log>| -> u64 {
            next_id.set(next_id.get() + 1);
            let id = next_id.get();
            log.push(json!({"ev": "arrive", "n": n, "id": id, "kind": "off", "notify": notify, "exit": exit}));
            ws_send(ws, &Message::builder().id(id).notify(notify).query_str(&wpath).body_json(&json!({"n": n, "exit": exit})).unwrap().build());
            id
        };
        let expect_resp = |ws: &mut Ws, log: &Arc<Log>, t: Duration| -> Option<(u64, u32)> {
            match ws_next(ws, t) {
                Some((id, ec, _, _, _)) => { log.push(json!({"ev": "resp", "id": id, "ec": ec})); Some((id, ec)) }
                None => { log.push(json!({"ev": "silence", "waited_ms": t.as_millis() as u64})); None }
            }
        };
        // 1. fill the cap
        let ns: Vec<u64> = (0..nwork).map(|_| { next_n += 1; next_n }).collect();
        let mut ids = vec![];
        for (i, n) in ns.iter().enumerate() {
            ids.push(send_work(&mut ws, *n, kinds[i], false, &log));
            if !wait_invoked(&log, *n, Duration::from_secs(5)) {
                log.push(json!({"ev": "not_started", "n": n}));
            }
        }
        if cap > 0 {
            // 2. saturation: an immediate ResourceExhausted while the others are still parked; a notify is dropped
            if outcap <= 2 {
                // with a small outbound queue: back the writer up first (two large inline responses nobody reads yet), so
                // that the rejection below finds the queue full; it must still be delivered once the peer reads
                for _ in 0..2 {
                    next_id.set(next_id.get() + 1);
                    log.push(json!({"ev": "arrive", "n": 0, "id": next_id.get(), "kind": "inline", "notify": false, "exit": "ret"}));
                    ws_send(&mut ws, &Message::builder().id(next_id.get()).query_str("/inlinebig").body_json(&json!({})).unwrap().build());
                }
                std::thread::sleep(Duration::from_millis(200));
                next_n += 1;
                send_work(&mut ws, next_n, "ret", false, &log);
                std::thread::sleep(Duration::from_millis(100));
                for _ in 0..3 { expect_resp(&mut ws, &log, Duration::from_secs(8)); }
            } else {
                next_n += 1;
                send_work(&mut ws, next_n, "ret", false, &log);
                expect_resp(&mut ws, &log, Duration::from_secs(5));
            }
            next_n += 1;
            gates.release(next_n); // should it (wrongly) run, do not leave it parked
            send_work(&mut ws, next_n, "ret", true, &log);
        }
        // 2b. the cap is per connection: with this connection saturated, a second connection's off-reader request runs
        if cap > 0 {
            match try_ws_connect(addr, "/ws") {
                Some(mut ws2) => {
                    ws_send(&mut ws2, &Message::builder().id(9_000_000 + si as u64).query_str("/work2").body_json(&json!({"x": 1})).unwrap().build());
                    let r = ws_next(&mut ws2, Duration::from_secs(5));
                    log.push(json!({"ev": "other_conn", "ec": r.map(|x| x.1 as i64).unwrap_or(-1)}));
                    let _ = ws2.close(None);
                }
                // a reader parked inside a handler can keep the accept task from running at all
                None => log.push(json!({"ev": "other_conn", "ec": -2})),
            }
        }
        // 3. the reader is not blocked: an inline request is answered while the handlers are parked
        next_id.set(next_id.get() + 1);
        log.push(json!({"ev": "arrive", "n": 0, "id": next_id.get(), "kind": "inline", "notify": false, "exit": "ret"}));
        ws_send(&mut ws, &Message::builder().id(next_id.get()).query_str("/inline").body_json(&json!({"x": 1})).unwrap().build());
        expect_resp(&mut ws, &log, Duration::from_secs(5));
        // 4. release in the scheduled order; every exit frees its slot
        for &j in order {
            log.push(json!({"ev": "release", "n": ns[j]}));
            gates.release(ns[j]);
            expect_resp(&mut ws, &log, Duration::from_secs(5));
            if cap > 0 {
                // a new off-reader request must be accepted again (the permit comes back after the response was
                // queued, so an immediate retry may still see ResourceExhausted: retry for up to 10 s)
                let t0 = Instant::now();
                let mut accepted = None;
                let mut retries = 0;
                while t0.elapsed() < Duration::from_secs(10) {
                    next_n += 1;
                    let pn = next_n;
                    gates.release(pn); // the probe's handler returns at once
                    let pid = send_work(&mut ws, pn, "ret", false, &log);
                    match expect_resp(&mut ws, &log, Duration::from_secs(5)) {
                        Some((id, 0)) if id == pid => { accepted = Some(pn); break; }
                        Some((_, 8)) => { retries += 1; std::thread::sleep(Duration::from_millis(2)); }
                        _ => break,
                    }
                }
                log.push(json!({"ev": "probe", "after": ns[j], "accepted": accepted.is_some(), "retries": retries}));
            }
        }
        std::thread::sleep(Duration::from_millis(20));
        stalls += log.ev.lock().unwrap().iter().filter(|(_, e)| e["ev"] == "silence" || e["ev"] == "not_started" || (e["ev"] == "probe" && e["accepted"] == json!(false))).count();
        // release anything that may still be parked so that a stalled server can wind down
        for n in 0..=next_n {
            gates.release(n);
        }
        log.push(json!({"ev": "end", "gauge_now": gauge.load(Ordering::SeqCst)}));
        let _ = ws.close(None);
        srv.abort();
        for e in log.drain_sorted() {
            out.push(&e);
        }
    }
    let lines = out.lines;
    out.finish();
    util::write_json(&a.str("summary", "/dev/null"), &json!({"schedules": schedules.len(), "events": lines}));
    // never wait for handlers a broken server may have left parked on runtime threads
    rt.shutdown_timeout(Duration::from_secs(2));
    0
}

// ---------------------------------------------------------------------------
// C17

fn pad_json(total_frame: usize, qlen: usize) -> Option<Value> {
    // {"pad":"xxx"} is 10 + k bytes
    let k = total_frame.checked_sub(48 + qlen + 10)?;
    Some(json!({"pad": "x".repeat(k)}))
}

pub fn c17(a: &Args) -> i32 {
    let mut out = util::NdJson::create(&a.req("out"));
    let rt = tokio::runtime::Builder::new_multi_thread().worker_threads(4).enable_all().build().unwrap();
    let limits: Vec<usize> = a.str("limits", "1024,65536,0").split(',').map(|x| x.parse().unwrap()).collect();
    let mut n_cases = 0u64;
    for &limit in &limits {
        let wl = if limit == 0 { WebSocketLimits::unlimited() } else { WebSocketLimits::unlimited().with_assumed_peer_frame_limit(Some(limit)) };
        let center = if limit == 0 { 65536 } else { limit };
        let reported = Arc::new(AtomicU64::new(0));
        let seen_by_server = Arc::new(AtomicU64::new(0));
        let registry = PeerRegistry::new();
        let (sv, sv2) = (seen_by_server.clone(), seen_by_server.clone());
        // response size is chosen by the request: {"frame": total} -> a response whose frame is exactly that long
        let big = move |v: Value, qlen: usize| -> Result<Value, (ErrorCode, String)> {
            let total = v["frame"].as_u64().unwrap_or(100) as usize;
            pad_json(total, qlen).ok_or((ErrorCode::ApplicationErrorBase, "too small".to_string()))
        };
        let (b1, b2, b4) = (big.clone(), big.clone(), big.clone());
        let router = Router::new()
            .with_json("/big", move |v| b1(v, 4))
            .with_json_blocking("/bigB", move |v| b2(v, 5))
            .with_json("/echo", move |v| { sv.fetch_add(1, Ordering::SeqCst); Ok(v) })
            .with_json("/seen", move |_v| Ok(json!(sv2.load(Ordering::SeqCst))))
            .with_json_ctx("/push_then_big", move |ctx, v| {
                // a small pushed notify immediately followed by this request's (possibly oversized) response: a burst
                if let Some(p) = ctx.peer() { let _ = p.send_notify("/n", NotifyBody::Raw(vec![5u8; 60], BodyFormat::RawBinary)); }
                b4(v, 14)
            })
            .with_json_ctx("/push", |ctx, v| {
                let total = v["frame"].as_u64().unwrap_or(100) as usize;
                if let Some(p) = ctx.peer() {
                    let _ = p.send_notify("/n", NotifyBody::Raw(vec![7u8; total.saturating_sub(48 + 2)], BodyFormat::RawBinary));
                }
                Ok(json!({"pushed": total}))
            });
        let rep = reported.clone();
        let listener = rt.block_on(WebSocketServer::listen("127.0.0.1:0")).unwrap();
        let addr = listener.local_addr().unwrap();
        let server = WebSocketServer::new(router).with_limits(wl).with_peer_registry(registry.clone()).with_offreader_limit(0)
            .on_error(move |e: &ConnectionError| { if matches!(e, ConnectionError::OutboundTooLarge { .. }) { rep.fetch_add(1, Ordering::SeqCst); } });
        rt.spawn(async move { let _ = server.serve_listener(listener, "/ws").await; });
        // upstream + proxy for the proxy-forwarded path
        let up_listener = rt.block_on(AsyncServer::listen("127.0.0.1:0")).unwrap();
        let up_addr = up_listener.local_addr().unwrap();
        let b3 = big.clone();
        rt.spawn(async move { let _ = AsyncServer::new(Router::new().with_json("/big", move |v| b3(v, 4))).serve(up_listener).await; });
        let px_listener = rt.block_on(tokio::net::TcpListener::bind("127.0.0.1:0")).unwrap();
        let px_addr = px_listener.local_addr().unwrap();
        rt.spawn(async move {
            loop {
                let Ok((s, _)) = px_listener.accept().await else { break };
                let cfg = tungstenite::protocol::WebSocketConfig { max_frame_size: None, max_message_size: None, ..Default::default() };
                let Ok(ws) = tokio_tungstenite::accept_async_with_config(s, Some(cfg)).await else { continue };
                let Ok(up) = AsyncClient::connect(up_addr).await else { continue };
                tokio::spawn(async move { let _ = repe::websocket_server::proxy_connection_with_limits(ws, up, wl).await; });
            }
        });
        std::thread::sleep(Duration::from_millis(40));
        let mut ws = ws_connect(addr, "/ws");
        let mut pws = ws_connect(px_addr, "/");
        let mut id = 1000u64;
        let offsets: [i64; 5] = [-2, -1, 0, 1, 2];
        let mut sizes: Vec<usize> = offsets.iter().map(|o| (center as i64 + o) as usize).collect();
        sizes.push(center / 2);
        sizes.push(center + center / 3 + 17);
        for &size in &sizes {
            // response paths: inline, off-reader, proxy
            for (path, route, which) in [("inline", "/big", 0), ("offreader", "/bigB", 0), ("proxy", "/big", 1)] {
                id += 1;
                let rep0 = reported.load(Ordering::SeqCst);
                let sock: &mut Ws = if which == 0 { &mut ws } else { &mut pws };
                ws_send(sock, &Message::builder().id(id).query_str(route).body_json(&json!({"frame": size})).unwrap().build());
                let mut observed = vec![];
                let (mut ec, mut same_id) = (-1i64, false);
                if let Some((rid, rec, _, _, len)) = ws_next(sock, Duration::from_secs(5)) {
                    observed.push(len);
                    ec = rec as i64;
                    same_id = rid == id;
                }
                // the connection must still be usable
                id += 1;
                ws_send(sock, &Message::builder().id(id).query_str(route).body_json(&json!({"frame": 80})).unwrap().build());
                let alive = matches!(ws_next(sock, Duration::from_secs(5)), Some((rid, 0, _, _, _)) if rid == id);
                n_cases += 1;
                out.push(&json!({"ev": "guard", "path": path, "kind": "response", "limit": limit, "size": size, "observed": observed, "ec": ec, "same_id": same_id,
                                 "reported": reported.load(Ordering::SeqCst) > rep0, "has_hook": which == 0, "alive": alive}));
            }
            // notify paths: handler-pushed notify, registry broadcast
            for path in ["push", "broadcast"] {
                let rep0 = reported.load(Ordering::SeqCst);
                let mut observed = vec![];
                if path == "push" {
                    id += 1;
                    ws_send(&mut ws, &Message::builder().id(id).query_str("/push").body_json(&json!({"frame": size})).unwrap().build());
                } else {
                    let _ = registry.broadcast_notify_raw("/n", BodyFormat::RawBinary, &vec![9u8; size - 50]);
                }
                // collect what arrives for a short while: the notify (if delivered) and, for push, the small response
                let t0 = Instant::now();
                let want = if path == "push" { 2 } else { 1 };
                while t0.elapsed() < Duration::from_millis(if observed.len() >= want { 0 } else { 400 }) {
                    match ws_next(&mut ws, Duration::from_millis(150)) {
                        Some((_, _, notify, _, len)) => observed.push(if notify != 0 { len as i64 } else { -(len as i64) }),
                        None => { if t0.elapsed() > Duration::from_millis(300) { break; } }
                    }
                }
                id += 1;
                ws_send(&mut ws, &Message::builder().id(id).query_str("/big").body_json(&json!({"frame": 80})).unwrap().build());
                let mut alive = false;
                while let Some((rid, ec, notify, _, len)) = ws_next(&mut ws, Duration::from_secs(5)) {
                    if rid == id && notify == 0 { alive = ec == 0; break; }
                    observed.push(if notify != 0 { len as i64 } else { -(len as i64) });
                }
                n_cases += 1;
                let notifies: Vec<i64> = observed.iter().copied().filter(|x| *x > 0).collect();
                out.push(&json!({"ev": "guard", "path": path, "kind": "notify", "limit": limit, "size": size, "notifies_observed": notifies,
                                 "reported": reported.load(Ordering::SeqCst) > rep0, "alive": alive}));
            }
            // client paths: request and notify through WebSocketClient with the same assumed limit
            let url = format!("ws://{addr}/ws");
            let client = rt.block_on(WebSocketClient::connect_with_limits(&url, wl)).unwrap();
            for path in ["client_request", "client_notify"] {
                let qlen = 5; // "/echo"
                let body = pad_json(size, qlen).unwrap();
                let before = seen_by_server.load(Ordering::SeqCst);
                let r: Result<(), RepeError> = if path == "client_request" {
                    rt.block_on(client.call_json("/echo", &body)).map(|_| ())
                } else {
                    rt.block_on(client.notify_json("/echo", &body))
                };
                let local_too_large = matches!(r, Err(RepeError::MessageTooLarge { .. }));
                // usable afterwards; this round trip also flushes the notify through the server
                let alive = rt.block_on(client.call_json("/seen", &json!(null))).is_ok();
                std::thread::sleep(Duration::from_millis(10));
                let seen = seen_by_server.load(Ordering::SeqCst) - before;
                n_cases += 1;
                out.push(&json!({"ev": "guard", "path": path, "kind": "client", "limit": limit, "size": size, "local_too_large": local_too_large, "ok": r.is_ok(),
                                 "server_saw": seen, "alive": alive}));
            }
        }
        // the limit is the configured one whatever the peer itself has SENT: after a request larger than the limit, a response
        // larger than the limit (but smaller than that request) is still replaced, on the server and through the proxy
        if limit > 0 {
            for (path, which) in [("inline_after_big_request", 0), ("proxy_after_big_request", 1)] {
                let sock: &mut Ws = if which == 0 { &mut ws } else { &mut pws };
                for size in [limit + 1, limit + 1000] {
                    id += 1;
                    let rep0 = reported.load(Ordering::SeqCst);
                    ws_send(sock, &Message::builder().id(id).query_str("/big").body_json(&json!({"frame": size, "pad": "p".repeat(limit + 3000)})).unwrap().build());
                    let mut observed = vec![];
                    let (mut ec, mut same_id) = (-1i64, false);
                    if let Some((rid, rec, _, _, len)) = ws_next(sock, Duration::from_secs(5)) { observed.push(len); ec = rec as i64; same_id = rid == id; }
                    id += 1;
                    ws_send(sock, &Message::builder().id(id).query_str("/big").body_json(&json!({"frame": 80})).unwrap().build());
                    let alive = matches!(ws_next(sock, Duration::from_secs(5)), Some((rid, 0, _, _, _)) if rid == id);
                    n_cases += 1;
                    out.push(&json!({"ev": "guard", "path": path, "kind": "response", "limit": limit, "size": size, "observed": observed, "ec": ec, "same_id": same_id,
                                     "reported": reported.load(Ordering::SeqCst) > rep0, "has_hook": which == 0, "alive": alive}));
                }
            }
        }
        // bursts: several messages are in the outbound queue when the writer wakes, the oversized one not first
        if limit > 0 {
            for rep in 0..12u64 {
                let rep0 = reported.load(Ordering::SeqCst);
                let mut observed: Vec<i64> = vec![];
                id += 3;
                if rep % 2 == 0 {
                    ws_send(&mut ws, &Message::builder().id(id).query_str("/push_then_big").body_json(&json!({"frame": limit + 500})).unwrap().build());
                } else {
                    // three pipelined inline requests: small, oversized, small
                    ws_send(&mut ws, &Message::builder().id(id - 2).query_str("/big").body_json(&json!({"frame": 90})).unwrap().build());
                    ws_send(&mut ws, &Message::builder().id(id - 1).query_str("/big").body_json(&json!({"frame": limit + 300})).unwrap().build());
                    ws_send(&mut ws, &Message::builder().id(id).query_str("/big").body_json(&json!({"frame": 95})).unwrap().build());
                }
                let want = if rep % 2 == 0 { 2 } else { 3 };
                let t0 = Instant::now();
                while observed.len() < want && t0.elapsed() < Duration::from_secs(3) {
                    if let Some((_, _, _, _, len)) = ws_next(&mut ws, Duration::from_millis(300)) { observed.push(len as i64); }
                }
                id += 1;
                ws_send(&mut ws, &Message::builder().id(id).query_str("/big").body_json(&json!({"frame": 80})).unwrap().build());
                let mut alive = false;
                while let Some((rid, ec, notify, _, len)) = ws_next(&mut ws, Duration::from_secs(5)) {
                    if rid == id && notify == 0 { alive = ec == 0; break; }
                    observed.push(len as i64);
                }
                n_cases += 1;
                out.push(&json!({"ev": "guard", "path": if rep % 2 == 0 { "notify_then_response" } else { "pipelined_responses" }, "kind": "burst", "limit": limit, "size": limit + 300,
                                 "observed": observed, "expected_messages": want, "reported": reported.load(Ordering::SeqCst) > rep0, "alive": alive}));
            }
        }
        // long method paths: whatever the server answers (method-not-found echoing the path, or its
        // replacement) must itself respect the limit and carry the request's id
        if limit > 0 {
            for qlen in [limit / 2, limit - 300, limit - 200, limit - 120, limit - 60] {
                for (route, sock_is_proxy) in [("unknown", false), ("unknown", true)] {
                    id += 1;
                    let path = format!("/{}", "p".repeat(qlen - 1));
                    let sock: &mut Ws = if sock_is_proxy { &mut pws } else { &mut ws };
                    ws_send(sock, &Message::builder().id(id).query_str(&path).body_json(&json!({"frame": 100})).unwrap().build());
                    let mut observed = vec![];
                    let (mut ec, mut same_id) = (-1i64, false);
                    if let Some((rid, rec, _, _, len)) = ws_next(sock, Duration::from_secs(5)) {
                        observed.push(len);
                        ec = rec as i64;
                        same_id = rid == id;
                    }
                    id += 1;
                    ws_send(sock, &Message::builder().id(id).query_str("/big").body_json(&json!({"frame": 80})).unwrap().build());
                    let alive = matches!(ws_next(sock, Duration::from_secs(5)), Some((rid, 0, _, _, _)) if rid == id);
                    n_cases += 1;
                    out.push(&json!({"ev": "guard", "path": if sock_is_proxy { "proxy_longpath" } else { "longpath" }, "kind": "bounded", "limit": limit, "size": qlen, "route": route,
                                     "observed": observed, "ec": ec, "same_id": same_id, "alive": alive}));
                }
            }
        }
        let _ = ws.close(None);
    }
    out.finish();
    util::write_json(&a.str("summary", "/dev/null"), &json!({"cases": n_cases}));
    0
}
