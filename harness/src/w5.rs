//! C05 engine: the byte stream every endpoint puts on a connection is whole frames - concurrent
//! writers never interleave, and nothing follows an interrupted write.  A raw peer records the
//! bytes (TCP) or messages (WebSocket); an INDEPENDENT content-addressed parser (not repe's)
//! decomposes them into segments for spec/Trace_WireStream.tla:
//!   ["whole", id]  ["prefix", id, n]  ["foreign", at]  ["bad_header", at]
//! Every frame's body is a keyed pseudo-random stream of its id (or of a key carried in the
//! request), so torn or interleaved bytes are visible from content alone.

use crate::util::{self, Args};
use repe::{AsyncClient, AsyncServer, Client, ErrorCode, Message, Router, Server, WebSocketClient, WebSocketServer};
use serde_json::{json, Value};
use std::io::{Read, Write};
use std::net::{TcpListener, TcpStream};
use std::sync::{Arc, Mutex};
use std::time::{Duration, Instant};
use tokio_tungstenite::tungstenite;

fn keyed(n: usize, key: u64) -> Vec<u8> {
    let mut x = key.wrapping_mul(0x9E3779B97F4A7C15) | 1;
    let mut v = Vec::with_capacity(n);
    for _ in 0..n {
        x ^= x << 13;
        x ^= x >> 7;
        x ^= x << 17;
        v.push((x >> 24) as u8);
    }
    v
}

/// Expected frame bytes are unknown to the parser except through content: body(key) = keyed(len, key).
/// `key_of` maps a frame's header id (and query) to the key its body was generated from.
fn segments(stream: &[u8], key_of: &dyn Fn(u64) -> u64) -> Vec<Value> {
    let mut segs = vec![];
    let mut p = 0usize;
    while p < stream.len() {
        let rest = &stream[p..];
        if rest.len() < 48 {
            segs.push(json!(["prefix", 0, rest.len()]));
            break;
        }
        let total = u64::from_le_bytes(rest[0..8].try_into().unwrap());
        let magic_ok = rest[8] == 0x07 && rest[9] == 0x15;
        let id = u64::from_le_bytes(rest[16..24].try_into().unwrap());
        let q = u64::from_le_bytes(rest[24..32].try_into().unwrap());
        let b = u64::from_le_bytes(rest[32..40].try_into().unwrap());
        if !magic_ok || 48u64.checked_add(q).and_then(|x| x.checked_add(b)) != Some(total) || total > (1 << 31) {
            segs.push(json!(["bad_header", p]));
            break;
        }
        let (total, q, b) = (total as usize, q as usize, b as usize);
        let have = rest.len().min(total);
        // compare the body bytes that are present with the keyed stream of this frame
        let body_have = have.saturating_sub(48 + q);
        let want = keyed(b, key_of(id));
        let body_start = 48 + q;
        let mut mismatch = None;
        if body_have > 0 {
            let got = &rest[body_start..body_start + body_have];
            if let Some(k) = got.iter().zip(want.iter()).position(|(x, y)| x != y) {
                mismatch = Some(k);
            }
        }
        match mismatch {
            Some(k) => {
                // the frame stops being itself at body offset k: foreign bytes follow an incomplete frame
                segs.push(json!(["prefix", id, body_start + k]));
                segs.push(json!(["foreign", p + body_start + k]));
                break;
            }
            None if have == total => {
                segs.push(json!(["whole", id]));
                p += total;
            }
            None => {
                segs.push(json!(["prefix", id, have]));
                break;
            }
        }
    }
    segs
}

fn drain(s: &mut TcpStream, idle: Duration, max: Duration) -> Vec<u8> {
    let mut all = vec![];
    let mut buf = vec![0u8; 1 << 16];
    s.set_read_timeout(Some(idle)).ok();
    let t0 = Instant::now();
    loop {
        match s.read(&mut buf) {
            Ok(0) => break,
            Ok(n) => all.extend_from_slice(&buf[..n]),
            Err(_) => break,
        }
        if t0.elapsed() > max {
            break;
        }
    }
    all
}

fn req_frame(id: u64, path: &str, body: Value) -> Vec<u8> {
    let mut m = Message::builder().id(id).query_str(path).body_json(&body).unwrap().build();
    m.header.query_format = 1;
    m.to_vec()
}

/// a route that answers with a raw body of `len` bytes keyed by `key` (both taken from the request)
fn big_router() -> Router {
    struct Big;
    impl repe::server::HandlerErased for Big {
        fn handle(&self, req: &Message) -> Result<Message, repe::RepeError> {
            let v: Value = req.json_body().unwrap_or(Value::Null);
            let len = v["len"].as_u64().unwrap_or(0) as usize;
            let key = v["key"].as_u64().unwrap_or(0);
            if v["fail"].as_bool().unwrap_or(false) {
                return Ok(repe::message::create_error_response_like(req, ErrorCode::ApplicationErrorBase, "scripted"));
            }
            Ok(Message::builder().id(req.header.id).query_bytes(req.query.clone()).query_format_code(1).body_bytes(keyed(len, key)).body_format_code(0).build())
        }
    }
    Router::new().with_erased_handler("/big", Arc::new(Big))
}

const SIZES: [usize; 9] = [0, 1, 8191, 8192, 8193, 65535, 65536, 65537, 1 << 20];

pub fn run(a: &Args) -> i32 {
    let mut out = util::NdJson::create(&a.req("out"));
    let rt = tokio::runtime::Builder::new_multi_thread().worker_threads(6).enable_all().build().unwrap();
    let writers = a.usize("writers", 8);
    let big = a.usize("big-mib", 16) << 20;
    let rounds = a.usize("rounds", 2);
    let mut emit = |endpoint: &str, scenario: &str, segs: Vec<Value>, interrupted: bool, note: Value, out: &mut util::NdJson| {
        out.push(&json!({"ev": "stream", "endpoint": endpoint, "scenario": scenario, "segments": segs, "interrupted": interrupted, "note": note}));
    };

    // ---------------- client endpoints: concurrent writers ----------------
    for kind in ["client", "async_client"] {
        for round in 0..rounds {
            let l = TcpListener::bind("127.0.0.1:0").unwrap();
            let addr = l.local_addr().unwrap();
            let collector = std::thread::spawn(move || {
                let (mut s, _) = l.accept().unwrap();
                drain(&mut s, Duration::from_millis(700), Duration::from_secs(20))
            });
            // each caller sends a raw body keyed by (its own key = caller index + 1000*round); the peer never answers,
            // so calls run into their timeout: only the bytes on the wire matter here
            let bodies: Vec<(u64, Vec<u8>)> = (0..writers).map(|w| { let key = 7000 + (round * 100 + w) as u64; (key, keyed(SIZES[(w + round) % SIZES.len()], key)) }).collect();
            let keys: Arc<Mutex<Vec<u64>>> = Arc::new(Mutex::new(bodies.iter().map(|b| b.0).collect()));
            if kind == "client" {
                let c = Client::connect(addr).unwrap();
                // every third writer sends a notify (its own id, no response expected) instead of a call
                let hs: Vec<_> = bodies.into_iter().enumerate().map(|(wi, (key, body))| { let c = c.clone(); std::thread::spawn(move || {
                    if wi % 3 == 2 { let _ = c.notify_with_formats(format!("/k{key}"), 1, Some(&body), 0); }
                    else { let _ = c.call_with_formats_and_timeout(format!("/k{key}"), 1, Some(&body), 0, Duration::from_millis(400)); }
                }) }).collect();
                for h in hs { let _ = h.join(); }
                drop(c);
            } else {
                let c = rt.block_on(AsyncClient::connect(addr)).unwrap();
                let hs: Vec<_> = bodies.into_iter().enumerate().map(|(wi, (key, body))| { let c = c.clone(); rt.spawn(async move {
                    if wi % 3 == 2 { let _ = c.notify_with_formats(format!("/k{key}"), 1, Some(&body), 0).await; }
                    else { let _ = c.call_with_formats_and_timeout(format!("/k{key}"), 1, Some(&body), 0, Duration::from_millis(400)).await; }
                }) }).collect();
                for h in hs { let _ = rt.block_on(h); }
                drop(c);
            }
            let bytes = collector.join().unwrap();
            // the key of a request frame is in its query "/k<key>": recover it from the stream itself
            let key_by_id = index_keys(&bytes);
            let segs = segments(&bytes, &|id| key_by_id.get(&id).copied().unwrap_or(0));
            let n_whole = segs.iter().filter(|s| s[0] == "whole").count();
            emit(kind, "concurrent_writers", segs, false, json!({"writers": writers, "bytes": bytes.len(), "whole": n_whole, "expected": keys.lock().unwrap().len()}), &mut out);
        }
    }
    // WebSocket client: concurrent callers; every binary message must be exactly one whole frame
    for round in 0..rounds {
        let l = TcpListener::bind("127.0.0.1:0").unwrap();
        let addr = l.local_addr().unwrap();
        let collector = std::thread::spawn(move || {
            let (s, _) = l.accept().unwrap();
            let cfg = tungstenite::protocol::WebSocketConfig { max_frame_size: None, max_message_size: None, ..Default::default() };
            let mut ws = tungstenite::accept_with_config(s, Some(cfg)).unwrap();
            ws.get_ref().set_read_timeout(Some(Duration::from_millis(700))).ok();
            let mut msgs = vec![];
            while let Ok(m) = ws.read() {
                if let tungstenite::Message::Binary(b) = m { msgs.push(b.to_vec()); }
            }
            msgs
        });
        let c = rt.block_on(WebSocketClient::connect(&format!("ws://{addr}"))).unwrap();
        let hs: Vec<_> = (0..writers).map(|w| { let c = c.clone(); let key = 9000 + (round * 100 + w) as u64; let body = keyed(SIZES[(w + round) % SIZES.len()], key); rt.spawn(async move {
            if w % 3 == 2 { let _ = c.notify_with_formats(format!("/k{key}"), 1, Some(&body), 0).await; }
            else { let _ = c.call_with_formats_and_timeout(format!("/k{key}"), 1, Some(&body), 0, Duration::from_millis(400)).await; }
        }) }).collect();
        for h in hs { let _ = rt.block_on(h); }
        drop(c);
        let msgs = collector.join().unwrap();
        let mut segs = vec![];
        for m in &msgs {
            let key_by_id = index_keys(m);
            let s = segments(m, &|id| key_by_id.get(&id).copied().unwrap_or(0));
            // one message = one whole frame
            if s.len() == 1 && s[0][0] == "whole" { segs.push(s[0].clone()); } else { segs.push(json!(["foreign", 0])); }
        }
        emit("ws_client", "concurrent_writers", segs, false, json!({"writers": writers, "messages": msgs.len()}), &mut out);
    }

    // ---------------- server endpoints: pipelined big responses, reader reads late ----------------
    for kind in ["server", "async_server"] {
        for (scenario, wt) in [("pipelined_responses", None), ("write_timeout_stalled_reader", Some(Duration::from_millis(60)))] {
            let (addr, _keep) = start_tcp_server(kind, wt, &rt);
            let mut s = TcpStream::connect(addr).unwrap();
            s.set_nodelay(true).ok();
            // request 1: a response of `big` bytes; requests 2..: small responses. The client does not read at first.
            let mut all = vec![];
            let first = if wt.is_some() { big } else { 3 << 20 };
            all.extend(req_frame(1, "/big", json!({"len": first, "key": 1})));
            for i in 2..6u64 { all.extend(req_frame(i, "/big", json!({"len": SIZES[i as usize % SIZES.len()], "key": i}))); }
            s.write_all(&all).unwrap();
            // stall well past the write timeout, then drain everything the server wrote
            std::thread::sleep(Duration::from_millis(if wt.is_some() { 400 } else { 50 }));
            let bytes = drain(&mut s, Duration::from_millis(600), Duration::from_secs(30));
            let segs = segments(&bytes, &|id| id);
            let interrupted = wt.is_some() && !segs.iter().any(|x| x[0] == "whole" && x[1] == 1);
            emit(kind, scenario, segs, interrupted, json!({"bytes": bytes.len(), "first_response_len": first}), &mut out);
        }
    }
    // a stalled reader and many SMALL responses (each fits any internal write buffer): the write that finally times out
    // must end the connection too; nothing may follow the partial frame
    for kind in ["server", "async_server"] {
        for len in [4000usize, 7000] {
            let (addr, _keep) = start_tcp_server(kind, Some(Duration::from_millis(60)), &rt);
            let mut s = TcpStream::connect(addr).unwrap();
            s.set_nodelay(true).ok();
            let n = (10usize << 20) / (len + 60);
            let mut w = s.try_clone().unwrap();
            let sender = std::thread::spawn(move || {
                for i in 1..=n as u64 { if w.write_all(&req_frame(i, "/big", json!({"len": len, "key": i}))).is_err() { break; } }
            });
            std::thread::sleep(Duration::from_millis(700));
            let bytes = drain(&mut s, Duration::from_millis(600), Duration::from_secs(30));
            let _ = s.shutdown(std::net::Shutdown::Both);
            let _ = sender.join();
            let segs = segments(&bytes, &|id| id);
            let whole = segs.iter().filter(|x| x[0] == "whole").count();
            let interrupted = whole < n;
            // keep the event small: whole frames are summarised by the recorder's parser already
            emit(kind, "write_timeout_many_small_responses", segs, interrupted, json!({"bytes": bytes.len(), "requests": n, "response_len": len, "whole": whole}), &mut out);
        }
    }
    // WebSocket server: concurrent off-reader responses and pushed notifies; each message one whole frame
    {
        let listener = rt.block_on(WebSocketServer::listen("127.0.0.1:0")).unwrap();
        let addr = listener.local_addr().unwrap();
        struct BigB;
        impl repe::server::HandlerErased for BigB {
            fn handle(&self, req: &Message) -> Result<Message, repe::RepeError> {
                let v: Value = req.json_body().unwrap_or(Value::Null);
                Ok(Message::builder().id(req.header.id).query_bytes(req.query.clone()).query_format_code(1).body_bytes(keyed(v["len"].as_u64().unwrap_or(0) as usize, v["key"].as_u64().unwrap_or(0))).body_format_code(0).build())
            }
            fn execution(&self) -> repe::server::Execution { repe::server::Execution::OffReader }
        }
        let router = big_router().with_erased_handler("/bigB", Arc::new(BigB));
        rt.spawn(async move { let _ = WebSocketServer::new(router).with_offreader_limit(0).serve_listener(listener, "/ws").await; });
        std::thread::sleep(Duration::from_millis(30));
        let s = TcpStream::connect(addr).unwrap();
        let cfg = tungstenite::protocol::WebSocketConfig { max_frame_size: None, max_message_size: None, ..Default::default() };
        let (mut ws, _) = tungstenite::client::client_with_config(format!("ws://{addr}/ws"), s, Some(cfg)).unwrap();
        let n = writers.max(8) as u64;
        for i in 1..=n {
            let path = if i % 2 == 0 { "/bigB" } else { "/big" };
            ws.send(tungstenite::Message::Binary(req_frame(i, path, json!({"len": SIZES[i as usize % SIZES.len()], "key": i})).into())).unwrap();
        }
        ws.get_ref().set_read_timeout(Some(Duration::from_millis(800))).ok();
        let mut segs = vec![];
        let mut got = 0;
        while got < n {
            match ws.read() {
                Ok(tungstenite::Message::Binary(b)) => {
                    got += 1;
                    let sg = segments(&b, &|id| id);
                    if sg.len() == 1 && sg[0][0] == "whole" { segs.push(sg[0].clone()); } else { segs.push(json!(["foreign", 0])); }
                }
                Ok(_) => {}
                Err(_) => break,
            }
        }
        emit("ws_server", "concurrent_responses", segs, false, json!({"requests": n, "messages": got}), &mut out);
    }

    // WebSocket server with an assumed peer frame limit: an oversized response is REPLACED by an error frame the server
    // builds itself; whatever it builds (however small the limit) must still be one whole, self-consistent frame
    for limit in [49usize, 60, 100, 128, 160, 200, 1024] {
        let listener = rt.block_on(WebSocketServer::listen("127.0.0.1:0")).unwrap();
        let addr = listener.local_addr().unwrap();
        let wl = repe::WebSocketLimits::unlimited().with_assumed_peer_frame_limit(Some(limit));
        rt.spawn(async move { let _ = WebSocketServer::new(big_router()).with_limits(wl).with_offreader_limit(0).serve_listener(listener, "/ws").await; });
        std::thread::sleep(Duration::from_millis(30));
        let s = TcpStream::connect(addr).unwrap();
        let cfg = tungstenite::protocol::WebSocketConfig { max_frame_size: None, max_message_size: None, ..Default::default() };
        let (mut ws, _) = tungstenite::client::client_with_config(format!("ws://{addr}/ws"), s, Some(cfg)).unwrap();
        let lens = [0usize, 10, limit.saturating_sub(53), limit, limit + 1, 4 * limit + 7, 70_000];
        for (i, len) in lens.iter().enumerate() {
            ws.send(tungstenite::Message::Binary(req_frame(i as u64 + 1, "/big", json!({"len": len, "key": i as u64 + 1})).into())).unwrap();
        }
        ws.get_ref().set_read_timeout(Some(Duration::from_millis(800))).ok();
        let (mut segs, mut got, mut substituted) = (vec![], 0usize, 0usize);
        while got < lens.len() {
            match ws.read() {
                Ok(tungstenite::Message::Binary(b)) => {
                    got += 1;
                    let consistent = b.len() >= 48 && b[8] == 0x07 && b[9] == 0x15 && {
                        let (t, q, bl) = (u64::from_le_bytes(b[0..8].try_into().unwrap()), u64::from_le_bytes(b[24..32].try_into().unwrap()), u64::from_le_bytes(b[32..40].try_into().unwrap()));
                        t == b.len() as u64 && 48u64.checked_add(q).and_then(|x| x.checked_add(bl)) == Some(t)
                    };
                    let ec = if b.len() >= 48 { u32::from_le_bytes(b[44..48].try_into().unwrap()) } else { 0 };
                    let id = if b.len() >= 24 { u64::from_le_bytes(b[16..24].try_into().unwrap()) } else { 0 };
                    if !consistent { segs.push(json!(["bad_header", 0])); }
                    else if ec != 0 { substituted += 1; segs.push(json!(["whole", id])); }
                    else { let sg = segments(&b, &|id| id); if sg.len() == 1 && sg[0][0] == "whole" { segs.push(sg[0].clone()); } else { segs.push(json!(["foreign", 0])); } }
                }
                Ok(_) => {}
                Err(_) => break,
            }
        }
        emit("ws_server", "substituted_error_frames", segs, false, json!({"limit": limit, "requests": lens.len(), "messages": got, "substituted": substituted}), &mut out);
    }

    // ---------------- interrupted writes on the clients ----------------
    // blocking client: a write timeout expires mid-frame against a stalled peer; a second call must not follow it
    {
        let l = TcpListener::bind("127.0.0.1:0").unwrap();
        let addr = l.local_addr().unwrap();
        let collector = std::thread::spawn(move || {
            let (mut s, _) = l.accept().unwrap();
            std::thread::sleep(Duration::from_millis(900)); // stalled: read nothing while the client writes
            drain(&mut s, Duration::from_millis(600), Duration::from_secs(30))
        });
        let c = Client::connect(addr).unwrap();
        c.set_write_timeout(Some(Duration::from_millis(60))).unwrap();
        let body = keyed(big, 501);
        let r1 = c.call_with_formats_and_timeout("/k501", 1, Some(&body), 0, Duration::from_millis(300));
        // one call while the peer is still stalled, one after it has started reading again
        let r2 = c.call_with_formats_and_timeout("/k502", 1, Some(&keyed(8, 502)), 0, Duration::from_millis(300));
        std::thread::sleep(Duration::from_millis(700));
        let r3 = c.call_with_formats_and_timeout("/k503", 1, Some(&keyed(100, 503)), 0, Duration::from_millis(300));
        drop(c);
        let bytes = collector.join().unwrap();
        let key_by_id = index_keys(&bytes);
        let segs = segments(&bytes, &|id| key_by_id.get(&id).copied().unwrap_or(501));
        let interrupted = !segs.iter().any(|x| x[0] == "whole" && x[1] == 1);
        emit("client", "write_timeout_stalled_peer", segs, interrupted, json!({"bytes": bytes.len(), "call1": format!("{:?}", r1.as_ref().map(|_| ()).map_err(|e| e.to_string().chars().take(60).collect::<String>())),
             "call2_err": r2.is_err(), "call3_err": r3.is_err()}), &mut out);
    }
    // async client: the caller abandons its call (task aborted) while the request is being written
    for delay_ms in [40u64, 120] {
        let l = TcpListener::bind("127.0.0.1:0").unwrap();
        let addr = l.local_addr().unwrap();
        let collector = std::thread::spawn(move || {
            let (mut s, _) = l.accept().unwrap();
            std::thread::sleep(Duration::from_millis(900));
            drain(&mut s, Duration::from_millis(600), Duration::from_secs(30))
        });
        let c = rt.block_on(AsyncClient::connect(addr)).unwrap();
        let body = keyed(big, 601);
        let c1 = c.clone();
        let h = rt.spawn(async move { let _ = c1.call_with_formats("/k601", 1, Some(&body), 0).await; });
        std::thread::sleep(Duration::from_millis(delay_ms));
        h.abort();
        let _ = rt.block_on(h);
        let r2 = rt.block_on(c.call_with_formats_and_timeout("/k602", 1, Some(&keyed(8, 602)), 0, Duration::from_millis(300)));
        drop(c);
        let bytes = collector.join().unwrap();
        let key_by_id = index_keys(&bytes);
        let segs = segments(&bytes, &|id| key_by_id.get(&id).copied().unwrap_or(601));
        let interrupted = !segs.iter().any(|x| x[0] == "whole" && x[1] == 1);
        emit("async_client", "call_abandoned_mid_write", segs, interrupted, json!({"bytes": bytes.len(), "abort_after_ms": delay_ms, "call2_err": r2.is_err()}), &mut out);
    }
    // a NOTIFY abandoned mid-write (no pending entry exists for it, nothing else is in flight): the connection must
    // fail all the same; a later notify or call must not follow the torn frame
    // (third flavour: the notify goes out through forward_message, the entry point a proxy uses)
    for flavour in ["async_client", "ws_client", "async_client_forward"] {
        let kind = if flavour == "async_client_forward" { "async_client" } else { flavour };
        let forward = flavour == "async_client_forward";
        let l = TcpListener::bind("127.0.0.1:0").unwrap();
        let addr = l.local_addr().unwrap();
        let ws = kind == "ws_client";
        let collector = std::thread::spawn(move || -> (Vec<u8>, Vec<Vec<u8>>) {
            let (mut s, _) = l.accept().unwrap();
            if ws {
                let cfg = tungstenite::protocol::WebSocketConfig { max_frame_size: None, max_message_size: None, ..Default::default() };
                let mut w = tungstenite::accept_with_config(s, Some(cfg)).unwrap();
                std::thread::sleep(Duration::from_millis(900));
                w.get_ref().set_read_timeout(Some(Duration::from_millis(700))).ok();
                let mut msgs = vec![];
                loop { match w.read() { Ok(tungstenite::Message::Binary(b)) => msgs.push(b.to_vec()), Ok(_) => {},
                    // a WebSocket protocol violation (an unfinished fragmented message followed by another message): what was sent is not a sequence of whole messages
                    Err(tungstenite::Error::Protocol(_)) => { msgs.push(b"websocket protocol error".to_vec()); break }
                    Err(_) => break } }
                (vec![], msgs)
            } else {
                std::thread::sleep(Duration::from_millis(900));
                (drain(&mut s, Duration::from_millis(600), Duration::from_secs(30)), vec![])
            }
        });
        let body = keyed(big, 801);
        let later_err;
        if ws {
            let c = rt.block_on(WebSocketClient::connect_with_limits(&format!("ws://{addr}"), repe::WebSocketLimits::unlimited())).unwrap();
            let c1 = c.clone();
            let h = rt.spawn(async move { let _ = c1.notify_with_formats("/k801", 1, Some(&body), 0).await; });
            std::thread::sleep(Duration::from_millis(80));
            h.abort();
            let _ = rt.block_on(h);
            later_err = rt.block_on(c.notify_with_formats("/k802", 1, Some(&keyed(8, 802)), 0)).is_err();
            drop(c);
        } else {
            let c = rt.block_on(AsyncClient::connect(addr)).unwrap();
            let c1 = c.clone();
            let fwd = |id: u64, path: &str, b: Vec<u8>| Message::builder().id(id).notify(true).query_str(path).query_format_code(1).body_bytes(b).body_format_code(0).build();
            let h = if forward { let m = fwd(801, "/k801", body); rt.spawn(async move { let _ = c1.forward_message(&m).await; }) }
                    else { rt.spawn(async move { let _ = c1.notify_with_formats("/k801", 1, Some(&body), 0).await; }) };
            std::thread::sleep(Duration::from_millis(80));
            h.abort();
            let _ = rt.block_on(h);
            later_err = if forward { rt.block_on(c.forward_message(&fwd(802, "/k802", keyed(8, 802)))).is_err() } else { rt.block_on(c.notify_with_formats("/k802", 1, Some(&keyed(8, 802)), 0)).is_err() };
            drop(c);
        }
        let (bytes, msgs) = collector.join().unwrap();
        if ws {
            let mut segs = vec![];
            for m in &msgs {
                let key_by_id = index_keys(m);
                let sg = segments(m, &|id| key_by_id.get(&id).copied().unwrap_or(0));
                if sg.len() == 1 && sg[0][0] == "whole" { segs.push(sg[0].clone()); } else { segs.push(json!(["foreign", 0])); }
            }
            emit(kind, "notify_abandoned_mid_write", segs, false, json!({"messages": msgs.len(), "later_err": later_err}), &mut out);
        } else {
            let key_by_id = index_keys(&bytes);
            let segs = segments(&bytes, &|id| key_by_id.get(&id).copied().unwrap_or(801));
            let interrupted = !segs.iter().any(|x| x[0] == "whole" && x[1] == 1);
            emit(kind, if forward { "forwarded_notify_abandoned_mid_write" } else { "notify_abandoned_mid_write" }, segs, interrupted, json!({"bytes": bytes.len(), "later_err": later_err}), &mut out);
        }
    }
    // callers queued on the writer behind the interrupted one: when it lets go of the writer they must not put a
    // frame after the torn one (async client: aborted caller; blocking client: write timeout)
    for delay_ms in [40u64, 120] {
        let l = TcpListener::bind("127.0.0.1:0").unwrap();
        let addr = l.local_addr().unwrap();
        let collector = std::thread::spawn(move || {
            let (mut s, _) = l.accept().unwrap();
            std::thread::sleep(Duration::from_millis(900));
            drain(&mut s, Duration::from_millis(600), Duration::from_secs(30))
        });
        let c = rt.block_on(AsyncClient::connect(addr)).unwrap();
        let body = keyed(big, 611);
        let c1 = c.clone();
        let h = rt.spawn(async move { let _ = c1.call_with_formats("/k611", 1, Some(&body), 0).await; });
        std::thread::sleep(Duration::from_millis(15));
        let queued: Vec<_> = (0..3u64).map(|i| { let c = c.clone(); rt.spawn(async move {
            c.call_with_formats_and_timeout(format!("/k{}", 612 + i), 1, Some(&keyed(8 + 100 * i as usize, 612 + i)), 0, Duration::from_millis(1500)).await.is_err()
        }) }).collect();
        std::thread::sleep(Duration::from_millis(delay_ms));
        h.abort();
        let _ = rt.block_on(h);
        let errs: Vec<bool> = queued.into_iter().map(|q| rt.block_on(q).unwrap_or(true)).collect();
        drop(c);
        let bytes = collector.join().unwrap();
        let key_by_id = index_keys(&bytes);
        let segs = segments(&bytes, &|id| key_by_id.get(&id).copied().unwrap_or(611));
        let interrupted = !segs.iter().any(|x| x[0] == "whole" && x[1] == 1);
        emit("async_client", "queued_callers_behind_abandoned_write", segs, interrupted, json!({"bytes": bytes.len(), "abort_after_ms": delay_ms, "queued_errs": errs}), &mut out);
    }
    {
        let l = TcpListener::bind("127.0.0.1:0").unwrap();
        let addr = l.local_addr().unwrap();
        let collector = std::thread::spawn(move || {
            let (mut s, _) = l.accept().unwrap();
            std::thread::sleep(Duration::from_millis(900));
            drain(&mut s, Duration::from_millis(600), Duration::from_secs(30))
        });
        let c = Client::connect(addr).unwrap();
        c.set_write_timeout(Some(Duration::from_millis(120))).unwrap();
        let c1 = c.clone();
        let body = keyed(big, 511);
        let h = std::thread::spawn(move || { let _ = c1.call_with_formats_and_timeout("/k511", 1, Some(&body), 0, Duration::from_millis(300)); });
        std::thread::sleep(Duration::from_millis(20));
        let queued: Vec<_> = (0..3u64).map(|i| { let c = c.clone(); std::thread::spawn(move || {
            c.call_with_formats_and_timeout(format!("/k{}", 512 + i), 1, Some(&keyed(8 + 100 * i as usize, 512 + i)), 0, Duration::from_millis(1500)).is_err()
        }) }).collect();
        let _ = h.join();
        let errs: Vec<bool> = queued.into_iter().map(|q| q.join().unwrap_or(true)).collect();
        drop(c);
        let bytes = collector.join().unwrap();
        let key_by_id = index_keys(&bytes);
        let segs = segments(&bytes, &|id| key_by_id.get(&id).copied().unwrap_or(511));
        let interrupted = !segs.iter().any(|x| x[0] == "whole" && x[1] == 1);
        emit("client", "queued_callers_behind_write_timeout", segs, interrupted, json!({"bytes": bytes.len(), "queued_errs": errs}), &mut out);
    }
    // WebSocket client: same abandonment; whatever messages arrive must be whole frames
    {
        let l = TcpListener::bind("127.0.0.1:0").unwrap();
        let addr = l.local_addr().unwrap();
        let collector = std::thread::spawn(move || {
            let (s, _) = l.accept().unwrap();
            let cfg = tungstenite::protocol::WebSocketConfig { max_frame_size: None, max_message_size: None, ..Default::default() };
            let mut ws = tungstenite::accept_with_config(s, Some(cfg)).unwrap();
            std::thread::sleep(Duration::from_millis(900));
            ws.get_ref().set_read_timeout(Some(Duration::from_millis(700))).ok();
            let mut msgs = vec![];
            loop {
                match ws.read() {
                    Ok(tungstenite::Message::Binary(b)) => msgs.push(b.to_vec()),
                    Ok(_) => {}
                    Err(_) => break,
                }
            }
            msgs
        });
        let c = rt.block_on(WebSocketClient::connect_with_limits(&format!("ws://{addr}"), repe::WebSocketLimits::unlimited())).unwrap();
        let body = keyed(big, 701);
        let c1 = c.clone();
        let h = rt.spawn(async move { let _ = c1.call_with_formats("/k701", 1, Some(&body), 0).await; });
        std::thread::sleep(Duration::from_millis(80));
        h.abort();
        let _ = rt.block_on(h);
        let r2 = rt.block_on(c.call_with_formats_and_timeout("/k702", 1, Some(&keyed(8, 702)), 0, Duration::from_millis(300)));
        drop(c);
        let msgs = collector.join().unwrap();
        let mut segs = vec![];
        for m in &msgs {
            let key_by_id = index_keys(m);
            let s = segments(m, &|id| key_by_id.get(&id).copied().unwrap_or(0));
            if s.len() == 1 && s[0][0] == "whole" { segs.push(s[0].clone()); } else { segs.push(json!(["foreign", 0])); }
        }
        emit("ws_client", "call_abandoned_mid_write", segs, false, json!({"messages": msgs.len(), "call2_err": r2.is_err()}), &mut out);
    }
    let lines = out.lines;
    out.finish();
    util::write_json(&a.str("summary", "/dev/null"), &json!({"streams": lines}));
    rt.shutdown_timeout(Duration::from_secs(2));
    0
}

/// scan a byte stream for request frames and map id -> key parsed from the query "/k<key>"
fn index_keys(bytes: &[u8]) -> std::collections::HashMap<u64, u64> {
    let mut m = std::collections::HashMap::new();
    let mut p = 0;
    while p + 48 <= bytes.len() {
        if bytes[p + 8] == 0x07 && bytes[p + 9] == 0x15 {
            let total = u64::from_le_bytes(bytes[p..p + 8].try_into().unwrap());
            let id = u64::from_le_bytes(bytes[p + 16..p + 24].try_into().unwrap());
            let q = u64::from_le_bytes(bytes[p + 24..p + 32].try_into().unwrap()) as usize;
            let b = u64::from_le_bytes(bytes[p + 32..p + 40].try_into().unwrap());
            if q < 64 && 48 + q as u64 + b == total && p + 48 + q <= bytes.len() {
                if let Ok(s) = std::str::from_utf8(&bytes[p + 48..p + 48 + q]) {
                    if let Some(k) = s.strip_prefix("/k").and_then(|x| x.parse::<u64>().ok()) {
                        m.insert(id, k);
                        p += (total as usize).min(bytes.len() - p).max(1);
                        continue;
                    }
                }
            }
        }
        p += 1;
        if m.len() > 64 && p > (1 << 22) { break; }
    }
    m
}

fn start_tcp_server(kind: &str, wt: Option<Duration>, rt: &tokio::runtime::Runtime) -> (std::net::SocketAddr, ()) {
    if kind == "server" {
        let l = TcpListener::bind("127.0.0.1:0").unwrap();
        let addr = l.local_addr().unwrap();
        let srv = Server::new(big_router()).write_timeout(wt);
        std::thread::spawn(move || { let _ = srv.serve(l); });
        (addr, ())
    } else {
        let l = rt.block_on(AsyncServer::listen("127.0.0.1:0")).unwrap();
        let addr = l.local_addr().unwrap();
        let srv = AsyncServer::new(big_router()).write_timeout(wt);
        rt.spawn(async move { let _ = srv.serve(l).await; });
        std::thread::sleep(Duration::from_millis(20));
        (addr, ())
    }
}
