//! C15 engine: connection lifecycle hooks on every exit path of the WebSocket server, observed
//! through public callbacks (on_peer_connect / on_peer_disconnect / with_peer_registry /
//! CallContext::is_cancelled) and a raw WebSocket peer; recorded for Trace_Lifecycle.tla.

use crate::util::{self, Args};
use futures_util::{SinkExt, StreamExt};
use repe::websocket_server::ShutdownToken;
use repe::{ErrorCode, Message, NotifyBody, PeerRegistry, Router, WebSocketServer};
use serde_json::{json, Value};
use std::sync::atomic::{AtomicBool, AtomicU64, Ordering};
use std::sync::{Arc, Condvar, Mutex};
use std::time::{Duration, Instant};
use tokio_tungstenite::tungstenite::protocol::Role;
use tokio_tungstenite::tungstenite::Message as WsMsg;
use tokio_tungstenite::WebSocketStream;

#[derive(Default)]
struct Obs {
    connects: AtomicU64,
    disconnects: AtomicU64,
    disconnect_before_connect: AtomicBool,
    off_started: AtomicBool,
    off_saw_cancel: AtomicBool,
    inline_started: AtomicBool,
    inline_saw_cancel: AtomicBool,
    inline_finished: AtomicBool,
    off_finished: AtomicBool,
    last_peer: AtomicU64,
    gate_open: Mutex<bool>,
    gate_cv: Condvar,
    connect_gate: AtomicBool, // connect hook parks until the gate opens
    connect_panic: AtomicBool,
    missing_in_hook: AtomicBool, // a disconnect callback registered before the registry found the peer or its aliases already gone
    late_alias: AtomicU64, // 0 = alias() not reached, 1 = returned false, 2 = returned true
}
impl Obs {
    fn open(&self) {
        *self.gate_open.lock().unwrap() = true;
        self.gate_cv.notify_all();
    }
    fn wait_gate(&self, max: Duration) {
        let mut g = self.gate_open.lock().unwrap();
        let t0 = Instant::now();
        while !*g && t0.elapsed() < max {
            g = self.gate_cv.wait_timeout(g, Duration::from_millis(50)).unwrap().0;
        }
    }
}

/// an alias key whose conversion to a string returns only after the connection's disconnect hooks have run:
/// an alias() issued by a handler while its connection goes away must not outlive the peer
struct SlowKey(Arc<Obs>);
impl From<SlowKey> for String {
    fn from(k: SlowKey) -> String {
        let t0 = Instant::now();
        while k.0.disconnects.load(Ordering::SeqCst) == 0 && t0.elapsed() < Duration::from_secs(3) { std::thread::sleep(Duration::from_millis(1)); }
        std::thread::sleep(Duration::from_millis(5));
        "late-alias".to_string()
    }
}

fn build_server(obs: &Arc<Obs>, reg: &PeerRegistry) -> WebSocketServer {
    let (o1, o2, o3, o4) = (obs.clone(), obs.clone(), obs.clone(), obs.clone());
    let (o5, reg5) = (obs.clone(), reg.clone());
    let o6 = obs.clone();
    let router = Router::new()
        // an INLINE context-aware handler (it runs on the connection's reader): it, too, must see the embedder's cancellation
        .with_json_ctx("/inline_ctx_park", move |ctx, _v| {
            o6.inline_started.store(true, Ordering::SeqCst);
            let t0 = Instant::now();
            while t0.elapsed() < Duration::from_secs(3) {
                if ctx.is_cancelled() { o6.inline_saw_cancel.store(true, Ordering::SeqCst); break; }
                std::thread::sleep(Duration::from_millis(5));
            }
            o6.inline_finished.store(true, Ordering::SeqCst);
            Ok(json!({}))
        })
        .with_json("/echo", |v| Ok(v))
        .with_json("/big", |_v| Ok(json!({"pad": "y".repeat(1 << 20)})))
        .with_json("/inline_park", move |v| { o1.wait_gate(Duration::from_secs(5)); Ok(v) })
        .with_json("/panic", |_v| -> Result<Value, (ErrorCode, String)> { panic!("scripted inline handler panic") })
        .with_json_ctx_blocking("/off_park", move |ctx, _v| {
            o2.off_started.store(true, Ordering::SeqCst);
            let t0 = Instant::now();
            while t0.elapsed() < Duration::from_secs(6) {
                if ctx.is_cancelled() { o2.off_saw_cancel.store(true, Ordering::SeqCst); break; }
                std::thread::sleep(Duration::from_millis(5));
            }
            o2.off_finished.store(true, Ordering::SeqCst);
            Ok(json!({}))
        })
        .with_json_ctx_blocking("/off_alias", move |ctx, _v| {
            // aliases its own peer while the connection is going away (the key conversion spans the disconnect)
            o5.off_started.store(true, Ordering::SeqCst);
            if let Some(p) = ctx.peer() { let r = reg5.alias(p.peer_id(), SlowKey(o5.clone())); o5.late_alias.store(if r { 2 } else { 1 }, Ordering::SeqCst); }
            if ctx.is_cancelled() { o5.off_saw_cancel.store(true, Ordering::SeqCst); }
            o5.off_finished.store(true, Ordering::SeqCst);
            Ok(json!({}))
        })
        .with_json_blocking("/off_stubborn", move |_v| {
            // ignores cancellation: only a drain-deadline abort ends the connection under it
            o3.off_started.store(true, Ordering::SeqCst);
            std::thread::sleep(Duration::from_millis(1500));
            o3.off_finished.store(true, Ordering::SeqCst);
            Ok(json!({}))
        });
    let reg2 = reg.clone();
    let (oc, od) = (obs.clone(), obs.clone());
    // the per-connection outbound queue is varied too (256 = default, 2, 1)
    static BUILDS: AtomicU64 = AtomicU64::new(0);
    let outcap = [256usize, 2, 1][(BUILDS.fetch_add(1, Ordering::SeqCst) % 3) as usize];
    let (o6, reg6) = (obs.clone(), reg.clone());
    // the off-reader cap is varied as well: the default (16), none (0 = uncapped) and 1
    let n_build = BUILDS.load(Ordering::SeqCst);
    let base = WebSocketServer::new(router);
    let base = match (n_build / 3) % 3 { 0 => base, 1 => base.with_offreader_limit(0), _ => base.with_offreader_limit(1) };
    base
        .with_outbound_capacity(outcap)
        // registered BEFORE the registry is attached: it runs first and must still find the peer and its aliases
        .on_peer_disconnect(move |id| { if reg6.get(id).is_none() || reg6.aliases_for(id).is_empty() { o6.missing_in_hook.store(true, Ordering::SeqCst); } })
        .with_peer_registry(reg.clone())
        .on_peer_connect(move |peer| {
            oc.connects.fetch_add(1, Ordering::SeqCst);
            oc.last_peer.store(peer.peer_id().0 + 1, Ordering::SeqCst);
            reg2.alias(peer.peer_id(), format!("alias-{}", peer.peer_id().0));
            // a key every connection claims (a session token): it belongs to the most recent connection
            reg2.alias(peer.peer_id(), "session");
            let _ = peer.send_notify("/hello", NotifyBody::Json(b"{\"hello\":1}".to_vec()));
            if oc.connect_gate.load(Ordering::SeqCst) { oc.wait_gate(Duration::from_secs(5)); }
        })
        .on_peer_connect(move |_peer| {
            if o4.connect_panic.load(Ordering::SeqCst) { panic!("scripted connect-callback panic"); }
        })
        .on_peer_disconnect(move |_id| {
            if od.connects.load(Ordering::SeqCst) == 0 { od.disconnect_before_connect.store(true, Ordering::SeqCst); }
            od.disconnects.fetch_add(1, Ordering::SeqCst);
        })
        .on_error(|_e| {})
}

fn req(id: u64, path: &str, body: Value) -> Vec<u8> {
    let mut m = Message::builder().id(id).query_str(path).body_json(&body).unwrap().build();
    m.header.query_format = 1;
    m.to_vec()
}

type Client<S> = WebSocketStream<S>;
async fn do_phase_and_cause<S>(ws: &mut Client<S>, phase: &str, cause: &str, obs: &Arc<Obs>, frames: &mut Vec<(u8, String)>)
where S: tokio::io::AsyncRead + tokio::io::AsyncWrite + Unpin {
    // bring the connection into the phase
    match phase {
        "idle" => { let _ = ws.send(WsMsg::Binary(req(1, "/echo", json!(1)).into())).await; read_some(ws, frames, 2, 300).await; }
        "inline_running" => { let _ = ws.send(WsMsg::Binary(req(2, "/inline_park", json!(2)).into())).await; tokio::time::sleep(Duration::from_millis(30)).await; }
        "off_parked" => {
            let _ = ws.send(WsMsg::Binary(req(3, if cause == "drain_abort" { "/off_stubborn" } else { "/off_park" }, json!(3)).into())).await;
            let t0 = Instant::now();
            while !obs.off_started.load(Ordering::SeqCst) && t0.elapsed() < Duration::from_secs(3) { tokio::time::sleep(Duration::from_millis(2)).await; }
        }
        "inline_ctx_parked" => {
            let _ = ws.send(WsMsg::Binary(req(5, "/inline_ctx_park", json!(5)).into())).await;
            let t0 = Instant::now();
            while !obs.inline_started.load(Ordering::SeqCst) && t0.elapsed() < Duration::from_secs(3) { tokio::time::sleep(Duration::from_millis(2)).await; }
        }
        "off_aliasing" => {
            let _ = ws.send(WsMsg::Binary(req(4, "/off_alias", json!(4)).into())).await;
            let t0 = Instant::now();
            while !obs.off_started.load(Ordering::SeqCst) && t0.elapsed() < Duration::from_secs(3) { tokio::time::sleep(Duration::from_millis(2)).await; }
            tokio::time::sleep(Duration::from_millis(10)).await;
        }
        // the peer stops reading: the writer task is stuck mid-send when the embedder cancels
        "outbound_stuck" => { for i in 0..24 { let _ = ws.send(WsMsg::Binary(req(100 + i, "/big", json!(0)).into())).await; } tokio::time::sleep(Duration::from_millis(150)).await; }
        "outbound_nonempty" => { for i in 0..24 { let _ = ws.send(WsMsg::Binary(req(100 + i, "/big", json!(0)).into())).await; } tokio::time::sleep(Duration::from_millis(30)).await; }
        _ => {}
    }
    // client-side causes
    match cause {
        "clean_close" => { let _ = ws.close(None).await; }
        "text_frame" => { let _ = ws.send(WsMsg::Text("not binary".into())).await; }
        "malformed_frame" => { let _ = ws.send(WsMsg::Binary(vec![9u8; 10].into())).await; }
        "inline_panic" => { let _ = ws.send(WsMsg::Binary(req(9, "/panic", json!(0)).into())).await; }
        _ => {}
    }
}
async fn read_some<S>(ws: &mut Client<S>, frames: &mut Vec<(u8, String)>, max: usize, ms: u64)
where S: tokio::io::AsyncRead + tokio::io::AsyncWrite + Unpin {
    let t0 = Instant::now();
    while frames.len() < max && t0.elapsed() < Duration::from_millis(ms) {
        match tokio::time::timeout(Duration::from_millis(50), ws.next()).await {
            Ok(Some(Ok(WsMsg::Binary(b)))) if b.len() >= 48 => {
                let q = u64::from_le_bytes(b[24..32].try_into().unwrap()) as usize;
                frames.push((b[11], String::from_utf8_lossy(&b[48..48 + q.min(b.len() - 48)]).to_string()));
            }
            Ok(Some(Ok(_))) => {}
            Ok(Some(Err(_))) | Ok(None) => break,
            Err(_) => {}
        }
    }
}

pub fn run(a: &Args) -> i32 {
    std::panic::set_hook(Box::new(|_| {}));
    let rt = tokio::runtime::Builder::new_multi_thread().worker_threads(8).max_blocking_threads(128).enable_all().build().unwrap();
    let mut out = util::NdJson::create(&a.req("out"));
    let full = a.flag("full");
    let entries: Vec<&str> = if full { vec!["listener", "listener_shutdown", "drain", "serve_connection", "serve_connection_cancel", "adopt", "adopt_partial"] } else { vec!["listener", "drain", "serve_connection_cancel", "adopt", "adopt_partial"] };
    let client_causes = ["clean_close", "socket_loss", "text_frame", "malformed_frame", "inline_panic"];
    let phases = ["idle", "inline_running", "off_parked", "outbound_nonempty", "during_connect"];
    let mut scenarios: Vec<(String, String, String, usize)> = vec![]; // entry, cause, phase, concurrent connections
    for e in &entries {
        for c in client_causes {
            for p in phases {
                if p == "during_connect" && c != "socket_loss" { continue; }
                if p == "inline_running" && !matches!(c, "socket_loss" | "clean_close") { continue; }
                if !full && *e != "listener" && !(p == "idle" || p == "off_parked") { continue; }
                scenarios.push((e.to_string(), c.to_string(), p.to_string(), 1));
            }
        }
        scenarios.push((e.to_string(), "connect_panic".into(), "during_connect".into(), 1));
        scenarios.push((e.to_string(), "bad_handshake".into(), "handshake".into(), 1));
        if matches!(*e, "listener_shutdown" | "drain" | "serve_connection_cancel") {
            for p in ["idle", "off_parked", "outbound_stuck", "inline_ctx_parked"] {
                // serve_listener_with_shutdown only stops accepting: connections it has accepted are detached, nothing cancels
                // them (documented).  The two phases that need the embedder's cancellation to REACH the connection apply to
                // the draining loop and to serve_connection_with_cancel only.
                if *e == "listener_shutdown" && matches!(p, "outbound_stuck" | "inline_ctx_parked") { continue; }
                scenarios.push((e.to_string(), "cancel".into(), p.into(), 1));
            }
        }
        if *e == "drain" { scenarios.push((e.to_string(), "drain_abort".into(), "off_parked".into(), 1)); }
    }
    for e in ["listener", "serve_connection", "adopt"] {
        for c in ["socket_loss", "clean_close"] { scenarios.push((e.to_string(), c.to_string(), "off_aliasing".to_string(), 1)); }
    }
    for n in [4usize, a.usize("max-conns", 8)] {
        scenarios.push(("listener".into(), "socket_loss".into(), "idle".into(), n));
        scenarios.push(("drain".into(), "cancel".into(), "off_parked".into(), n));
    }
    let mut count = 0u64;
    for (entry, cause, phase, nconn) in scenarios {
        count += 1;
        let reg = PeerRegistry::new();
        let obs: Vec<Arc<Obs>> = (0..1).map(|_| Arc::new(Obs::default())).collect();
        let ob = obs[0].clone();
        ob.connect_gate.store(phase == "during_connect" && cause == "socket_loss", Ordering::SeqCst);
        ob.connect_panic.store(cause == "connect_panic", Ordering::SeqCst);
        let server = build_server(&ob, &reg);
        let token = ShutdownToken::new();
        let (tx_shutdown, rx_shutdown) = tokio::sync::oneshot::channel::<()>();
        // kept alive to the end of the scenario: dropping the sender would complete the shutdown future
        let mut tx_hold = Some(tx_shutdown);
        let listener = rt.block_on(WebSocketServer::listen("127.0.0.1:0")).unwrap();
        let addr = listener.local_addr().unwrap();
        let path_ok = cause != "bad_handshake";
        // serve
        let mut duplex_client: Option<tokio::io::DuplexStream> = None;
        let tk = token.clone();
        let server_task = match entry.as_str() {
            "listener" => rt.spawn(async move { let _ = server.serve_listener(listener, "/ws").await; }),
            "listener_shutdown" => rt.spawn(async move { let _ = server.serve_listener_with_shutdown(listener, "/ws", async { let _ = rx_shutdown.await; }).await; }),
            "drain" => rt.spawn(async move { let _ = server.serve_listener_with_graceful_drain(listener, "/ws", async { let _ = rx_shutdown.await; }, Duration::from_millis(250)).await; }),
            "serve_connection" | "serve_connection_cancel" => {
                let shared = server.into_shared();
                let with_cancel = entry == "serve_connection_cancel";
                rt.spawn(async move {
                    loop {
                        let Ok((s, _)) = listener.accept().await else { break };
                        let (shared, tk) = (shared.clone(), tk.clone());
                        tokio::spawn(async move {
                            if let Ok(ws) = shared.accept(s, "/ws").await {
                                if with_cancel { let _ = shared.serve_connection_with_cancel(ws, &tk).await; } else { let _ = shared.serve_connection(ws).await; }
                            }
                        });
                    }
                })
            }
            _ => {
                // adopt_upgraded over an in-memory duplex (no HTTP handshake)
                let shared = server.into_shared();
                let (c, s) = tokio::io::duplex(1 << 16);
                duplex_client = Some(c);
                let partial = entry == "adopt_partial";
                rt.spawn(async move { let ws = if partial { shared.adopt_upgraded_partially_read(s, vec![]).await } else { shared.adopt_upgraded(s).await }; let _ = shared.serve_connection(ws).await; })
            }
        };
        let handshake_possible = !(entry.starts_with("adopt") && cause == "bad_handshake");
        if !handshake_possible { server_task.abort(); count -= 1; continue; }
        // clients
        let frames_all: Arc<Mutex<Vec<Vec<(u8, String)>>>> = Arc::new(Mutex::new(vec![]));
        let mut present_during = true;
        let mut handshake_ok = true;
        let mut handles = vec![];
        for ci in 0..nconn {
            let (phase, cause, ob, frames_all) = (phase.clone(), cause.clone(), ob.clone(), frames_all.clone());
            let dc = if ci == 0 { duplex_client.take() } else { None };
            let url = format!("ws://{addr}{}", if path_ok { "/ws" } else { "/wrong" });
            handles.push(rt.spawn(async move {
                let mut frames = vec![];
                let ok;
                if let Some(d) = dc {
                    let mut ws = WebSocketStream::from_raw_socket(d, Role::Client, None).await;
                    ok = true;
                    if phase != "during_connect" { read_some(&mut ws, &mut frames, 1, 500).await; }
                    do_phase_and_cause(&mut ws, &phase, &cause, &ob, &mut frames).await;
                    if cause == "socket_loss" { drop(ws); } else { read_some(&mut ws, &mut frames, 64, 400).await; }
                } else {
                    let s = tokio::net::TcpStream::connect(addr).await.unwrap();
                    match tokio_tungstenite::client_async(url, s).await {
                        Ok((mut ws, _)) => {
                            ok = true;
                            if phase != "during_connect" { read_some(&mut ws, &mut frames, 1, 500).await; }
                            do_phase_and_cause(&mut ws, &phase, &cause, &ob, &mut frames).await;
                            if cause == "socket_loss" { drop(ws); } else if phase == "outbound_stuck" { /* keep the socket open and read NOTHING while the server is cancelled */ tokio::time::sleep(Duration::from_millis(2500)).await; }
                            else if cause == "cancel" || cause == "drain_abort" || cause == "connect_panic" { /* keep it open: the server ends it */ read_some(&mut ws, &mut frames, 64, 1500).await; } else { read_some(&mut ws, &mut frames, 64, 400).await; }
                        }
                        Err(_) => { ok = false; }
                    }
                }
                frames_all.lock().unwrap().push(frames);
                ok
            }));
        }
        // while the connection is up: the peer and its alias are in the registry
        let t0 = Instant::now();
        while ob.connects.load(Ordering::SeqCst) < nconn as u64 && t0.elapsed() < Duration::from_millis(800) { std::thread::sleep(Duration::from_millis(2)); }
        if ob.connects.load(Ordering::SeqCst) > 0 && phase != "during_connect" && cause != "connect_panic" {
            let pid = ob.last_peer.load(Ordering::SeqCst) - 1;
            // sampled right after the connect hook: the scenario's exit has usually not happened yet;
            // if the connection is already gone the sample says nothing, so only a live connection counts
            if ob.disconnects.load(Ordering::SeqCst) == 0 {
                let a = reg.get(repe::PeerId(pid)).is_some() && reg.get_by(format!("alias-{pid}").as_str()).is_some();
                if ob.disconnects.load(Ordering::SeqCst) == 0 { present_during = a; }
            }
        }
        // embedder-side causes
        if cause == "cancel" || cause == "drain_abort" {
            let t1 = Instant::now();
            while phase == "off_parked" && !ob.off_started.load(Ordering::SeqCst) && t1.elapsed() < Duration::from_secs(3) { std::thread::sleep(Duration::from_millis(2)); }
            while phase == "inline_ctx_parked" && !ob.inline_started.load(Ordering::SeqCst) && t1.elapsed() < Duration::from_secs(3) { std::thread::sleep(Duration::from_millis(2)); }
            std::thread::sleep(Duration::from_millis(30));
            token.cancel();
            if let Some(tx) = tx_hold.take() { let _ = tx.send(()); }
        }
        // embedder cancellation with the peer stalled: the hooks must not wait for the peer (it holds the socket 2.5 s)
        let mut prompt_disconnects = nconn as u64;
        if phase == "outbound_stuck" {
            let t = Instant::now();
            while ob.disconnects.load(Ordering::SeqCst) < nconn as u64 && t.elapsed() < Duration::from_millis(1500) { std::thread::sleep(Duration::from_millis(5)); }
            prompt_disconnects = ob.disconnects.load(Ordering::SeqCst);
        }
        if phase == "during_connect" || phase == "inline_running" { std::thread::sleep(Duration::from_millis(60)); ob.open(); }
        for h in handles { if let Ok(ok) = rt.block_on(h) { handshake_ok &= ok; } }
        // wait for the disconnect hooks
        let want = if handshake_ok { nconn as u64 } else { 0 };
        let t2 = Instant::now();
        while ob.disconnects.load(Ordering::SeqCst) < want && t2.elapsed() < Duration::from_secs(5) { std::thread::sleep(Duration::from_millis(2)); }
        // give a parked off-reader handler time to observe cancellation
        let t3 = Instant::now();
        while ob.off_started.load(Ordering::SeqCst) && !ob.off_finished.load(Ordering::SeqCst) && t3.elapsed() < Duration::from_secs(7) { std::thread::sleep(Duration::from_millis(5)); }
        let t4 = Instant::now();
        while ob.inline_started.load(Ordering::SeqCst) && !ob.inline_finished.load(Ordering::SeqCst) && t4.elapsed() < Duration::from_secs(5) { std::thread::sleep(Duration::from_millis(5)); }
        std::thread::sleep(Duration::from_millis(30)); // a second (wrong) disconnect would show up now
        let fr = frames_all.lock().unwrap().clone();
        let hello_first = fr.iter().all(|f| f.is_empty() || (f[0].0 != 0 && f[0].1 == "/hello"));
        let hello_after_response = fr.iter().any(|f| { let first_resp = f.iter().position(|x| x.0 == 0); let last_hello = f.iter().rposition(|x| x.1 == "/hello"); matches!((first_resp, last_hello), (Some(r), Some(h)) if h > r) });
        out.push(&json!({"ev": "life", "entry": entry, "cause": cause, "phase": phase, "conns": nconn, "handshake_ok": handshake_ok,
            "connects": ob.connects.load(Ordering::SeqCst), "disconnects": ob.disconnects.load(Ordering::SeqCst),
            "disconnect_before_connect": ob.disconnect_before_connect.load(Ordering::SeqCst),
            "present_during": present_during, "present_after": !reg.is_empty(), "alias_after": (0..64u64).any(|p| reg.get_by(format!("alias-{p}").as_str()).is_some()) || reg.get_by("late-alias").is_some()
                || (0..64u64).any(|p| !reg.aliases_for(repe::PeerId(p)).is_empty() || reg.key_for(repe::PeerId(p)).is_some()),
            "late_alias": ob.late_alias.load(Ordering::SeqCst), "prompt_disconnects": prompt_disconnects, "present_in_disconnect_hook": !ob.missing_in_hook.load(Ordering::SeqCst),
            "hello_first": hello_first && !hello_after_response,
            "inline_started": ob.inline_started.load(Ordering::SeqCst), "inline_saw_cancel": ob.inline_saw_cancel.load(Ordering::SeqCst),
            "off_started": ob.off_started.load(Ordering::SeqCst), "off_saw_cancel": ob.off_saw_cancel.load(Ordering::SeqCst), "stubborn": cause == "drain_abort"}));
        server_task.abort();
        drop(tx_hold);
    }
    // ---- a client reconnects with the same session key while its old connection is still being torn down:
    // connection A's reader is parked in an inline handler, A's socket is lost and its sink closes, B connects and
    // takes the key over, then A's disconnect hooks run.  B is still connected: the key must still resolve to B.
    for _rep in 0..2 {
        count += 1;
        let reg = PeerRegistry::new();
        let ob = Arc::new(Obs::default());
        let server = build_server(&ob, &reg);
        let listener = rt.block_on(WebSocketServer::listen("127.0.0.1:0")).unwrap();
        let addr = listener.local_addr().unwrap();
        let server_task = rt.spawn(async move { let _ = server.serve_listener(listener, "/ws").await; });
        let (reg2, ob2) = (reg.clone(), ob.clone());
        let (resolves_to_b, hello_first, reached) = rt.block_on(async move {
            let mut frames = vec![];
            let sa = tokio::net::TcpStream::connect(addr).await.unwrap();
            let (mut a, _) = tokio_tungstenite::client_async(format!("ws://{addr}/ws"), sa).await.unwrap();
            read_some(&mut a, &mut frames, 1, 500).await;
            let pid_a = ob2.last_peer.load(Ordering::SeqCst) - 1;
            let _ = a.send(WsMsg::Binary(req(2, "/inline_park", json!(2)).into())).await;
            tokio::time::sleep(Duration::from_millis(40)).await;
            drop(a);
            // push at A until its writer has hit the dead socket
            let ha = reg2.get(repe::PeerId(pid_a));
            let t0 = Instant::now();
            let mut closed = false;
            while let Some(h) = &ha { let _ = h.send_notify("/poke", NotifyBody::Json(b"{}".to_vec())); if !h.is_connected() { closed = true; break; } if t0.elapsed() > Duration::from_secs(3) { break; } tokio::time::sleep(Duration::from_millis(5)).await; }
            let still_registered = reg2.get(repe::PeerId(pid_a)).is_some();
            // a broadcast while A's writer is dead but A's disconnect callbacks have not run: A stays in the registry
            // (with its aliases) until they do - a failed delivery is a result, not a removal
            let d0 = ob2.disconnects.load(Ordering::SeqCst);
            let res = reg2.broadcast_notify_raw("/bc", repe::BodyFormat::RawBinary, b"x");
            let a_kept = reg2.get(repe::PeerId(pid_a)).is_some() && !reg2.aliases_for(repe::PeerId(pid_a)).is_empty() && res.contains_key(&repe::PeerId(pid_a))
                // ... and its own alias still resolves to it (a dead writer is not a disconnect: the callbacks have not run)
                && reg2.get_by(format!("alias-{pid_a}").as_str()).map(|h| h.peer_id().0) == Some(pid_a);
            let a_kept = a_kept || ob2.disconnects.load(Ordering::SeqCst) != d0 || d0 != 0 || !still_registered;
            let sb = tokio::net::TcpStream::connect(addr).await.unwrap();
            let (mut b, _) = tokio_tungstenite::client_async(format!("ws://{addr}/ws"), sb).await.unwrap();
            let mut fb = vec![];
            read_some(&mut b, &mut fb, 1, 500).await;
            let pid_b = ob2.last_peer.load(Ordering::SeqCst) - 1;
            // let A's handler return: A's reader sees the dead socket, A's disconnect hooks run
            ob2.open();
            let t1 = Instant::now();
            while ob2.disconnects.load(Ordering::SeqCst) < 1 && t1.elapsed() < Duration::from_secs(5) { tokio::time::sleep(Duration::from_millis(2)).await; }
            tokio::time::sleep(Duration::from_millis(20)).await;
            let ok = a_kept && reg2.get_by("session").map(|h| h.peer_id().0) == Some(pid_b) && reg2.get(repe::PeerId(pid_b)).is_some() && pid_a != pid_b;
            let _ = b.close(None).await;
            drop(b);
            (ok, fb.first().map(|f| f.1 == "/hello").unwrap_or(false), closed && still_registered)
        });
        let t2 = Instant::now();
        while ob.disconnects.load(Ordering::SeqCst) < 2 && t2.elapsed() < Duration::from_secs(5) { std::thread::sleep(Duration::from_millis(2)); }
        std::thread::sleep(Duration::from_millis(30));
        out.push(&json!({"ev": "life", "entry": "listener", "cause": "socket_loss", "phase": "reconnect_same_key", "conns": 2, "handshake_ok": true,
            "connects": ob.connects.load(Ordering::SeqCst), "disconnects": ob.disconnects.load(Ordering::SeqCst), "disconnect_before_connect": ob.disconnect_before_connect.load(Ordering::SeqCst),
            // if the precondition (A's sink closed while A still registered) was not reached, the scenario says nothing
            "present_during": resolves_to_b || !reached, "present_after": !reg.is_empty(),
            "alias_after": reg.get_by("session").is_some() || (0..64u64).any(|p| !reg.aliases_for(repe::PeerId(p)).is_empty()),
            "late_alias": 0, "precondition_reached": reached, "prompt_disconnects": 2, "present_in_disconnect_hook": !ob.missing_in_hook.load(Ordering::SeqCst),
            "hello_first": hello_first, "inline_started": false, "inline_saw_cancel": false, "off_started": false, "off_saw_cancel": false, "stubborn": false}));
        server_task.abort();
    }
    out.finish();
    util::write_json(&a.str("summary", "/dev/null"), &json!({"scenarios": count}));
    rt.shutdown_timeout(Duration::from_secs(2));
    0
}
