//! C12 engine: real-thread schedules of TransferControl's blocking waits, recorded through
//! the `verif-hooks` events (emitted under the object's mutex, so `seq` order is the
//! linearization order) for validation against spec/Trace_TransferSync.tla.
//!
//! A schedule = one waiter (credit or reconnect) + 1..3 signaller threads, each performing
//! 1..2 operations with random yields. Far-future deadlines (1 h) for the wake-up clause;
//! short deadlines with the wait condition kept false for the deadline clause.

use crate::util::{self, Args};
use rand::rngs::StdRng;
use rand::{Rng, SeedableRng};
use repe::stream::{CreditError, ReconnectOutcome, TransferControl};
use repe::verif;
use repe::{NotifyBody, PeerHandle, PeerId, PeerSendError, PeerSink};
use serde_json::Value;
use std::sync::atomic::{AtomicBool, Ordering};
use std::sync::{Arc, Barrier};
use std::time::{Duration, Instant};

struct NullSink;
impl PeerSink for NullSink {
    fn send_notify(&self, _m: &str, _b: NotifyBody) -> Result<(), PeerSendError> {
        Ok(())
    }
}
/// a sink whose connectivity probe is slow (embedder code may be): anything consulting it between a check and a
/// park keeps that window open for a millisecond
struct SlowProbeSink;
impl PeerSink for SlowProbeSink {
    fn send_notify(&self, _m: &str, _b: NotifyBody) -> Result<(), PeerSendError> { Ok(()) }
    fn is_connected(&self) -> bool { std::thread::sleep(Duration::from_micros(800)); true }
}
fn peer(p: u64) -> PeerHandle {
    PeerHandle::new(PeerId(p), Arc::new(NullSink))
}

#[derive(Clone, Debug)]
enum SOp {
    Ack(u32, u64),
    Cancel,
    Advance(u32),
    Resume(u32, u64),
    Sent(u64),
}

fn apply(tc: &TransferControl, op: &SOp) {
    match op {
        SOp::Ack(f, o) => tc.record_ack(*f, *o),
        SOp::Cancel => tc.cancel("sig"),
        SOp::Advance(f) => tc.advance_to_file(*f),
        SOp::Resume(f, o) => {
            let _ = tc.request_resume(peer(7), *f, *o);
        }
        SOp::Sent(o) => tc.record_sent(*o),
    }
}

/// The signalling operations a schedule draws from, relative to the initial state
/// (window full: sent = s0 = window, acked = 0, one retained chunk [0, s0)).
fn alphabet(s0: u64, len: u64) -> Vec<SOp> {
    vec![
        SOp::Ack(0, len.min(1)),   // releases too little
        SOp::Ack(0, s0),           // releases everything
        SOp::Ack(0, s0 + 5),       // hostile: beyond sent (capped)
        SOp::Ack(1, s0),           // other file
        SOp::Cancel,
        SOp::Advance(1),
        SOp::Advance(0),           // restart of the CURRENT file: offsets zeroed all the same
        SOp::Resume(0, 0),         // accepted, frees nothing, stages a resume
        SOp::Resume(0, s0),        // accepted at the trailing edge, frees the window
        SOp::Resume(0, 1),         // mid-chunk: rejected
        SOp::Resume(1, 0),         // wrong file: rejected
        SOp::Sent(s0 + 2),
        SOp::Sent(2 * s0),         // another thread records a whole further window as sent while the waiter is parked
    ]
}

/// All operation sequences of length 1..=depth over the alphabet, for both wait kinds.
fn systematic(depth: usize) -> Vec<(&'static str, Vec<usize>)> {
    let n = alphabet(4, 1).len();
    let mut seqs: Vec<Vec<usize>> = vec![vec![]];
    let mut out = vec![];
    for _ in 0..depth {
        let mut next = vec![];
        for s in &seqs {
            for i in 0..n {
                let mut t = s.clone();
                t.push(i);
                next.push(t);
            }
        }
        for kind in ["credit", "reconnect"] {
            for t in &next {
                out.push((kind, t.clone()));
            }
        }
        seqs = next;
    }
    out
}

fn jitter(rng: &mut StdRng) {
    match rng.gen_range(0..6) {
        0 => {}
        1 => std::thread::yield_now(),
        2 => {
            for _ in 0..rng.gen_range(1..2000) {
                std::hint::spin_loop();
            }
        }
        3 => std::thread::sleep(Duration::from_micros(rng.gen_range(1..200))),
        4 => std::thread::sleep(Duration::from_micros(rng.gen_range(200..1500))),
        _ => {
            for _ in 0..rng.gen_range(1..50) {
                std::thread::yield_now();
            }
        }
    }
}

/// Is the wait condition true in the state logged by the last event carrying state?
fn ready_in(events: &[String], kind: &str, len: u64) -> Option<bool> {
    for e in events.iter().rev() {
        let v: Value = serde_json::from_str(e).ok()?;
        if v.get("sent").is_some() {
            let sent = v["sent"].as_u64()?;
            let acked = v["acked"].as_u64()?;
            let window = v["window"].as_u64()?;
            let cancelled = v["cancelled"].as_bool()?;
            let pending = v["pending"].as_i64()?;
            let inflight = sent.saturating_sub(acked);
            return Some(if kind == "credit" {
                cancelled || inflight == 0 || inflight + len <= window
            } else {
                cancelled || pending >= 0
            });
        }
    }
    None
}

pub fn run(a: &Args) -> i32 {
    let seed = a.u64("seed", 1);
    let n = a.usize("schedules", 500);
    let timed_every = a.usize("timed-every", 10); // every k-th random schedule is a deadline run
    // systematic part: every sequence of <= depth operations by ONE signaller after the waiter parked
    // (each (state, operation) pair in which a wake-up could be missed is visited deterministically)
    let sys = systematic(a.usize("systematic-depth", 2));
    let n = n + sys.len();
    let mut out = util::NdJson::create(&a.req("out"));
    let mut rng = StdRng::seed_from_u64(seed);
    verif::enable(true);
    verif::set_tid(0);
    let mut stats = serde_json::json!({"schedules": n, "timed": 0, "returned_before_quiesce": 0, "parked_runs": 0, "watchdog_expired": 0});
    let mut parked_runs = 0u64;
    let mut timed_runs = 0u64;
    let mut distinct = std::collections::HashSet::new();
    let mut lost = 0u64; // schedules in which the 10 s watchdog expired with the condition true
    for run in 0..n {
        if lost >= a.u64("max-lost", 3) {
            break; // enough evidence of a lost wake-up; do not spend 10 s on each further schedule
        }
        let sys_prog = sys.get(run);
        let timed = sys_prog.is_none() && timed_every > 0 && run % timed_every == timed_every - 1;
        let kind = match sys_prog {
            Some((k, _)) => *k,
            None => if rng.gen_bool(0.6) { "credit" } else { "reconnect" },
        };
        let window: u64 = [4u64, 8, 64][rng.gen_range(0..3)];
        let len: u64 = rng.gen_range(1..=window / 2);
        // a chunk larger than the whole window (it is granted only once nothing is in flight): on a third of the random,
        // untimed credit runs
        let oversized = sys.get(run).is_none() && !(timed_every > 0 && run % timed_every == timed_every - 1) && rng.gen_range(0..3) == 0;
        let len: u64 = if oversized { window + rng.gen_range(1..=window) } else { len };
        let s0 = window; // window full: a credit waiter must block
        let _ = verif::take();
        let tc = TransferControl::with_replay_capacity(window, 1 << 20);
        verif::ev(format!(
            "\"ev\":\"reset\",\"run\":{run},\"window\":{window},\"kind\":\"{kind}\",\"len\":{len},\"deadline\":{timed},\"wtid\":1"
        ));
        // initial state: everything sent so far is one retained chunk
        tc.push_replay(0, s0, false, vec![0u8; 4]);
        tc.record_sent(s0);
        // every other run has a peer installed whose connectivity probe is slow
        if run % 2 == 1 { tc.set_peer(PeerHandle::new(PeerId(9), Arc::new(SlowProbeSink))); }

        // signaller programmes
        let nsig = if sys_prog.is_some() { 1 } else if timed { rng.gen_range(0..=2) } else { rng.gen_range(1..=3) };
        let mut progs: Vec<Vec<SOp>> = vec![];
        if let Some((_, idx)) = sys_prog {
            let alpha = alphabet(s0, len);
            progs.push(idx.iter().map(|i| alpha[*i].clone()).collect());
        }
        for _ in 0..(if sys_prog.is_some() { 0 } else { nsig }) {
            let k = if rng.gen_bool(0.45) { 1 } else { 2 };
            let mut p = vec![];
            for _ in 0..k {
                let op = if timed {
                    // operations that never make the wait condition true
                    match rng.gen_range(0..4) {
                        0 => SOp::Ack(0, rng.gen_range(0..len.min(window - len))), // releases too little
                        1 => SOp::Ack(1, s0),                                       // other file
                        2 => SOp::Sent(s0 + rng.gen_range(1..4)),
                        _ => SOp::Resume(3, 0), // wrong file: rejected
                    }
                } else {
                    match rng.gen_range(0..12) {
                        0 => SOp::Ack(0, rng.gen_range(0..=len)),
                        1 | 2 => SOp::Ack(0, s0),
                        3 => SOp::Ack(0, s0 + 5),
                        4 => SOp::Ack(1, s0),
                        5 | 6 => SOp::Cancel,
                        7 => SOp::Advance(1),
                        8 => SOp::Resume(0, 0),
                        9 => SOp::Resume(0, s0),
                        10 => SOp::Resume(0, 1), // mid-chunk: rejected
                        _ => SOp::Sent(s0 + 2),
                    }
                };
                p.push(op);
            }
            progs.push(p);
        }
        distinct.insert(format!("{kind}{window}{len}{timed}{progs:?}"));

        let done = Arc::new(AtomicBool::new(false));
        let start_gate = Arc::new(Barrier::new(nsig + 2));
        let far = Duration::from_secs(3600);
        let short = Duration::from_millis(rng.gen_range(20..80));
        let wait_for = if timed { short } else { far };
        let waiter_first = sys_prog.is_some() || rng.gen_bool(0.7);
        let pre_delay = if sys_prog.is_some() { 600 } else { rng.gen_range(0..800u64) };

        let waiter = {
            let (tc, done, gate) = (tc.clone(), done.clone(), start_gate.clone());
            let kind = kind.to_string();
            std::thread::spawn(move || {
                verif::set_tid(1);
                gate.wait();
                if !waiter_first {
                    std::thread::sleep(Duration::from_micros(pre_delay));
                }
                let t0 = Instant::now();
                let deadline = t0 + wait_for;
                let res = if kind == "credit" {
                    match tc.wait_for_credit(len, deadline) {
                        Ok(()) => "ok",
                        Err(CreditError::Cancelled(_)) => "cancelled",
                        Err(CreditError::Timeout) => "timeout",
                    }
                } else {
                    match tc.wait_for_reconnect(wait_for) {
                        ReconnectOutcome::ResumeReady(_) => "resume",
                        ReconnectOutcome::Cancelled(_) => "cancelled",
                        ReconnectOutcome::Timeout => "timeout",
                    }
                };
                let t1 = Instant::now();
                // "early" is judged conservatively: the instant read after the call returned is
                // still before the deadline computed before the call started
                let early = t1 < deadline;
                verif::ev(format!("\"ev\":\"w_done\",\"res\":\"{res}\",\"early\":{early},\"elapsed_us\":{}", (t1 - t0).as_micros()));
                done.store(true, Ordering::SeqCst);
            })
        };
        let mut sigs = vec![];
        for (i, prog) in progs.iter().cloned().enumerate() {
            let (tc, gate) = (tc.clone(), start_gate.clone());
            let settle = sys_prog.is_some();
            let mut r = StdRng::seed_from_u64(seed.wrapping_mul(7919).wrapping_add((run * 8 + i) as u64));
            sigs.push(std::thread::spawn(move || {
                verif::set_tid(2 + i as u64);
                gate.wait();
                if waiter_first {
                    std::thread::sleep(Duration::from_micros(pre_delay));
                }
                for op in &prog {
                    if settle {
                        // systematic schedules: let the waiter wake, re-check and park again between
                        // operations, so that every operation meets a PARKED waiter
                        std::thread::sleep(Duration::from_micros(500));
                    } else {
                        jitter(&mut r);
                    }
                    apply(&tc, op);
                }
            }));
        }
        start_gate.wait();
        for s in sigs {
            s.join().unwrap();
        }
        let mut events: Vec<String> = vec![];
        let t_join = Instant::now();
        // give the waiter a moment, then decide how patient to be from the logged state
        let mut returned = false;
        let mut was_ready = false;
        let grace = if timed { short + Duration::from_secs(5) } else { Duration::from_millis(10) };
        while t_join.elapsed() < grace {
            if done.load(Ordering::SeqCst) {
                returned = true;
                break;
            }
            std::thread::sleep(Duration::from_micros(200));
        }
        events.extend(verif::take());
        if !returned && !timed {
            if ready_in(&events, kind, len).unwrap_or(false) {
                was_ready = true;
                // the wait condition holds: the waiter must come back; be generous (10 s)
                let t = Instant::now();
                while t.elapsed() < Duration::from_millis(a.u64("watchdog-ms", 10_000)) {
                    if done.load(Ordering::SeqCst) {
                        returned = true;
                        break;
                    }
                    std::thread::sleep(Duration::from_micros(500));
                }
            }
        }
        let past_deadline = timed;
        if returned {
            stats["returned_before_quiesce"] = (stats["returned_before_quiesce"].as_u64().unwrap() + 1).into();
        } else if timed {
            stats["watchdog_expired"] = (stats["watchdog_expired"].as_u64().unwrap() + 1).into();
        }
        verif::ev(format!("\"ev\":\"quiesce\",\"returned\":{returned},\"past_deadline\":{past_deadline}"));
        // clean up: a cancel releases a still parked waiter
        if !returned {
            // a broken implementation may lose this wake-up as well: keep signalling, and never block on the join
            for _ in 0..200 {
                tc.cancel("cleanup");
                let t = Instant::now();
                while !done.load(Ordering::SeqCst) && t.elapsed() < Duration::from_millis(50) { std::thread::sleep(Duration::from_micros(300)); }
                if done.load(Ordering::SeqCst) { break; }
            }
        }
        if done.load(Ordering::SeqCst) { waiter.join().unwrap(); } else { drop(waiter); }
        events.extend(verif::take());
        if timed {
            timed_runs += 1;
        }
        if was_ready && !returned {
            lost += 1;
        }
        if events.iter().any(|e| e.contains("\"w_park\"")) {
            parked_runs += 1;
        }
        // time passing is a silent environment step: in a deadline run make it explicit just
        // before the waiter's timeout return (the measured instants are checked at w_done)
        let mut expired_inserted = false;
        for e in events {
            if timed && !expired_inserted && e.contains("\"w_return\"") && e.contains("\"res\":\"timeout\"") && e.contains("\"t\":1,") {
                out.raw("{\"ev\":\"expire\"}");
                expired_inserted = true;
            }
            out.raw(&e);
        }
    }
    stats["timed"] = timed_runs.into();
    stats["parked_runs"] = parked_runs.into();
    stats["distinct_schedules"] = (distinct.len() as u64).into();
    stats["events"] = out.lines.into();
    out.finish();
    util::write_json(&a.str("summary", "/dev/null"), &stats);
    0
}
