//! C19 engine: Fleet / AsyncFleet retry loops against a scripted fake node.
//!
//! `fleet-scripts`: for every outcome script (one outcome per attempt) run one faulty
//! call, single-stepped through the `fleet_before_attempt` probe so that the node can be
//! put into the scripted mode before each attempt, then two calls against the healthy
//! node. Recorded: one `attempt` event per attempt (what the node was armed with,
//! whether it saw the request, what the loop observed), `call_end` events, for
//! spec/Trace_Fleet.tla.
//! `fleet-broadcast`: every tag subset over 4 nodes.

use crate::util::{self, Args};
use repe::fleet::{FleetOptions, NodeConfig, RetryPolicy};
use repe::verif;
use repe::{AsyncFleet, ErrorCode, Fleet, Message, RepeError};
use serde_json::{json, Value};
use std::io::{Read, Write};
use std::net::{Shutdown, TcpListener, TcpStream};
use std::sync::atomic::{AtomicBool, AtomicU64, Ordering};
use std::sync::{Arc, Mutex};
use std::time::{Duration, Instant};

const OUTCOMES: [&str; 7] = ["refused", "closed_after_accept", "closed_idle", "silent", "malformed", "app_error", "success"];

/// A scripted node: a listener (that can be taken down and brought back on the same port)
/// plus one thread per connection. `armed` is the behaviour for the NEXT request.
pub(crate) struct FakeNode {
    pub(crate) port: u16,
    armed: Arc<Mutex<String>>,
    pub(crate) served: Arc<AtomicU64>,    // requests seen
    conns: Arc<Mutex<Vec<TcpStream>>>,
    listening: Arc<AtomicBool>,
    stop: Arc<AtomicBool>,
    listener: Arc<Mutex<Option<TcpListener>>>,
    /// the error code of "app_error" replies (any error REPLY is a reply, whatever its code says about retrying)
    app_code: Arc<AtomicU64>,
    /// while "refused": a socket bound to the port but not listening, so that connects are refused AND nobody else
    /// (another shard's node, an ephemeral source port) can take the port in the meantime
    holder: Arc<Mutex<Option<PortHolder>>>,
    /// the lock file that reserves this node's port among all concurrently running harness processes
    port_lock: std::path::PathBuf,
}

#[repr(C)]
struct SockAddrIn { family: u16, port_be: u16, addr_be: u32, zero: [u8; 8] }
unsafe extern "C" {
    fn socket(domain: i32, ty: i32, proto: i32) -> i32;
    fn bind(fd: i32, addr: *const SockAddrIn, len: u32) -> i32;
    fn close(fd: i32) -> i32;
    fn setsockopt(fd: i32, level: i32, name: i32, val: *const core::ffi::c_void, len: u32) -> i32;
}
struct PortHolder(i32);
impl PortHolder {
    fn hold(port: u16) -> Option<PortHolder> {
        unsafe {
            let fd = socket(2, 1, 0); // AF_INET, SOCK_STREAM
            if fd < 0 { return None; }
            let one: i32 = 1;
            setsockopt(fd, 1, 2, &one as *const i32 as *const core::ffi::c_void, 4); // SOL_SOCKET, SO_REUSEADDR
            let a = SockAddrIn { family: 2, port_be: port.to_be(), addr_be: u32::from_ne_bytes([127, 0, 0, 1]), zero: [0; 8] };
            if bind(fd, &a, 16) != 0 { close(fd); return None; }
            Some(PortHolder(fd))
        }
    }
}
impl Drop for PortHolder { fn drop(&mut self) { unsafe { close(self.0); } } }

fn read_frame(s: &mut TcpStream) -> Option<(u64, Vec<u8>)> {
    let mut h = [0u8; 48];
    s.read_exact(&mut h).ok()?;
    let total = u64::from_le_bytes(h[0..8].try_into().unwrap()) as usize;
    let id = u64::from_le_bytes(h[16..24].try_into().unwrap());
    if total > (64 << 20) { return None; } // a request no fleet client sends: never trust a length with an allocation
    let mut rest = vec![0u8; total.saturating_sub(48)];
    s.read_exact(&mut rest).ok()?;
    let q = u64::from_le_bytes(h[24..32].try_into().unwrap()) as usize;
    Some((id, rest[..q.min(rest.len())].to_vec()))
}

impl FakeNode {
    /// A scripted node needs a port that is its own for its whole life, also while nothing listens on it ("refused").
    /// An ephemeral port (bind to 0) is not: while the node only HOLDS the port (bound, not listening, SO_REUSEADDR),
    /// the kernel may hand the same port to any other socket that binds to 0 - another engine's scripted server, in a
    /// check running next to this one - and connects that must be refused are then answered by a stranger.  So the
    /// ports come from below the ephemeral range (20000..32000), and a lock file per port keeps concurrently running
    /// harness processes apart (a lock whose owner process is gone is taken over).
    fn reserve_port() -> (TcpListener, u16, std::path::PathBuf) {
        use std::io::Write as _;
        static NEXT: AtomicU64 = AtomicU64::new(0);
        let dir = std::env::temp_dir().join("vh-fake-node-ports");
        let _ = std::fs::create_dir_all(&dir);
        let pid = std::process::id() as u64;
        for attempt in 0..20_000u64 {
            let k = NEXT.fetch_add(1, Ordering::SeqCst);
            let port = 20000 + ((pid.wrapping_mul(7919) + k * 13 + attempt) % 12000) as u16;
            let lock = dir.join(format!("{port}.lock"));
            match std::fs::OpenOptions::new().write(true).create_new(true).open(&lock) {
                Ok(mut f) => { let _ = write!(f, "{pid}"); }
                Err(_) => {
                    // taken: by a live process (try another port) or by one that is gone (take it over)
                    let owner = std::fs::read_to_string(&lock).ok().and_then(|t| t.trim().parse::<u64>().ok());
                    match owner {
                        Some(o) if o != pid && !std::path::Path::new(&format!("/proc/{o}")).exists() => { let _ = std::fs::remove_file(&lock); }
                        _ => {}
                    }
                    continue;
                }
            }
            match TcpListener::bind(("127.0.0.1", port)) {
                Ok(l) => return (l, port, lock),
                Err(_) => { let _ = std::fs::remove_file(&lock); }
            }
        }
        panic!("no free port for a scripted node");
    }
    pub(crate) fn start() -> Arc<FakeNode> {
        let (l, port, port_lock) = Self::reserve_port();
        l.set_nonblocking(true).unwrap();
        let node = Arc::new(FakeNode {
            port,
            armed: Arc::new(Mutex::new("success".into())),
            served: Arc::new(AtomicU64::new(0)),
            conns: Arc::new(Mutex::new(vec![])),
            listening: Arc::new(AtomicBool::new(true)),
            stop: Arc::new(AtomicBool::new(false)),
            listener: Arc::new(Mutex::new(Some(l))),
            app_code: Arc::new(AtomicU64::new(ErrorCode::ApplicationErrorBase as u64)),
            holder: Arc::new(Mutex::new(None)),
            port_lock,
        });
        let n = node.clone();
        std::thread::spawn(move || {
            while !n.stop.load(Ordering::SeqCst) {
                let acc = { n.listener.lock().unwrap().as_ref().map(|l| l.accept()) };
                match acc {
                    Some(Ok((s, _))) => {
                        s.set_nonblocking(false).ok();
                        s.set_nodelay(true).ok();
                        // the node may have gone down between this accept and now (arm("refused") empties `conns` after it
                        // has taken the listener away): a connection accepted across that moment goes down with the node
                        let mut conns = n.conns.lock().unwrap();
                        if n.listener.lock().unwrap().is_none() {
                            let _ = s.shutdown(Shutdown::Both);
                            continue;
                        }
                        conns.push(s.try_clone().unwrap());
                        drop(conns);
                        let n2 = n.clone();
                        std::thread::spawn(move || n2.serve(s));
                    }
                    _ => std::thread::sleep(Duration::from_micros(300)),
                }
            }
        });
        node
    }

    fn serve(&self, mut s: TcpStream) {
        // a connection on which the node once fell silent stays silent (a hung peer does not recover by itself):
        // requests that still arrive on it are counted and ignored, without using up the next scripted outcome
        let mut hung = false;
        while let Some((id, query)) = read_frame(&mut s) {
            self.served.fetch_add(1, Ordering::SeqCst);
            if hung { continue; }
            let mode = std::mem::replace(&mut *self.armed.lock().unwrap(), "success".to_string());
            let reply = |ec: ErrorCode, body: Value| {
                let mut b = Message::builder().id(id).query_bytes(query.clone()).error_code(ec);
                b = b.body_json(&body).unwrap();
                b.build().to_vec()
            };
            match mode.as_str() {
                "success" => {
                    if s.write_all(&reply(ErrorCode::Ok, json!({"id": id}))).is_err() {
                        return;
                    }
                }
                "closed_idle" => {
                    let _ = s.write_all(&reply(ErrorCode::Ok, json!({"id": id})));
                    let _ = s.shutdown(Shutdown::Both);
                    return;
                }
                "app_error" => {
                    let mut m = Message::builder().id(id).query_bytes(query.clone()).error_code(ErrorCode::ApplicationErrorBase).body_utf8("scripted application error").build();
                    m.header.ec = self.app_code.load(Ordering::SeqCst) as u32;
                    let msg = m.to_vec();
                    if s.write_all(&msg).is_err() {
                        return;
                    }
                }
                "closed_after_accept" => {
                    let _ = s.shutdown(Shutdown::Both);
                    return;
                }
                "silent" => { hung = true; /* never answer; keep reading */ }
                // a node that never answers anything, on any connection, until re-armed
                "silent_always" => { hung = true; *self.armed.lock().unwrap() = "silent_always".to_string(); }
                "malformed" => {
                    let _ = s.write_all(&[0xAB; 64]);
                }
                _ => {}
            }
        }
    }

    /// Put the node into the mode for the next attempt.
    pub(crate) fn arm(&self, outcome: &str) {
        if outcome == "refused" {
            // nothing listens and every existing connection is gone
            if self.listening.load(Ordering::SeqCst) {
                let mut h = self.holder.lock().unwrap();
                *self.listener.lock().unwrap() = None;
                for _ in 0..200 {
                    *h = PortHolder::hold(self.port);
                    if h.is_some() { break; }
                    std::thread::sleep(Duration::from_millis(2));
                }
                assert!(h.is_some(), "fake node could not keep hold of its port while refusing");
            }
            for c in self.conns.lock().unwrap().drain(..) {
                let _ = c.shutdown(Shutdown::Both);
            }
            self.listening.store(false, Ordering::SeqCst);
        } else {
            if !self.listening.load(Ordering::SeqCst) {
                // come back on the same port
                *self.holder.lock().unwrap() = None;
                for _ in 0..200 {
                    if let Ok(l) = TcpListener::bind(("127.0.0.1", self.port)) {
                        l.set_nonblocking(true).unwrap();
                        *self.listener.lock().unwrap() = Some(l);
                        self.listening.store(true, Ordering::SeqCst);
                        break;
                    }
                    std::thread::sleep(Duration::from_millis(5));
                }
                assert!(self.listening.load(Ordering::SeqCst), "fake node could not re-bind its port");
            }
            *self.armed.lock().unwrap() = outcome.to_string();
        }
    }
    pub(crate) fn shutdown(&self) {
        self.stop.store(true, Ordering::SeqCst);
        *self.listener.lock().unwrap() = None;
        *self.holder.lock().unwrap() = None;
        for c in self.conns.lock().unwrap().drain(..) {
            let _ = c.shutdown(Shutdown::Both);
        }
        let _ = std::fs::remove_file(&self.port_lock);
    }
}

fn classify(r: &Result<Value, RepeError>) -> (&'static str, String) {
    match r {
        Ok(_) => ("ok", String::new()),
        Err(RepeError::ServerError { code, .. }) => ("app", format!("{code:?}")),
        Err(RepeError::Io(e)) => ("err", format!("io:{:?}", e.kind())),
        Err(e) => ("err", format!("{e}").chars().take(60).collect()),
    }
}

enum AnyFleet {
    Blocking(Fleet),
    Async(Arc<AsyncFleet>, Arc<tokio::runtime::Runtime>),
}

fn scripts_of(max: usize, upto: usize) -> Vec<Vec<usize>> {
    let mut all = vec![vec![]];
    let mut cur: Vec<Vec<usize>> = vec![vec![]];
    for _ in 0..upto {
        let mut next = vec![];
        for s in &cur {
            for o in 0..OUTCOMES.len() {
                let mut t = s.clone();
                t.push(o);
                next.push(t);
            }
        }
        all.extend(next.iter().cloned());
        cur = next;
    }
    let _ = max;
    all
}

pub fn scripts(a: &Args) -> i32 {
    let max = a.usize("max", 2);
    let len = a.usize("len", max + 2);
    let kind = a.str("kind", "blocking");
    let shard = a.usize("shard", 0);
    let shards = a.usize("shards", 1).max(1);
    let sample = a.usize("sample", 0); // 0 = all scripts, else every k-th after a seeded offset
    let seed = a.usize("seed", 1);
    let timeout = Duration::from_millis(a.u64("timeout-ms", 120));
    let delay = Duration::from_millis(a.u64("delay-ms", 3));
    let mut out = util::NdJson::create(&a.req("out"));
    verif::enable(true);
    let all = scripts_of(max, len);
    let rt = Arc::new(tokio::runtime::Builder::new_multi_thread().worker_threads(2).enable_all().build().unwrap());
    let mut count = 0u64;
    let mut wedged = 0u64;
    for (idx, script) in all.iter().enumerate() {
        if idx % shards != shard {
            continue;
        }
        if sample > 1 && (idx / shards + seed) % sample != 0 {
            continue;
        }
        count += 1;
        let names: Vec<&str> = script.iter().map(|o| OUTCOMES[*o]).collect();
        let node = FakeNode::start();
        // error replies rotate through every protocol-level code and two application codes
        const CODES: [u32; 11] = [4096, 8, 9, 7, 6, 5, 4, 3, 2, 1, 5000];
        node.app_code.store(CODES[(idx / shards) % CODES.len()] as u64, Ordering::SeqCst);
        let cfg = NodeConfig::new("127.0.0.1", node.port).unwrap().with_name("n1").unwrap().with_timeout(timeout).unwrap();
        let opts = FleetOptions { default_timeout: timeout, retry_policy: RetryPolicy { max_attempts: max, delay } };
        let fleet = if kind == "blocking" {
            AnyFleet::Blocking(Fleet::with_options(vec![cfg], opts).unwrap())
        } else {
            AnyFleet::Async(Arc::new(AsyncFleet::with_options(vec![cfg], opts).unwrap()), rt.clone())
        };
        // the two public entry points have their own retry loops: alternate between them
        let use_message = (idx / shards) % 2 == 1;
        out.push(&json!({"ev": "reset", "kind": kind, "max": max, "script": names, "api": if use_message { "call_message" } else { "call_json" }}));
        let _ = verif::take();
        verif::gate("fleet_before_attempt");
        let mut remaining: std::collections::VecDeque<&str> = names.iter().copied().collect();
        // phases: the faulty call, then two calls with the node healthy
        for phase in 0..3 {
            let phase_name = if phase == 0 { "faulty" } else { "healthy" };
            if phase > 0 {
                remaining.clear();
                // let the client's reader notice what the node did to the connection
                std::thread::sleep(Duration::from_millis(15));
            }
            out.push(&json!({"ev": "call_start", "phase": phase_name}));
            let done = Arc::new(AtomicBool::new(false));
            let result: Arc<Mutex<Option<Result<Value, RepeError>>>> = Arc::new(Mutex::new(None));
            let params = json!({"x": phase});
            let h = {
                let (done, result) = (done.clone(), result.clone());
                match &fleet {
                    AnyFleet::Blocking(f) => {
                        let f = f.clone();
                        std::thread::spawn(move || {
                            let r = if use_message { f.call_message("n1", "/m").unwrap().into_result().and_then(|m| m.json_body::<Value>()) }
                                    else { f.call_json("n1", "/m", Some(&params)).unwrap().into_result() };
                            *result.lock().unwrap() = Some(r);
                            done.store(true, Ordering::SeqCst);
                        })
                    }
                    AnyFleet::Async(f, rt) => {
                        let (f, rt) = (f.clone(), rt.clone());
                        std::thread::spawn(move || {
                            let r = rt.block_on(async {
                                if use_message { f.call_message("n1", "/m").await.unwrap().into_result().and_then(|m| m.json_body::<Value>()) }
                                else { f.call_json("n1", "/m", Some(&params)).await.unwrap().into_result() }
                            });
                            *result.lock().unwrap() = Some(r);
                            done.store(true, Ordering::SeqCst);
                        })
                    }
                }
            };
            let mut attempts = 0u64;
            let t0 = Instant::now();
            loop {
                // wait until the loop parks before its next attempt, or the call returns
                let parked = loop {
                    if verif::await_parked("fleet_before_attempt", 1, Duration::from_millis(2)) {
                        break true;
                    }
                    if done.load(Ordering::SeqCst) {
                        break false;
                    }
                    if t0.elapsed() > Duration::from_secs(30) {
                        break false;
                    }
                };
                if !parked {
                    break;
                }
                let armed = remaining.front().copied().unwrap_or("success");
                node.arm(armed);
                let seen_before = node.served.load(Ordering::SeqCst);
                let _ = verif::take();
                verif::step("fleet_before_attempt");
                // the attempt is over when its hook event appears
                let t1 = Instant::now();
                let mut hook: Option<Value> = None;
                while t1.elapsed() < Duration::from_secs(20) {
                    for e in verif::take() {
                        if e.contains("\"fleet_attempt\"") {
                            hook = serde_json::from_str(&e).ok();
                        }
                    }
                    if hook.is_some() {
                        break;
                    }
                    std::thread::sleep(Duration::from_micros(300));
                }
                attempts += 1;
                let served = node.served.load(Ordering::SeqCst) > seen_before;
                // an outcome is used up when the node saw the request (or was down for the attempt)
                if served || armed == "refused" {
                    remaining.pop_front();
                }
                let (res, err) = match &hook {
                    Some(h) => {
                        let r = h["res"].as_str().unwrap_or("");
                        if r == "ok" { ("ok", String::new()) } else if r.starts_with("ServerError") { ("app", r.chars().take(80).collect()) } else { ("err", r.chars().take(80).collect()) }
                    }
                    None => ("none", "no fleet_attempt event within 20 s".to_string()),
                };
                out.push(&json!({"ev": "attempt", "n": hook.as_ref().map(|h| h["n"].clone()).unwrap_or(json!(attempts)), "max": hook.as_ref().map(|h| h["max"].clone()).unwrap_or(json!(max)),
                                 "armed": armed, "served": served, "res": res, "err": err}));
            }
            let finished = done.load(Ordering::SeqCst);
            if finished {
                h.join().unwrap();
            }
            let r = result.lock().unwrap().take();
            let (cls, err, payload_ok) = match &r {
                Some(r) => {
                    let (c, e) = classify(r);
                    (c, e, r.as_ref().map(|v| v.get("id").is_some()).unwrap_or(true))
                }
                None => ("hung", "call did not return within 30 s".to_string(), false),
            };
            out.push(&json!({"ev": "call_end", "phase": phase_name, "cls": cls, "err": err, "attempts": attempts, "payload_ok": payload_ok}));
            if phase == 2 && cls != "ok" {
                wedged += 1;
            }
            if !finished {
                break;
            }
        }
        verif::release("fleet_before_attempt");
        node.shutdown();
    }
    let lines = out.lines;
    out.finish();
    util::write_json(&a.str("summary", "/dev/null"), &json!({"scripts": count, "events": lines, "second_healthy_call_failed": wedged}));
    0
}

// ---------------------------------------------------------------------------
pub fn broadcast(a: &Args) -> i32 {
    let kind = a.str("kind", "blocking");
    let mut out = util::NdJson::create(&a.req("out"));
    let tags_all = ["a", "b", "c"];
    // node i carries the tags whose bit is set in assignment[i]
    let assignments: Vec<[u8; 4]> = vec![[0, 1, 3, 7], [1, 2, 4, 7], [0, 0, 5, 6], [7, 7, 7, 7], [0, 0, 0, 0], [1, 3, 5, 6], [2, 2, 6, 3]];
    let rt = tokio::runtime::Builder::new_multi_thread().worker_threads(4).enable_all().build().unwrap();
    let mut n = 0u64;
    for asg in &assignments {
        let nodes: Vec<Arc<FakeNode>> = (0..4).map(|_| FakeNode::start()).collect();
        let mut cfgs = vec![];
        for (i, node) in nodes.iter().enumerate() {
            let tags: Vec<&str> = (0..3).filter(|b| asg[i] >> b & 1 == 1).map(|b| tags_all[b]).collect();
            cfgs.push(NodeConfig::new("127.0.0.1", node.port).unwrap().with_name(format!("n{}", i + 1)).unwrap().with_tags(tags).with_timeout(Duration::from_millis(500)).unwrap());
        }
        let opts = FleetOptions { default_timeout: Duration::from_millis(500), retry_policy: RetryPolicy { max_attempts: 2, delay: Duration::from_millis(2) } };
        let bf = if kind == "blocking" { Some(Fleet::with_options(cfgs.clone(), opts).unwrap()) } else { None };
        let af = if kind != "blocking" { Some(AsyncFleet::with_options(cfgs.clone(), opts).unwrap()) } else { None };
        for req in 0..24u8 {
            // every tag subset, in ascending order, in descending order, and with its first tag repeated at the end
            let (req, variant) = (req % 8, req / 8);
            let mut want: Vec<&str> = (0..3).filter(|b| req >> b & 1 == 1).map(|b| tags_all[b]).collect();
            if variant == 1 { if want.len() < 2 { continue; } want.reverse(); }
            if variant == 2 { if want.is_empty() { continue; } let f = want[0]; want.push(f); }
            let before: Vec<u64> = nodes.iter().map(|x| x.served.load(Ordering::SeqCst)).collect();
            let res: Vec<(String, bool)> = match (&bf, &af) {
                (Some(f), _) => f.broadcast_json("/m", Some(&json!({"r": req})), &want).into_iter().map(|(k, v)| (k, v.succeeded())).collect(),
                (_, Some(f)) => rt.block_on(async { f.broadcast_json("/m", Some(&json!({"r": req})), &want).await }).into_iter().map(|(k, v)| (k, v.succeeded())).collect(),
                _ => unreachable!(),
            };
            let contacted: Vec<u64> = nodes.iter().enumerate().map(|(i, x)| x.served.load(Ordering::SeqCst) - before[i]).collect();
            let mut keys: Vec<String> = res.iter().map(|(k, _)| k.clone()).collect();
            keys.sort();
            n += 1;
            out.push(&json!({"ev": "broadcast", "kind": kind,
                "node_tags": (0..4).map(|i| (0..3).filter(|b| asg[i] >> b & 1 == 1).map(|b| tags_all[b]).collect::<Vec<_>>()).collect::<Vec<_>>(),
                "requested": want, "result_nodes": keys, "all_ok": res.iter().all(|(_, ok)| *ok), "ok_nodes": res.iter().filter(|(_, ok)| *ok).map(|(k, _)| k.clone()).collect::<Vec<_>>(), "silent": Vec::<usize>::new(), "requests_seen": contacted}));
        }
        for x in nodes {
            x.shutdown();
        }
    }
    // one addressed node never answers (every attempt runs into the node timeout): the broadcast still returns one
    // result per addressed node - a failed one for the silent node - however long that node made it wait
    for (ai, asg) in [[7u8, 1, 3, 0], [1, 7, 7, 2]].iter().enumerate() {
        let nodes: Vec<Arc<FakeNode>> = (0..4).map(|_| FakeNode::start()).collect();
        let mut cfgs = vec![];
        for (i, node) in nodes.iter().enumerate() {
            let tags: Vec<&str> = (0..3).filter(|b| asg[i] >> b & 1 == 1).map(|b| tags_all[b]).collect();
            cfgs.push(NodeConfig::new("127.0.0.1", node.port).unwrap().with_name(format!("n{}", i + 1)).unwrap().with_tags(tags).with_timeout(Duration::from_millis(150)).unwrap());
        }
        let opts = FleetOptions { default_timeout: Duration::from_millis(150), retry_policy: RetryPolicy { max_attempts: 2, delay: Duration::from_millis(60) } };
        let bf = if kind == "blocking" { Some(Fleet::with_options(cfgs.clone(), opts).unwrap()) } else { None };
        let af = if kind != "blocking" { Some(AsyncFleet::with_options(cfgs.clone(), opts).unwrap()) } else { None };
        let silent = ai; // node index that never answers
        nodes[silent].arm("silent_always");
        for req in [0u8, 1, 3] {
            let want: Vec<&str> = (0..3).filter(|b| req >> b & 1 == 1).map(|b| tags_all[b]).collect();
            let before: Vec<u64> = nodes.iter().map(|x| x.served.load(Ordering::SeqCst)).collect();
            let res: Vec<(String, bool)> = match (&bf, &af) {
                (Some(f), _) => if req == 3 { f.map_reduce_json("/m", None, &want, |v| v.into_iter().map(|r| (r.node.clone(), r.succeeded())).collect()) } else { f.broadcast_json("/m", Some(&json!({"r": req})), &want).into_iter().map(|(k, v)| (k, v.succeeded())).collect() },
                (_, Some(f)) => rt.block_on(async { if req == 3 { f.map_reduce_json("/m", None, &want, |v| v.into_iter().map(|r| (r.node.clone(), r.succeeded())).collect()).await } else { f.broadcast_json("/m", Some(&json!({"r": req})), &want).await.into_iter().map(|(k, v)| (k, v.succeeded())).collect() } }),
                _ => unreachable!(),
            };
            let contacted: Vec<u64> = nodes.iter().enumerate().map(|(i, x)| x.served.load(Ordering::SeqCst) - before[i]).collect();
            let mut keys: Vec<String> = res.iter().map(|(k, _)| k.clone()).collect();
            keys.sort();
            let mut oks: Vec<String> = res.iter().filter(|(_, ok)| *ok).map(|(k, _)| k.clone()).collect();
            oks.sort();
            n += 1;
            out.push(&json!({"ev": "broadcast", "kind": kind,
                "node_tags": (0..4).map(|i| (0..3).filter(|b| asg[i] >> b & 1 == 1).map(|b| tags_all[b]).collect::<Vec<_>>()).collect::<Vec<_>>(),
                "requested": want, "result_nodes": keys, "all_ok": res.iter().all(|(_, ok)| *ok), "ok_nodes": oks, "silent": [silent + 1], "requests_seen": contacted}));
        }
        for x in nodes { x.shutdown(); }
    }
    out.finish();
    util::write_json(&a.str("summary", "/dev/null"), &json!({"broadcasts": n}));
    0
}
