//! C08 engine: bulk numeric bodies against spec/BeveArray.tla.
//!
//! `bv-vectors`: replays TLC's layout / complex / aligned vectors: encoders must emit the
//!               specification's bytes (bulk = generic for n >= 1, streaming writer = builder),
//!               every decoder must read every encoder's output bit for bit (empty included),
//!               a wrong element type must be rejected, and the aligned form sent to a borrowing
//!               route must be borrowed exactly when the specification says it can be.
//! `bv-random` : random arrays (n <= 4096 and a few large) through builders, streaming writers and
//!               the bulk routes with bulk / aligned / generic request bodies, recorded for
//!               Trace_BeveArray.

use crate::util::{self, Args};
use rand::rngs::StdRng;
use rand::{Rng, SeedableRng};
use repe::{CallContext, Complex, Header, Message, MessageView, Router};
use serde_json::{json, Value};
use std::sync::atomic::{AtomicUsize, Ordering};
use std::sync::Arc;

pub trait Elem: beve::BeveTypedSlice + Copy + Send + Sync + 'static {
    const KLASS: u64;
    const KODE: u64;
    const W: usize;
    fn from_le(b: &[u8]) -> Self;
    fn le(&self) -> Vec<u8>;
}
macro_rules! elem {
    ($t:ty, $class:expr, $code:expr, $w:expr) => {
        impl Elem for $t {
            const KLASS: u64 = $class;
            const KODE: u64 = $code;
            const W: usize = $w;
            fn from_le(b: &[u8]) -> Self {
                <$t>::from_le_bytes(b.try_into().unwrap())
            }
            fn le(&self) -> Vec<u8> {
                self.to_le_bytes().to_vec()
            }
        }
    };
}
elem!(half::bf16, 0, 0, 2);
elem!(half::f16, 0, 1, 2);
elem!(f32, 0, 2, 4);
elem!(f64, 0, 3, 8);
elem!(i8, 1, 0, 1);
elem!(i16, 1, 1, 2);
elem!(i32, 1, 2, 4);
elem!(i64, 1, 3, 8);
elem!(u8, 2, 0, 1);
elem!(u16, 2, 1, 2);
elem!(u32, 2, 2, 4);
elem!(u64, 2, 3, 8);

macro_rules! dispatch {
    ($class:expr, $code:expr, $f:ident, $($a:expr),*) => {
        match ($class, $code) {
            (0, 0) => $f::<half::bf16>($($a),*), (0, 1) => $f::<half::f16>($($a),*), (0, 2) => $f::<f32>($($a),*), (0, 3) => $f::<f64>($($a),*),
            (1, 0) => $f::<i8>($($a),*), (1, 1) => $f::<i16>($($a),*), (1, 2) => $f::<i32>($($a),*), (1, 3) => $f::<i64>($($a),*),
            (2, 0) => $f::<u8>($($a),*), (2, 1) => $f::<u16>($($a),*), (2, 2) => $f::<u32>($($a),*), (2, 3) => $f::<u64>($($a),*),
            _ => panic!("type"),
        }
    };
}
/// generic (serde) paths exist for the std numeric types
macro_rules! dispatch_std {
    ($class:expr, $code:expr, $f:ident, $($a:expr),*) => {
        match ($class, $code) {
            (0, 2) => Some($f::<f32>($($a),*)), (0, 3) => Some($f::<f64>($($a),*)),
            (1, 0) => Some($f::<i8>($($a),*)), (1, 1) => Some($f::<i16>($($a),*)), (1, 2) => Some($f::<i32>($($a),*)), (1, 3) => Some($f::<i64>($($a),*)),
            (2, 0) => Some($f::<u8>($($a),*)), (2, 1) => Some($f::<u16>($($a),*)), (2, 2) => Some($f::<u32>($($a),*)), (2, 3) => Some($f::<u64>($($a),*)),
            _ => None,
        }
    };
}

fn bytes_of(v: &Value) -> Vec<u8> {
    v.as_array().unwrap().iter().map(|x| x.as_u64().unwrap() as u8).collect()
}
fn elems_of<T: Elem>(v: &Value) -> Vec<T> {
    v.as_array().unwrap().iter().map(|e| T::from_le(&bytes_of(e))).collect()
}
fn bits<T: Elem>(v: &[T]) -> Vec<u8> {
    v.iter().flat_map(|x| x.le()).collect()
}

/// a sink that takes at most `step` bytes per write call (a socket under pressure): the streaming writers must loop
struct Dribble { out: Vec<u8>, step: usize }
impl std::io::Write for Dribble {
    fn write(&mut self, b: &[u8]) -> std::io::Result<usize> { let n = b.len().min(self.step); self.out.extend_from_slice(&b[..n]); Ok(n) }
    fn flush(&mut self) -> std::io::Result<()> { Ok(()) }
}

/// facts about one array through the bulk paths
fn bulk_facts<T: Elem>(v: &[T]) -> Value {
    let m = Message::builder().id(3).query_str("/bulk").body_typed_slice(v).build();
    let mut streamed = vec![];
    let mut h = Header::new();
    h.id = 3;
    h.query_format = m.header.query_format;
    let mut stream_ok = repe::write_message_typed_slice(&mut streamed, h, b"/bulk", v).is_ok();
    for step in [1usize, 3, 7] {
        let mut d = Dribble { out: vec![], step };
        stream_ok &= repe::write_message_typed_slice(&mut d, h, b"/bulk", v).is_ok() && d.out == streamed;
    }
    // whatever body format the caller's header carried (a responder reusing the request's header): the frame is the builder's
    for bf in [1u16, 2, 3, 77] {
        let mut h2 = h;
        h2.body_format = bf;
        let mut o = vec![];
        stream_ok &= repe::write_message_typed_slice(&mut o, h2, b"/bulk", v).is_ok() && o == streamed;
    }
    let dec = m.decode_typed_slice::<T>();
    // a different element type must be rejected, not reinterpreted
    let wrong = {
        let a = if T::KLASS == 0 && T::KODE == 3 { m.decode_typed_slice::<u64>().is_err() } else { m.decode_typed_slice::<f64>().is_err() };
        let b = if T::KLASS == 2 && T::KODE == 0 { m.decode_typed_slice::<i8>().is_err() } else { m.decode_typed_slice::<u8>().is_err() };
        a && b
    };
    let mut wrong_format = m.clone();
    wrong_format.header.body_format = 2; // JSON
    json!({
        "bulk": m.body, "stream_equal": stream_ok && streamed == m.to_vec(),
        "bulk_dec_bulk": dec.map(|d| bits(&d) == bits(v)).unwrap_or(false),
        "wrong_type_rejected": wrong, "wrong_format_rejected": wrong_format.decode_typed_slice::<T>().is_err(),
    })
}
fn generic_facts<T: Elem + serde::Serialize + serde::de::DeserializeOwned>(v: &[T]) -> Value {
    let vv: Vec<T> = v.to_vec();
    let g = Message::builder().body_beve(&vv).unwrap().build();
    let b = Message::builder().body_typed_slice(v).build();
    json!({
        "generic": g.body,
        "bulk_dec_generic": g.decode_typed_slice::<T>().map(|d| bits(&d) == bits(v)).unwrap_or(false),     // bulk decoder <- generic encoder
        "generic_dec_bulk": b.beve_body::<Vec<T>>().map(|d| bits(&d) == bits(v)).unwrap_or(false),          // generic decoder <- bulk encoder
        "generic_dec_generic": g.beve_body::<Vec<T>>().map(|d| bits(&d) == bits(v)).unwrap_or(false),
    })
}
fn complex_facts<T: Elem>(pairs: &Value) -> Value {
    let v: Vec<Complex<T>> = pairs.as_array().unwrap().iter().map(|p| {
        let b = bytes_of(p);
        Complex { re: T::from_le(&b[..T::W]), im: T::from_le(&b[T::W..]) }
    }).collect();
    complex_facts_v(&v)
}
fn complex_facts_v<T: Elem>(v: &[Complex<T>]) -> Value {
    let m = Message::builder().id(3).query_str("/c").body_complex_slice(v).build();
    let mut streamed = vec![];
    let mut h = Header::new();
    h.id = 3;
    h.query_format = m.header.query_format;
    let mut ok = repe::write_message_complex_slice(&mut streamed, h, b"/c", v).is_ok();
    for step in [1usize, 3, 7] {
        let mut d = Dribble { out: vec![], step };
        ok &= repe::write_message_complex_slice(&mut d, h, b"/c", v).is_ok() && d.out == streamed;
    }
    for bf in [1u16, 2, 3, 77] {
        let mut h2 = h;
        h2.body_format = bf;
        let mut o = vec![];
        ok &= repe::write_message_complex_slice(&mut o, h2, b"/c", v).is_ok() && o == streamed;
    }
    let flat = |d: &[Complex<T>]| -> Vec<u8> { d.iter().flat_map(|c| [c.re.le(), c.im.le()].concat()).collect() };
    let wrong = if T::KLASS == 0 && T::KODE == 3 { m.decode_complex_slice::<u64>().is_err() } else { m.decode_complex_slice::<f64>().is_err() };
    json!({"bytes": m.body, "stream_equal": ok && streamed == m.to_vec(),
           "dec": m.decode_complex_slice::<T>().map(|d| flat(&d) == flat(v)).unwrap_or(false),
           "wrong_type_rejected": wrong && m.decode_typed_slice::<T>().is_err()})
}

/// aligned request to a borrowing route with the frame at buffer misalignment m
fn aligned_facts<T: Elem>(elems: &Value, qlen: usize, misalign: usize) -> Value {
    let v: Vec<T> = elems_of(elems);
    let path: String = if qlen == 0 { String::new() } else { format!("/{}", "a".repeat(qlen - 1)) };
    let seen_ptr = Arc::new(AtomicUsize::new(0));
    let sp = seen_ptr.clone();
    let router = Router::new().with_typed_slice_ref::<T, T, _>(&path, move |xs: &[T]| {
        sp.store(xs.as_ptr() as usize, Ordering::SeqCst);
        Ok(xs.to_vec())
    });
    let req = Message::builder().id(5).query_str(&path).body_aligned_typed_slice(&v).build();
    let frame = req.to_vec();
    let wire2 = req.clone().into_wire_bytes();
    // an 8-aligned backing store, frame placed at `misalign`
    let mut backing: Vec<u64> = vec![0; (frame.len() + 16) / 8 + 2];
    let base = backing.as_mut_ptr() as *mut u8;
    let buf: &mut [u8] = unsafe { std::slice::from_raw_parts_mut(base, backing.len() * 8) };
    buf[misalign..misalign + frame.len()].copy_from_slice(&frame);
    let region = &buf[misalign..misalign + frame.len()];
    let view = MessageView::from_slice(region).unwrap();
    let ctx = CallContext::detached(&path);
    let (mut ok_view, mut same_view, mut borrowed) = (false, false, false);
    if let Some(h) = router.get(&path) {
        if let Ok(resp) = h.handle_view(&view, &ctx) {
            ok_view = !resp.is_error();
            same_view = resp.decode_typed_slice::<T>().map(|d| bits(&d) == bits(&v)).unwrap_or(false);
            let p = seen_ptr.load(Ordering::SeqCst);
            let lo = region.as_ptr() as usize;
            borrowed = p >= lo && p < lo + region.len().max(1) && !v.is_empty();
            // an empty slice has no element block to point into: count it as borrowed iff it may be
            if v.is_empty() {
                borrowed = p >= lo && p <= lo + region.len();
            }
        }
    }
    // the owned path must give the same elements
    let owned_ok = router.get(&path).and_then(|h| h.handle(&req).ok()).map(|r| r.decode_typed_slice::<T>().map(|d| bits(&d) == bits(&v)).unwrap_or(false)).unwrap_or(false);
    json!({"body": req.body, "wire_paths_equal": frame == wire2, "view_ok": ok_view, "view_same": same_view, "borrowed": borrowed, "owned_same": owned_ok})
}

/// the real clients' aligned call: what they put on the wire for this query length (captured by a raw peer)
pub struct Capture { addr: std::net::SocketAddr, rx: std::sync::mpsc::Receiver<Message>, sync: repe::Client, asy: repe::AsyncClient, rt: tokio::runtime::Runtime }
impl Capture {
    fn start() -> Capture {
        let l = std::net::TcpListener::bind("127.0.0.1:0").unwrap();
        let addr = l.local_addr().unwrap();
        let (tx, rx) = std::sync::mpsc::channel();
        std::thread::spawn(move || {
            for s in l.incoming() {
                let Ok(mut s) = s else { break };
                let tx = tx.clone();
                std::thread::spawn(move || {
                    while let Ok(m) = repe::read_message(&mut s) {
                        let resp = Message::builder().id(m.header.id).query_bytes(m.query.clone()).body_typed_slice::<u8>(&[]).build();
                        let _ = tx.send(m);
                        if repe::write_message(&mut s, &resp).is_err() { break; }
                    }
                });
            }
        });
        let rt = tokio::runtime::Builder::new_current_thread().enable_all().build().unwrap();
        let sync = repe::Client::connect(addr).unwrap();
        let asy = rt.block_on(repe::AsyncClient::connect(addr)).unwrap();
        Capture { addr, rx, sync, asy, rt }
    }
}
fn aligned_client_facts<T: Elem>(elems: &Value, qlen: usize, cap: &Capture) -> Value {
    let v: Vec<T> = elems_of(elems);
    let path: String = if qlen == 0 { String::new() } else { format!("/{}", "a".repeat(qlen - 1)) };
    let _ = cap.addr;
    let d = std::time::Duration::from_secs(5);
    let r1 = cap.sync.call_typed_slice_aligned_with_timeout::<_, T, u8>(&path, &v, d).map(|_| ()).map_err(|e| e.to_string());
    let m1 = cap.rx.recv_timeout(d).ok();
    let r2 = cap.rt.block_on(cap.asy.call_typed_slice_aligned_with_timeout::<_, T, u8>(&path, &v, d)).map(|_| ()).map_err(|e| e.to_string());
    let m2 = cap.rx.recv_timeout(d).ok();
    json!({"client": m1.map(|m| json!({"body": m.body, "qlen": m.query.len()})), "client_res": format!("{r1:?}"),
           "async_client": m2.map(|m| json!({"body": m.body, "qlen": m.query.len()})), "async_client_res": format!("{r2:?}")})
}

fn layout_one<T: Elem>(v: &Value) -> Value {
    bulk_facts::<T>(&elems_of::<T>(&v["elems"]))
}
fn layout_generic<T: Elem + serde::Serialize + serde::de::DeserializeOwned>(v: &Value) -> Value {
    generic_facts::<T>(&elems_of::<T>(&v["elems"]))
}

pub fn vectors(a: &Args) -> i32 {
    std::panic::set_hook(Box::new(|_| {}));
    let mut failures: Vec<Value> = vec![];
    let mut counts = std::collections::BTreeMap::<String, u64>::new();
    let mut fail = |sig: String, what: String, v: &Value, failures: &mut Vec<Value>| {
        if failures.iter().filter(|f| f["sig"] == json!(sig)).count() < 3 {
            failures.push(json!({"sig": sig, "what": what, "vector": v}));
        }
    };
    let mut evals = 0u64;
    let cap = Capture::start();
    for v in util::tlc_tagged_json(&a.req("vectors"), "VEC") {
        let kind = v["kind"].as_str().unwrap().to_string();
        *counts.entry(kind.clone()).or_insert(0) += 1;
        let (class, code) = (v["class"].as_u64().unwrap(), v["code"].as_u64().unwrap());
        let r = std::panic::catch_unwind(std::panic::AssertUnwindSafe(|| -> Vec<(String, String)> {
            let mut bad = vec![];
            match kind.as_str() {
                "layout" => {
                    let f = dispatch!(class, code, layout_one, &v);
                    let n = v["elems"].as_array().unwrap().len();
                    if bytes_of(&f["bulk"]) != bytes_of(&v["bulk"]) {
                        bad.push(("layout:bulk-bytes".into(), format!("bulk encoder wrote {}, specification {}", f["bulk"], v["bulk"])));
                    }
                    for k in ["stream_equal", "bulk_dec_bulk", "wrong_type_rejected", "wrong_format_rejected"] {
                        if f[k] != json!(true) {
                            bad.push((format!("layout:{k}"), format!("{k} is false for class {class} code {code} n {n}")));
                        }
                    }
                    if let Some(g) = dispatch_std!(class, code, layout_generic, &v) {
                        if bytes_of(&g["generic"]) != bytes_of(&v["generic"]) {
                            bad.push(("layout:generic-bytes".into(), format!("generic encoder wrote {}, specification {}", g["generic"], v["generic"])));
                        }
                        if n >= 1 && bytes_of(&g["generic"]) != bytes_of(&f["bulk"]) {
                            bad.push(("layout:bulk-ne-generic".into(), "bulk body differs from the generic encoding of the same non-empty vector".into()));
                        }
                        for k in ["bulk_dec_generic", "generic_dec_bulk", "generic_dec_generic"] {
                            if g[k] != json!(true) {
                                bad.push((format!("cross-decode:{k}:{}", if n == 0 { "empty" } else { "nonempty" }), format!("{k} failed for class {class} code {code} n {n}")));
                            }
                        }
                    }
                }
                "complex" => {
                    let f = dispatch!(class, code, complex_facts, &v["pairs"]);
                    if bytes_of(&f["bytes"]) != bytes_of(&v["bytes"]) {
                        bad.push(("complex:bytes".into(), format!("complex encoder wrote {}, specification {}", f["bytes"], v["bytes"])));
                    }
                    for k in ["stream_equal", "dec", "wrong_type_rejected"] {
                        if f[k] != json!(true) {
                            bad.push((format!("complex:{k}"), format!("{k} is false for class {class} code {code}")));
                        }
                    }
                }
                "aligned" => {
                    let (q, m) = (v["qlen"].as_u64().unwrap() as usize, v["misalign"].as_u64().unwrap() as usize);
                    let f = dispatch!(class, code, aligned_facts, &v["elems"], q, m);
                    if bytes_of(&f["body"]) != bytes_of(&v["body"]) {
                        bad.push(("aligned:bytes".into(), format!("aligned encoder wrote {} for query length {q}, specification {}", f["body"], v["body"])));
                    }
                    for k in ["wire_paths_equal", "view_ok", "view_same", "owned_same"] {
                        if f[k] != json!(true) {
                            bad.push((format!("aligned:{k}"), format!("{k} is false for class {class} code {code} qlen {q} misalign {m}")));
                        }
                    }
                    // the real clients' aligned call must put the specification's aligned body on the wire for this query length
                    if m == 0 {
                        let cf = dispatch!(class, code, aligned_client_facts, &v["elems"], q, &cap);
                        for who in ["client", "async_client"] {
                            if cf[who].is_null() {
                                bad.push((format!("aligned:{who}:no_request"), format!("{who}.call_typed_slice_aligned sent nothing (qlen {q}): {}", cf[format!("{who}_res")])));
                            } else if cf[who]["qlen"] != json!(q) || bytes_of(&cf[who]["body"]) != bytes_of(&v["body"]) {
                                bad.push((format!("aligned:{who}:bytes"), format!("{who}.call_typed_slice_aligned put body {} (query length {}) on the wire; specification for query length {q}: {}", cf[who]["body"], cf[who]["qlen"], v["body"])));
                            }
                        }
                    }
                    if f["borrowed"] != v["borrowable"] {
                        bad.push((format!("aligned:borrow:{}", if v["borrowable"] == json!(true) { "copied-though-aligned" } else { "borrowed-though-misaligned" }),
                                  format!("borrowed={} but the specification says borrowable={} (class {class} code {code} qlen {q} misalign {m})", f["borrowed"], v["borrowable"])));
                    }
                }
                _ => {}
            }
            bad
        }));
        evals += 1;
        match r {
            Ok(bad) => {
                for (sig, what) in bad {
                    fail(sig, what, &v, &mut failures);
                }
            }
            Err(_) => fail(format!("{kind}:panic"), "panic in code under test".into(), &v, &mut failures),
        }
    }
    util::write_json(&a.req("out"), &json!({"vectors": counts, "evaluations": evals, "failures": failures}));
    0
}

// ---------------------------------------------------------------------------
fn random_one<T: Elem + serde::Serialize + serde::de::DeserializeOwned>(rng: &mut StdRng, n: usize, qlen: usize) -> Value {
    let v: Vec<T> = (0..n).map(|_| {
        let mut b = vec![0u8; T::W];
        match rng.gen_range(0..6) {
            0 => {}
            1 => b.iter_mut().for_each(|x| *x = 0xFF),
            2 => { b[T::W - 1] = 0x7F; if T::W > 1 { b[T::W - 2] = 0xF8; } b[0] = rng.r#gen(); }  // NaN payloads / large positives
            _ => rng.fill(&mut b[..]),
        }
        T::from_le(&b)
    }).collect();
    let bf = bulk_facts::<T>(&v);
    let gf = generic_facts::<T>(&v);
    // routes: bulk route <- bulk / generic / aligned bodies ; typed (generic) route <- bulk body
    let path = format!("/{}", "r".repeat(qlen.max(1) - 1));
    let router = Router::new()
        .with_typed_slice::<T, T, _>(&format!("{path}b"), |xs: Vec<T>| Ok(xs))
        .with_typed_slice_ref::<T, T, _>(&format!("{path}r"), |xs: &[T]| Ok(xs.to_vec()));
    let call = |suffix: &str, body: &str| -> bool {
        let p = format!("{path}{suffix}");
        let b = Message::builder().id(1).query_str(&p);
        let req = match body {
            "bulk" => b.body_typed_slice(&v).build(),
            "generic" => b.body_beve(&v).unwrap().build(),
            _ => b.body_aligned_typed_slice(&v).build(),
        };
        let h = router.get(&p).unwrap();
        let owned = h.handle(&req).ok().filter(|r| !r.is_error());
        let frame = req.to_vec();
        let view = MessageView::from_slice(&frame).unwrap();
        let viewed = h.handle_view(&view, &CallContext::detached(&p)).ok().filter(|r| !r.is_error());
        let same = |r: &Option<Message>| r.as_ref().map(|m| m.decode_typed_slice::<T>().map(|d| bits(&d) == bits(&v)).unwrap_or(false)).unwrap_or(false);
        same(&owned) && same(&viewed)
    };
    // the same array bytes under any OTHER declared body format (raw binary, JSON, UTF-8, unknown): rejected on both bulk
    // routes and both dispatch paths, never reinterpreted as the array they happen to spell
    let mut wrong_fmt_accepted: Vec<String> = vec![];
    for (suffix, body) in [("b", "bulk"), ("r", "bulk"), ("r", "aligned")] {
        for fmt in [0u16, 2, 3, 77, 0xFFFF] {
            let p = format!("{path}{suffix}");
            let b = Message::builder().id(1).query_str(&p);
            let mut req = if body == "bulk" { b.body_typed_slice(&v).build() } else { b.body_aligned_typed_slice(&v).build() };
            req.header.body_format = fmt;
            let h = router.get(&p).unwrap();
            let owned_rejected = h.handle(&req).map(|r| r.is_error()).unwrap_or(true);
            let frame = req.to_vec();
            let view = MessageView::from_slice(&frame).unwrap();
            let view_rejected = h.handle_view(&view, &CallContext::detached(&p)).map(|r| r.is_error()).unwrap_or(true);
            if !owned_rejected { wrong_fmt_accepted.push(format!("{suffix}:{body}:{fmt}:owned")); }
            if !view_rejected { wrong_fmt_accepted.push(format!("{suffix}:{body}:{fmt}:view")); }
        }
    }
    json!({"ev": "array", "class": T::KLASS, "code": T::KODE, "n": n, "qlen": qlen, "route_wrong_format_accepted": wrong_fmt_accepted,
           "bulk_len": bytes_of(&bf["bulk"]).len(), "bulk_head": bytes_of(&bf["bulk"]).iter().take(6).collect::<Vec<_>>(),
           "generic_len": bytes_of(&gf["generic"]).len(), "generic_equal": bf["bulk"] == gf["generic"],
           "stream_equal": bf["stream_equal"], "bulk_dec_bulk": bf["bulk_dec_bulk"], "bulk_dec_generic": gf["bulk_dec_generic"],
           "generic_dec_bulk": gf["generic_dec_bulk"], "wrong_type_rejected": bf["wrong_type_rejected"], "wrong_format_rejected": bf["wrong_format_rejected"],
           "route_bulk_bulk": call("b", "bulk"), "route_bulk_generic": call("b", "generic"),
           "route_ref_bulk": call("r", "bulk"), "route_ref_aligned": call("r", "aligned"), "route_ref_generic": call("r", "generic"),
           "aligned_len": Message::builder().query_str(&format!("{path}r")).body_aligned_typed_slice(&v).build().body.len(), "aligned_base": 48 + path.len() + 1})
}
fn random_complex<T: Elem>(rng: &mut StdRng, n: usize) -> Value {
    let v: Vec<Complex<T>> = (0..n).map(|_| {
        let mut b = vec![0u8; 2 * T::W];
        rng.fill(&mut b[..]);
        Complex { re: T::from_le(&b[..T::W]), im: T::from_le(&b[T::W..]) }
    }).collect();
    let f = complex_facts_v(&v);
    json!({"ev": "complex", "class": T::KLASS, "code": T::KODE, "n": n, "len": bytes_of(&f["bytes"]).len(), "head": bytes_of(&f["bytes"]).iter().take(7).collect::<Vec<_>>(),
           "stream_equal": f["stream_equal"], "dec": f["dec"], "wrong_type_rejected": f["wrong_type_rejected"]})
}

pub fn random(a: &Args) -> i32 {
    std::panic::set_hook(Box::new(|_| {}));
    let mut rng = StdRng::seed_from_u64(a.u64("seed", 1));
    let runs = a.usize("runs", 300);
    let large = a.usize("large", 2);
    let mut out = util::NdJson::create(&a.req("out"));
    for i in 0..runs + large {
        // the size-prefix boundaries (1 -> 2 -> 4 byte compressed size) are visited deterministically first
        const BOUNDARY: [usize; 10] = [0, 1, 62, 63, 64, 65, 16382, 16383, 16384, 16385];
        let n = if i >= runs { [1usize << 16, 1 << 20, 300_000][i % 3] } else if i < 3 * BOUNDARY.len() { BOUNDARY[i % BOUNDARY.len()] } else {
            match rng.gen_range(0..8) { 0 => 0, 1 => 1, 2 => 63, 3 => 64, 4 => 4096, 5 => rng.gen_range(16380..16390), _ => rng.gen_range(0..4096) }
        };
        let qlen = rng.gen_range(1..=64);
        let types: [(u64, u64); 10] = [(0, 2), (0, 3), (1, 0), (1, 1), (1, 2), (1, 3), (2, 0), (2, 1), (2, 2), (2, 3)];
        let (c, k) = types[rng.gen_range(0..types.len())];
        let ev = std::panic::catch_unwind(std::panic::AssertUnwindSafe(|| dispatch_std!(c, k, random_one, &mut rng, n, qlen).unwrap()));
        out.push(&ev.unwrap_or_else(|_| json!({"ev": "panic", "class": c, "code": k, "n": n})));
        if i % 4 == 0 {
            let (c2, k2) = [(0u64, 0u64), (0, 1), (0, 2), (0, 3), (1, 1), (2, 3)][rng.gen_range(0..6)];
            let nn = n.min(5000);
            let ev = std::panic::catch_unwind(std::panic::AssertUnwindSafe(|| dispatch!(c2, k2, random_complex, &mut rng, nn)));
            out.push(&ev.unwrap_or_else(|_| json!({"ev": "panic", "class": c2, "code": k2, "n": nn})));
        }
    }
    let lines = out.lines;
    out.finish();
    util::write_json(&a.str("summary", "/dev/null"), &json!({"events": lines}));
    0
}
