//! C18 engine: repe::PeerRegistry against spec/PeerRegistry.tla.
//!
//! `pr-walk` : spec -> impl. Every edge of the complete reachable graph TLC printed is
//!             replayed from a shortest path, and every mutator/broadcast label path up to
//!             `--depth` is walked on a fresh registry; after every step all queries
//!             (get, get_by, key_for, aliases_for, len, peers) are compared with the
//!             specification's answers for that state, and broadcast deliveries are counted
//!             by capturing sinks.
//! `pr-hist` : impl -> spec. Sequential and concurrent (up to 4 threads) histories recorded
//!             as inv/res events for the linearizability trace spec Trace_PeerRegistry.

use crate::util::{self, Args};
use rand::rngs::StdRng;
use rand::{Rng, SeedableRng};
use repe::{BodyFormat, NotifyBody, PeerHandle, PeerId, PeerRegistry, PeerSendError, PeerSink};
use serde_json::{json, Value};
use std::collections::HashMap;
use std::sync::atomic::{AtomicU64, Ordering};
use std::sync::{Arc, Mutex};

/// model peer 3 is the real peer with the largest id there is (PeerId(u64::MAX), the value the crate also uses as its
/// "detached" sentinel): a registry treats it like any other id
fn rid(p: u64) -> PeerId { PeerId(if p == 3 { u64::MAX } else { p }) }
fn mid(id: PeerId) -> u64 { if id.0 == u64::MAX { 3 } else { id.0 } }

#[derive(Default)]
struct CapSink {
    got: Mutex<Vec<(String, Vec<u8>, u16)>>,
    /// the transport behind the sink has closed (the peer itself stays registered until it is removed)
    closed: std::sync::atomic::AtomicBool,
    /// run once, from inside the next send (a sink may well call back into the registry: a transport that learns of a
    /// dead connection while sending removes the peer)
    on_send: Mutex<Option<Box<dyn FnOnce() + Send>>>,
}
impl PeerSink for CapSink {
    fn is_connected(&self) -> bool { !self.closed.load(Ordering::SeqCst) }
    fn send_notify(&self, method: &str, body: NotifyBody) -> Result<(), PeerSendError> {
        let fmt = u16::from(body.body_format());
        self.got.lock().unwrap().push((method.to_string(), body.into_bytes(), fmt));
        let hook = self.on_send.lock().unwrap().take();
        if let Some(h) = hook { h(); }
        Ok(())
    }
}

struct World {
    reg: PeerRegistry,
    sinks: HashMap<u64, Arc<CapSink>>,
    /// run once from inside the serialization of a JSON broadcast's value (user code runs there too)
    ser_hook: Mutex<Option<Box<dyn FnOnce() + Send>>>,
}
/// a value whose Serialize impl runs the world's hook (once) before writing the number
struct HookSer<'a>(&'a World, u64);
impl serde::Serialize for HookSer<'_> {
    fn serialize<S: serde::Serializer>(&self, s: S) -> Result<S::Ok, S::Error> {
        let h = self.0.ser_hook.lock().unwrap().take();
        if let Some(h) = h { h(); }
        s.serialize_u64(self.1)
    }
}
impl World {
    fn new(peers: &[u64]) -> Self {
        World { reg: PeerRegistry::new(), sinks: peers.iter().map(|p| (*p, Arc::new(CapSink::default()))).collect(), ser_hook: Mutex::new(None) }
    }
    fn handle(&self, p: u64) -> PeerHandle {
        PeerHandle::new(rid(p), self.sinks[&p].clone())
    }
    /// Perform op, return its result in the spec's uniform encoding (+ broadcast delivery facts).
    fn exec(&self, name: &str, p: u64, k: &str, serial: u64) -> (Value, Value, u64) {
        match name {
            "insert" => {
                self.sinks[&p].closed.store(false, Ordering::SeqCst);
                self.reg.insert(self.handle(p));
                (json!([]), Value::Null, 0)
            }
            // the peer's transport closes; the registry is told nothing (its disconnect hook has not run yet)
            "close_sink" => { self.sinks[&p].closed.store(true, Ordering::SeqCst); (json!([]), Value::Null, 0) }
            "remove" => (opt_peer(self.reg.remove(rid(p))), Value::Null, 0),
            "alias" => (json!([if self.reg.alias(rid(p), k.to_string()) { 1 } else { 0 }]), Value::Null, 0),
            "get" => (opt_peer(self.reg.get(rid(p))), Value::Null, 0),
            "get_by" => (opt_peer(self.reg.get_by(k)), Value::Null, 0),
            "key_for" => (json!(self.reg.key_for(rid(p)).into_iter().collect::<Vec<_>>()), Value::Null, 0),
            "aliases_for" => (json!(self.reg.aliases_for(rid(p))), Value::Null, 0),
            "len" => {
                (json!([self.reg.len()]), Value::Null, 0)
            }
            n if n == "broadcast" || n.starts_with("broadcast:") => {
                // "broadcast:<k>" forces the flavour (k as below; 8 = JSON of a value whose serialization runs a hook)
                let flavour = n.strip_prefix("broadcast:").and_then(|k| k.parse::<u64>().ok()).unwrap_or(serial % 8);
                // a body unique to this call, so deliveries can be attributed to it
                let path = format!("/bc/{serial}");
                let body = format!("body-{serial}").into_bytes();
                // raw broadcasts carry bytes that are not valid text / JSON / BEVE under every format tag: the body is the
                // caller's, delivered verbatim whatever the tag says
                let hostile: Vec<u8> = [&[0x61u8, 0x80, 0x62, 0xFF, 0xE2, 0x82][..], format!("-{serial}").as_bytes()].concat();
                let raw_tags = [BodyFormat::Utf8, BodyFormat::Json, BodyFormat::Beve, BodyFormat::RawBinary];
                let (res, fmt): (HashMap<PeerId, Result<(), PeerSendError>>, u16) = match flavour {
                    0 => (self.reg.broadcast_notify_raw(&path, BodyFormat::RawBinary, &body), u16::from(BodyFormat::RawBinary)),
                    1 => (self.reg.broadcast_notify_utf8(&path, std::str::from_utf8(&body).unwrap()), u16::from(BodyFormat::Utf8)),
                    2 => (self.reg.broadcast_notify_json(&path, &serial).unwrap(), u16::from(BodyFormat::Json)),
                    3 => (self.reg.broadcast_notify_beve(&path, &serial).unwrap(), u16::from(BodyFormat::Beve)),
                    8 => (self.reg.broadcast_notify_json(&path, &HookSer(self, serial)).unwrap(), u16::from(BodyFormat::Json)),
                    k => { let t = raw_tags[(k - 4) as usize]; (self.reg.broadcast_notify_raw(&path, t, &hostile), u16::from(t)) }
                };
                let want_body: Vec<u8> = match flavour {
                    0 | 1 => body.clone(),
                    2 | 8 => serde_json::to_vec(&serial).unwrap(),
                    3 => beve::to_vec(&serial).unwrap(),
                    _ => hostile.clone(),
                };
                let mut keys: Vec<u64> = res.keys().map(|p| mid(*p)).collect();
                keys.sort();
                let mut bad = res.values().filter(|r| r.is_err()).count() as u64;
                let mut deliv = vec![];
                for (p, s) in &self.sinks {
                    let g = s.got.lock().unwrap();
                    let mine: Vec<_> = g.iter().filter(|(m, _, _)| m == &path).collect();
                    let exact = mine.iter().filter(|(_, b, f)| b == &want_body && *f == fmt).count();
                    if mine.len() == 1 && exact == 1 {
                        deliv.push(*p);
                    } else if !mine.is_empty() {
                        bad += 1; // duplicate delivery or wrong body/format
                    }
                }
                deliv.sort();
                (json!(keys), json!(deliv), bad)
            }
            other => panic!("unknown op {other}"),
        }
    }
}
fn opt_peer(h: Option<PeerHandle>) -> Value {
    json!(h.map(|x| mid(x.peer_id())).into_iter().collect::<Vec<_>>())
}

// ---------------------------------------------------------------------------
struct Graph {
    init: usize,
    obs: Vec<Value>,
    edges: Vec<Vec<(usize, usize)>>,
    labels: Vec<Value>,
    peers: Vec<u64>,
    keys: Vec<String>,
}

fn load(path: &str) -> Graph {
    let mut ids: HashMap<String, usize> = HashMap::new();
    let mut g = Graph { init: 0, obs: vec![], edges: vec![], labels: vec![], peers: vec![], keys: vec![] };
    let mut lab: HashMap<String, usize> = HashMap::new();
    let mut sid = |g: &mut Graph, s: &Value, o: Option<&Value>| -> usize {
        let k = s.to_string();
        let i = *ids.entry(k).or_insert_with(|| {
            g.obs.push(Value::Null);
            g.edges.push(vec![]);
            g.obs.len() - 1
        });
        if let Some(o) = o {
            g.obs[i] = o.clone();
        }
        i
    };
    let inits = util::tlc_tagged_json(path, "INIT");
    let i0 = inits.first().expect("INIT line");
    g.init = sid(&mut g, &i0[0], Some(&i0[1]));
    g.keys = i0[0]["owner"].as_object().unwrap().keys().cloned().collect();
    g.peers = (1..=i0[0]["order"].as_array().unwrap().len() as u64).collect();
    for e in util::tlc_tagged_json(path, "EDGE") {
        let f = sid(&mut g, &e[0], None);
        let t = sid(&mut g, &e[2], Some(&e[3]));
        let lk = e[1].to_string();
        let l = *lab.entry(lk).or_insert_with(|| {
            g.labels.push(e[1].clone());
            g.labels.len() - 1
        });
        if !g.edges[f].contains(&(l, t)) {
            g.edges[f].push((l, t));
        }
    }
    g
}

fn observe(w: &World, g: &Graph) -> Value {
    let per_peer = |f: &dyn Fn(u64) -> Value| Value::Array(g.peers.iter().map(|p| f(*p)).collect());
    let mut get_by = serde_json::Map::new();
    for k in &g.keys {
        get_by.insert(k.clone(), w.exec("get_by", 0, k, 0).0);
    }
    let mut peers: Vec<u64> = w.reg.peers().iter().map(|p| mid(p.peer_id())).collect();
    peers.sort();
    json!({
        "get": per_peer(&|p| w.exec("get", p, "", 0).0),
        "get_by": get_by,
        "key_for": per_peer(&|p| w.exec("key_for", p, "", 0).0),
        "aliases_for": per_peer(&|p| w.exec("aliases_for", p, "", 0).0),
        "len": w.reg.len(),
        "peers": peers,
    })
}

fn run_path(g: &Graph, path: &[(usize, usize)], full: bool, serial: &AtomicU64) -> Result<(), (usize, String)> {
    let r = std::panic::catch_unwind(|| {
        let w = World::new(&g.peers);
        for (i, (l, to)) in path.iter().enumerate() {
            let lab = &g.labels[*l];
            let op = &lab["op"];
            let s = serial.fetch_add(1, Ordering::Relaxed);
            let (ret, deliv, bad) = w.exec(op["name"].as_str().unwrap(), op["p"].as_u64().unwrap(), op["k"].as_str().unwrap(), s);
            if ret != lab["ret"] {
                return Err((i, format!("{} returned {ret}, spec {}", op, lab["ret"])));
            }
            if op["name"] == "broadcast" && (deliv != ret || bad != 0) {
                return Err((i, format!("broadcast result {ret} but exactly-once deliveries {deliv}, anomalies {bad}")));
            }
            if full || i + 1 == path.len() {
                let got = observe(&w, g);
                if got != g.obs[*to] {
                    return Err((i, format!("queries after {}: impl {got}, spec {}", op, g.obs[*to])));
                }
            }
        }
        Ok(())
    });
    r.unwrap_or_else(|p| {
        let msg = p.downcast_ref::<String>().cloned().or_else(|| p.downcast_ref::<&str>().map(|s| s.to_string())).unwrap_or_default();
        Err((path.len().saturating_sub(1), format!("PANIC in code under test: {msg}")))
    })
}

pub fn walk(a: &Args) -> i32 {
    let g = load(&a.req("graph"));
    let depth = a.usize("depth", 5);
    let threads = a.usize("threads", 8).max(1);
    std::panic::set_hook(Box::new(|_| {}));
    let serial = AtomicU64::new(1);
    let n_edges: usize = g.edges.iter().map(|e| e.len()).sum();
    // BFS tree
    let mut parent: Vec<Option<(usize, usize)>> = vec![None; g.obs.len()];
    let mut seen = vec![false; g.obs.len()];
    seen[g.init] = true;
    let mut q = std::collections::VecDeque::from([g.init]);
    while let Some(s) = q.pop_front() {
        for &(l, t) in &g.edges[s] {
            if !seen[t] {
                seen[t] = true;
                parent[t] = Some((s, l));
                q.push_back(t);
            }
        }
    }
    let path_to = |s: usize| {
        let mut p = vec![];
        let mut c = s;
        while let Some((f, l)) = parent[c] {
            p.push((l, c));
            c = f;
        }
        p.reverse();
        p
    };
    let describe = |path: &[(usize, usize)], i: usize, e: &str| json!({"path": path.iter().map(|(l, _)| g.labels[*l].clone()).collect::<Vec<_>>(), "failed_step": i, "op": path.get(i).map(|(l, _)| g.labels[*l]["op"]["name"].clone()), "what": e});
    let mut failures = vec![];
    let mut edge_runs = 0u64;
    for s in 0..g.obs.len() {
        if !seen[s] {
            continue;
        }
        let base = path_to(s);
        for &(l, t) in &g.edges[s] {
            let mut p = base.clone();
            p.push((l, t));
            edge_runs += 1;
            if let Err((i, e)) = run_path(&g, &p, true, &serial) {
                if failures.len() < 40 {
                    failures.push(describe(&p, i, &e));
                }
            }
        }
    }
    // all paths over state-changing labels and broadcast (queries are compared in every state anyway)
    let walk_label: Vec<bool> = g.labels.iter().map(|l| matches!(l["op"]["name"].as_str().unwrap(), "insert" | "remove" | "alias" | "broadcast")).collect();
    let paths = AtomicU64::new(0);
    let steps = AtomicU64::new(0);
    let fails = Mutex::new(Vec::<Value>::new());
    let firsts: Vec<(usize, usize)> = g.edges[g.init].iter().copied().filter(|(l, _)| walk_label[*l]).collect();
    let next = AtomicU64::new(0);
    std::thread::scope(|sc| {
        for _ in 0..threads {
            sc.spawn(|| loop {
                let k = next.fetch_add(1, Ordering::Relaxed) as usize;
                if k >= firsts.len() {
                    break;
                }
                let mut path = vec![firsts[k]];
                fn dfs(g: &Graph, wl: &[bool], path: &mut Vec<(usize, usize)>, depth: usize, paths: &AtomicU64, steps: &AtomicU64,
                       fails: &Mutex<Vec<Value>>, serial: &AtomicU64) {
                    paths.fetch_add(1, Ordering::Relaxed);
                    steps.fetch_add(path.len() as u64, Ordering::Relaxed);
                    if let Err((i, e)) = run_path(g, path, false, serial) {
                        let mut f = fails.lock().unwrap();
                        if f.len() < 40 {
                            f.push(json!({"path": path.iter().map(|(l, _)| g.labels[*l].clone()).collect::<Vec<_>>(), "failed_step": i,
                                          "op": path.get(i).map(|(l, _)| g.labels[*l]["op"]["name"].clone()), "what": e}));
                        }
                        return;
                    }
                    if path.len() >= depth {
                        return;
                    }
                    let s = path.last().unwrap().1;
                    for &(l, t) in &g.edges[s] {
                        if wl[l] {
                            path.push((l, t));
                            dfs(g, wl, path, depth, paths, steps, fails, serial);
                            path.pop();
                        }
                    }
                }
                dfs(&g, &walk_label, &mut path, depth, &paths, &steps, &fails, &serial);
            });
        }
    });
    failures.extend(fails.into_inner().unwrap());
    let sample: Vec<Value> = {
        let far = (0..g.obs.len()).filter(|s| seen[*s]).max_by_key(|s| path_to(*s).len()).unwrap();
        path_to(far).iter().map(|(l, _)| g.labels[*l].clone()).collect()
    };
    util::write_json(&a.req("out"), &json!({
        "states": g.obs.len(), "edges": n_edges, "labels": g.labels.len(), "edge_replays": edge_runs,
        "depth": depth, "paths": paths.load(Ordering::Relaxed), "op_executions": steps.load(Ordering::Relaxed),
        "sample_path": sample, "failures": failures,
    }));
    0
}

// ---------------------------------------------------------------------------
pub fn hist(a: &Args) -> i32 {
    let seed = a.u64("seed", 1);
    let runs = a.usize("runs", 100);
    let nthreads = a.usize("threads", 1).clamp(1, 4);
    let ops_per_thread = a.usize("ops", 4);
    let npeers = a.u64("peers", 3).clamp(1, 6);
    let nkeys = a.usize("keys", 3).clamp(1, 6);
    let keys: Vec<String> = ["a", "b", "c", "d", "e", "f"][..nkeys].iter().map(|s| s.to_string()).collect();
    let peers: Vec<u64> = (1..=npeers).collect();
    let mut out = util::NdJson::create(&a.req("out"));
    let mut rng = StdRng::seed_from_u64(seed);
    let serial = Arc::new(AtomicU64::new(1));
    let mut distinct = std::collections::HashSet::new();
    for run in 0..runs {
        let w = Arc::new(World::new(&peers));
        // per-thread logs ordered by one global atomic counter: taken just before the call starts
        // (inv) and just after it returned (res), so overlapping calls really overlap in the log
        let log: Arc<Mutex<Vec<(u64, Value)>>> = Arc::new(Mutex::new(vec![(0, json!({"ev": "reset", "run": run}))]));
        let clock = Arc::new(AtomicU64::new(1));
        // a sequential prefix so concurrent phases start from interesting states
        // insert of a present peer is outside the API contract: thread t only inserts/removes "its" peers,
        // and only inserts a peer it knows to be absent
        let mut progs: Vec<Vec<(String, u64, String)>> = vec![];
        for t in 0..nthreads {
            let mine: Vec<u64> = peers.iter().copied().filter(|p| (*p as usize) % nthreads == t).collect();
            let mut mine_present: std::collections::HashSet<u64> = Default::default();
            let mut prog = vec![];
            for _ in 0..ops_per_thread {
                let p_any = peers[rng.gen_range(0..peers.len())];
                let k = keys[rng.gen_range(0..keys.len())].clone();
                let c = rng.gen_range(0..100);
                let op = if c < 22 && !mine.is_empty() {
                    let p = mine[rng.gen_range(0..mine.len())];
                    if mine_present.contains(&p) {
                        mine_present.remove(&p);
                        ("remove".to_string(), p, String::new())
                    } else {
                        mine_present.insert(p);
                        ("insert".to_string(), p, String::new())
                    }
                } else if c < 30 && !mine.is_empty() {
                    let p = mine[rng.gen_range(0..mine.len())];
                    mine_present.remove(&p);
                    ("remove".to_string(), p, String::new())
                } else if c < 35 {
                    ("close_sink".to_string(), p_any, String::new())
                } else if c < 62 {
                    ("alias".to_string(), p_any, k)
                } else if c < 72 {
                    ("get_by".to_string(), 0, k)
                } else if c < 78 {
                    ("aliases_for".to_string(), p_any, String::new())
                } else if c < 83 {
                    ("key_for".to_string(), p_any, String::new())
                } else if c < 88 {
                    ("get".to_string(), p_any, String::new())
                } else if c < 92 {
                    ("len".to_string(), 0, String::new())
                } else {
                    ("broadcast".to_string(), 0, String::new())
                };
                prog.push(op);
            }
            progs.push(prog);
        }
        distinct.insert(format!("{progs:?}"));
        let barrier = Arc::new(std::sync::Barrier::new(nthreads));
        let mut hs = vec![];
        for (t, prog) in progs.into_iter().enumerate() {
            let (w, log, serial, barrier, clock) = (w.clone(), log.clone(), serial.clone(), barrier.clone(), clock.clone());
            let mut r = StdRng::seed_from_u64(seed ^ ((run as u64) << 8) ^ t as u64);
            hs.push(std::thread::spawn(move || {
                let mut local: Vec<(u64, Value)> = vec![];
                barrier.wait();
                for (name, p, k) in prog {
                    if r.gen_bool(0.2) {
                        std::thread::yield_now();
                    }
                    let s = serial.fetch_add(1, Ordering::Relaxed);
                    let t_inv = clock.fetch_add(1, Ordering::SeqCst);
                    let res = std::panic::catch_unwind(std::panic::AssertUnwindSafe(|| w.exec(&name, p, &k, s)));
                    let t_res = clock.fetch_add(1, Ordering::SeqCst);
                    local.push((t_inv, json!({"ev": "inv", "t": t + 1, "op": {"name": name, "p": p, "k": k}})));
                    match res {
                        Ok((ret, deliv, bad)) => {
                            let mut e = json!({"ev": "res", "t": t + 1, "ret": ret});
                            if name == "broadcast" {
                                e["deliv"] = deliv;
                                e["bad"] = json!(bad);
                            }
                            local.push((t_res, e));
                        }
                        Err(_) => {
                            local.push((t_res, json!({"ev": "panic", "t": t + 1, "op": name})));
                            break;
                        }
                    }
                }
                log.lock().unwrap().extend(local);
            }));
        }
        for h in hs {
            h.join().unwrap();
        }
        let mut all = std::mem::take(&mut *log.lock().unwrap());
        all.sort_by_key(|(s, _)| *s);
        for (_, e) in all.iter() {
            out.push(e);
        }
    }
    // scripted re-entrant histories: while a broadcast is delivering to its first peer, that peer's sink inserts a new peer
    // and removes the other original ones (logged as thread 2's operations, nested inside thread 1's broadcast).  Whatever
    // moment the broadcast is taken to have happened at, its result must be the membership of ONE moment.
    let mut reentrant = 0u64;
    if nthreads >= 2 && npeers >= 3 {
        for variant in 0..a.usize("reentrant", 18) {
            let w = Arc::new(World::new(&peers));
            let clock = Arc::new(AtomicU64::new(1));
            let log: Arc<Mutex<Vec<(u64, Value)>>> = Arc::new(Mutex::new(vec![(0, json!({"ev": "reset", "run": runs + variant}))]));
            let logged = |w: &Arc<World>, log: &Arc<Mutex<Vec<(u64, Value)>>>, clock: &Arc<AtomicU64>, serial: &Arc<AtomicU64>, t: u64, name: &str, p: u64, k: &str| {
                let s = serial.fetch_add(1, Ordering::Relaxed);
                let t_inv = clock.fetch_add(1, Ordering::SeqCst);
                let logged_name = if name.starts_with("broadcast") { "broadcast" } else { name };
                log.lock().unwrap().push((t_inv, json!({"ev": "inv", "t": t, "op": {"name": logged_name, "p": p, "k": k}})));
                let (ret, deliv, bad) = w.exec(name, p, k, s);
                let t_res = clock.fetch_add(1, Ordering::SeqCst);
                let mut e = json!({"ev": "res", "t": t, "ret": ret});
                if logged_name == "broadcast" { e["deliv"] = deliv; e["bad"] = json!(bad); }
                log.lock().unwrap().push((t_res, e));
            };
            // originals: two of the three peers, the third arrives from inside the broadcast
            let orig: Vec<u64> = match variant % 3 { 0 => vec![1, 2], 1 => vec![2, 3], _ => vec![1, 3] };
            let newcomer = (1..=3u64).find(|p| !orig.contains(p)).unwrap();
            for p in &orig { logged(&w, &log, &clock, &serial, 1, "insert", *p, ""); }
            if variant % 6 >= 3 { logged(&w, &log, &clock, &serial, 1, "alias", orig[0], "a"); }
            let fired = Arc::new(std::sync::atomic::AtomicBool::new(false));
            let mode = variant / 6; // 0: insert + removes from inside the first delivery; 1: a NESTED broadcast from inside it; 2: an insert from inside the value's serialization
            if mode == 2 {
                let (w2, log2, clock2, serial2) = (w.clone(), log.clone(), clock.clone(), serial.clone());
                *w.ser_hook.lock().unwrap() = Some(Box::new(move || { logged(&w2, &log2, &clock2, &serial2, 2, "insert", newcomer, ""); }));
            } else {
                for p in &orig {
                    let (w2, log2, clock2, serial2, fired2, me, orig2) = (w.clone(), log.clone(), clock.clone(), serial.clone(), fired.clone(), *p, orig.clone());
                    *w.sinks[p].on_send.lock().unwrap() = Some(Box::new(move || {
                        if fired2.swap(true, Ordering::SeqCst) { return; }
                        if mode == 1 {
                            // the same kind of broadcast, another body, on the same thread, while the outer one is fanning out
                            logged(&w2, &log2, &clock2, &serial2, 2, if variant % 2 == 0 { "broadcast:3" } else { "broadcast:2" }, 0, "");
                            return;
                        }
                        logged(&w2, &log2, &clock2, &serial2, 2, "insert", newcomer, "");
                        for q in orig2.iter().filter(|q| **q != me) { logged(&w2, &log2, &clock2, &serial2, 2, "remove", *q, ""); }
                    }));
                }
            }
            logged(&w, &log, &clock, &serial, 1, match mode { 0 => "broadcast", 1 => if variant % 2 == 0 { "broadcast:3" } else { "broadcast:2" }, _ => "broadcast:8" }, 0, "");
            for p in &orig { *w.sinks[p].on_send.lock().unwrap() = None; }
            logged(&w, &log, &clock, &serial, 1, "len", 0, "");
            logged(&w, &log, &clock, &serial, 1, "broadcast", 0, "");
            let mut all = std::mem::take(&mut *log.lock().unwrap());
            all.sort_by_key(|(s, _)| *s);
            for (_, e) in all.iter() { out.push(e); }
            reentrant += 1;
        }
    }
    let lines = out.lines;
    out.finish();
    util::write_json(&a.str("summary", "/dev/null"), &json!({"runs": runs, "events": lines, "distinct_programmes": distinct.len(), "reentrant_histories": reentrant}));
    0
}
