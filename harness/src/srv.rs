//! C03 engine: pipelined request sequences as raw bytes against the four dispatch paths
//! (blocking TCP Server, AsyncServer, WebSocketServer inline routes, WebSocketServer off-reader
//! routes), recorded for spec/Trace_ServerConn.tla.
//!
//! Events: reset(transport, seq) ; req(i, id, notify, class, query) ; invoked(tag) ;
//!         resp(id, ec, qfmt, bfmt, query, body) ; end(idle)

use crate::util::{self, Args};
use rand::rngs::StdRng;
use rand::{Rng, SeedableRng};
use repe::server::HandlerErased;
use repe::{AsyncServer, ErrorCode, Message, Registry, RepeError, RepeStruct, Router, Server, StructError, WebSocketServer};
use serde_json::{json, Value};
use std::io::{Read, Write};
use std::net::TcpStream;
use std::sync::atomic::{AtomicU64, Ordering};
use std::sync::{Arc, Mutex};
use std::time::Duration;
use tokio_tungstenite::tungstenite;

pub struct Log {
    pub seq: AtomicU64,
    pub ev: Mutex<Vec<(u64, Value)>>,
}
impl Log {
    pub fn new() -> Arc<Log> {
        Arc::new(Log { seq: AtomicU64::new(0), ev: Mutex::new(vec![]) })
    }
    pub fn push(&self, v: Value) {
        let mut g = self.ev.lock().unwrap();
        let s = self.seq.fetch_add(1, Ordering::SeqCst);
        g.push((s, v));
    }
    pub fn drain_sorted(&self) -> Vec<Value> {
        let mut e = std::mem::take(&mut *self.ev.lock().unwrap());
        e.sort_by_key(|(s, _)| *s);
        e.into_iter().map(|(_, v)| v).collect()
    }
}

struct St;
impl RepeStruct for St {
    fn repe_handle(&mut self, segments: &[&str], body: Option<Value>) -> Result<Option<Value>, StructError> {
        Ok(Some(json!({"segments": segments, "body": body})))
    }
}
#[derive(serde::Deserialize, serde::Serialize)]
struct In {
    a: i64,
}
struct Custom(Arc<Log>);
impl HandlerErased for Custom {
    fn handle(&self, req: &Message) -> Result<Message, RepeError> {
        self.0.push(json!({"ev": "invoked", "tag": "custom"}));
        // its own frame: own query, own formats, a raw body
        Ok(Message::builder().id(req.header.id).query_str("/own-query").query_format_code(1).body_bytes(vec![1, 2, 3]).body_format_code(0).build())
    }
}

/// a custom handler that answers with an ERROR frame of its own making: own query, own code (a handler-chosen query
/// stays the handler's whether the frame reports success or failure)
struct CustomErr(Arc<Log>);
impl HandlerErased for CustomErr {
    fn handle(&self, req: &Message) -> Result<Message, RepeError> {
        self.0.push(json!({"ev": "invoked", "tag": "customerr"}));
        let mut m = Message::builder().id(req.header.id).query_str("/own-query").query_format_code(1).error_code(ErrorCode::ApplicationErrorBase).body_utf8("custom failure").build();
        m.header.ec = 4100;
        Ok(m)
    }
}

/// every built-in handler kind, each in an inline flavour (suffix "") and a blocking flavour (suffix "B")
pub fn build_router(log: &Arc<Log>) -> Router { build_router_mw(log, true) }
/// with_mw = false: no middleware, so that requests take the borrowing (view) dispatch path where a handler has one
pub fn build_router_mw(log: &Arc<Log>, with_mw: bool) -> Router {
    let reg = Arc::new(Registry::new());
    reg.register_value("/v", json!({"k": 1})).unwrap();
    let reg2 = Arc::new(Registry::new());
    reg2.register_value("/w", json!({"k": 2})).unwrap();
    let mk = |tag: &'static str| {
        let l = log.clone();
        move || l.push(json!({"ev": "invoked", "tag": tag}))
    };
    let (a, b, c, d, e, f, g, h, i, j) = (mk("json"), mk("jsonerr"), mk("typed"), mk("ctx"), mk("slice"), mk("sliceref"), mk("json"), mk("jsonerr"), mk("typed"), mk("ctx"));
    let k = mk("mw");
    let base = if with_mw {
        Router::new().with_middleware(move |req: &Message, next: repe::server::Next<'_>| {
            // a forwarding middleware in front of every route
            let _ = &k;
            next.run(req)
        })
    } else { Router::new() };
    base
        .with_json("/json", move |v| { a(); Ok(json!({"echo": v})) })
        .with_json("/jsonerr", move |_v| { b(); Err((ErrorCode::ApplicationErrorBase, "nope".to_string())) })
        .with_typed::<In, In, _>("/typed", move |x: In| { c(); Ok(In { a: x.a + 1 }) })
        .with_json_ctx("/ctx", move |_c, v| { d(); Ok(json!({"ctx": v})) })
        .with_typed_slice::<f64, f64, _>("/slice", move |xs: Vec<f64>| { e(); Ok(xs) })
        .with_typed_slice_ref::<f64, f64, _>("/sliceref", move |xs: &[f64]| { f(); Ok(xs.to_vec()) })
        .with_json_blocking("/jsonB", move |v| { g(); Ok(json!({"echo": v})) })
        .with_json_blocking("/jsonerrB", move |_v| { h(); Err((ErrorCode::ApplicationErrorBase, "nope".to_string())) })
        .with_typed_blocking::<In, In, _>("/typedB", move |x: In| { i(); Ok(In { a: x.a + 1 }) })
        .with_json_ctx_blocking("/ctxB", move |_c, v| { j(); Ok(json!({"ctx": v})) })
        .with_erased_handler("/custom", Arc::new(Custom(log.clone())))
        .with_erased_handler("/customerr", Arc::new(CustomErr(log.clone())))
        .with_registry("/reg", reg)
        .with_struct("/st", St)
        .0
        // later mounts whose roots merely BEGIN with an earlier mount's root (no '/' boundary): each keeps its own paths
        .with_registry("/reg2", reg2)
        .with_struct("/stx", St)
        .0
}

/// request classes: (name, path, has-blocking-flavour, query format, body format, body, version)
struct Class {
    name: &'static str,
    path: &'static str,
    blocking: bool,
    qfmt: u16,
    bfmt: u16,
    body: Vec<u8>,
    version: u8,
    raw_query: Option<Vec<u8>>,
}
fn classes() -> Vec<Class> {
    let c = |name, path, blocking, qfmt, bfmt, body: &[u8]| Class { name, path, blocking, qfmt, bfmt, body: body.to_vec(), version: 1, raw_query: None };
    let f64s = Message::builder().body_typed_slice(&[1.5f64, 2.5]).build().body;
    let i32s = Message::builder().body_typed_slice(&[1i32, 2]).build().body;
    let beve_obj = beve::to_vec(&json!({"a": 5})).unwrap();
    let mut v = vec![
        c("json_ok", "/json", true, 1, 2, br#"{"a":5}"#),
        c("json_beve_ok", "/json", true, 1, 1, &beve_obj),
        c("json_utf8_ok", "/json", true, 1, 3, br#"{"a":5}"#),
        c("json_undecodable", "/json", true, 1, 2, br#"{"a":"#),
        c("json_rawfmt", "/json", true, 1, 0, br#"{"a":5}"#),
        c("json_unknownfmt", "/json", true, 1, 77, br#"{"a":5}"#),
        c("json_emptybody", "/json", true, 1, 2, b""),
        c("handler_error", "/jsonerr", true, 1, 2, br#"{"a":5}"#),
        c("typed_ok", "/typed", true, 1, 2, br#"{"a":5}"#),
        c("typed_shape", "/typed", true, 1, 2, br#"[1,2]"#),
        c("typed_trailing", "/typed", true, 1, 2, br#"{"a":5}{"a":6}"#),
        c("typed_trailing_utf8", "/typed", true, 1, 3, br#"{"a":5} ]"#),
        c("json_trailing", "/json", true, 1, 2, br#"{"a":5} x"#),
        // a body framed as UTF-8 text that is not UTF-8 (the bad byte sits inside a JSON string): undecodable on every path
        c("json_utf8_badbyte", "/json", true, 1, 3, b"{\"a\":\"x\xffy\"}"),
        c("ctx_utf8_badbyte", "/ctx", true, 1, 3, b"{\"a\":\"x\xffy\"}"),
        c("ctx_ok", "/ctx", true, 1, 2, br#"{"a":5}"#),
        c("slice_ok", "/slice", false, 1, 1, &f64s),
        c("slice_wrongtype", "/slice", false, 1, 1, &i32s),
        c("slice_json", "/slice", false, 1, 2, br#"[1.5]"#),
        c("sliceref_ok", "/sliceref", false, 1, 1, &f64s),
        c("sliceref_wrongtype", "/sliceref", false, 1, 1, &i32s),
        c("registry_read", "/reg/v", false, 1, 2, b""),
        c("registry_missing", "/reg/none", false, 1, 2, b""),
        c("struct_read", "/st/a/b", false, 1, 2, b""),
        c("registry2_read", "/reg2/w", false, 1, 2, b""),
        c("struct2_read", "/stx/a/b", false, 1, 2, b""),
        c("mount_sibling_missing", "/regx/v", false, 1, 2, b""),
        c("struct_rawfmt", "/st/a", false, 1, 0, b"\x01\x02"),
        c("custom", "/custom", false, 1, 2, br#"{}"#),
        c("custom_err", "/customerr", false, 1, 2, br#"{}"#),
        c("unknown_path", "/nope", false, 1, 2, br#"{}"#),
        c("raw_query_format", "/json", false, 0, 2, br#"{"a":5}"#),
        c("unknown_query_format", "/json", false, 9, 2, br#"{"a":5}"#),
    ];
    for (name, ver) in [("bad_version", 2u8), ("bad_version0", 0), ("bad_version255", 255), ("bad_version3", 3)] {
        let mut bad = c(name, "/json", false, 1, 2, br#"{"a":5}"#);
        bad.version = ver;
        v.push(bad);
    }
    let mut nonutf8 = c("non_utf8_query", "/json", false, 1, 2, br#"{"a":5}"#);
    nonutf8.raw_query = Some(vec![b'/', 0xFF, 0xFE, b'x']);
    v.push(nonutf8);
    v
}

fn frame_for(cl: &Class, flavour_blocking: bool, id: u64, notify: bool) -> (Vec<u8>, Vec<u8>) {
    let path = if flavour_blocking && cl.blocking { format!("{}B", cl.path) } else { cl.path.to_string() };
    let query = cl.raw_query.clone().unwrap_or_else(|| path.into_bytes());
    let mut m = Message::builder().id(id).notify(notify).query_bytes(query.clone()).query_format_code(cl.qfmt).body_bytes(cl.body.clone()).body_format_code(cl.bfmt).build();
    m.header.version = cl.version;
    (m.to_vec(), query)
}

fn parse_resp(frame: &[u8]) -> Value {
    let h = &frame[..48];
    let q = u64::from_le_bytes(h[24..32].try_into().unwrap()) as usize;
    let b = u64::from_le_bytes(h[32..40].try_into().unwrap()) as usize;
    let ec = u32::from_le_bytes(h[44..48].try_into().unwrap());
    // an error response's body is a human-readable message: not part of what transports must agree on
    // (a very large body is summarised: length and a checksum)
    let body = if ec != 0 { "-".to_string() } else if b > 65536 { format!("len:{b}:sum:{}", frame[48 + q..48 + q + b].iter().fold(0u64, |a, x| a.wrapping_mul(31).wrapping_add(*x as u64))) } else { util::hex(&frame[48 + q..48 + q + b]) };
    json!({"ev": "resp", "id": u64::from_le_bytes(h[16..24].try_into().unwrap()), "ec": ec,
           "notify": h[11], "qfmt": u16::from_le_bytes(h[40..42].try_into().unwrap()), "bfmt": u16::from_le_bytes(h[42..44].try_into().unwrap()),
           "query": util::hex(&frame[48..48 + q]), "body": body})
}

fn run_tcp(addr: std::net::SocketAddr, frames: &[Vec<u8>], expect: usize, log: &Arc<Log>) -> bool {
    let mut s = TcpStream::connect(addr).unwrap();
    s.set_nodelay(true).ok();
    let all: Vec<u8> = frames.concat();
    let mut w = s.try_clone().unwrap();
    let wt = std::thread::spawn(move || {
        let _ = w.write_all(&all);
    });
    s.set_read_timeout(Some(Duration::from_millis(1500))).ok();
    let mut got = 0;
    let mut idle = false;
    loop {
        if got >= expect {
            // linger briefly: a spurious extra response (e.g. to a notify) must be seen
            s.set_read_timeout(Some(Duration::from_millis(60))).ok();
        }
        let mut h = [0u8; 48];
        match s.read_exact(&mut h) {
            Ok(()) => {}
            Err(_) => {
                idle = got < expect;
                break;
            }
        }
        let total = u64::from_le_bytes(h[0..8].try_into().unwrap()) as usize;
        let (q, b) = (u64::from_le_bytes(h[24..32].try_into().unwrap()), u64::from_le_bytes(h[32..40].try_into().unwrap()));
        // a header that does not frame itself (a server that put a torn or mis-measured frame on the wire): the stream
        // cannot be re-synchronised; record it and stop reading, the missing responses are then the verdict
        if h[8] != 0x07 || h[9] != 0x15 || 48u64.checked_add(q).and_then(|x| x.checked_add(b)) != Some(total as u64) || total > (256 << 20) {
            log.push(json!({"ev": "garbled", "declared": total as u64, "query_length": q, "body_length": b}));
            idle = true;
            break;
        }
        let mut rest = vec![0u8; total.saturating_sub(48)];
        if s.read_exact(&mut rest).is_err() {
            idle = true;
            break;
        }
        log.push(parse_resp(&[h.to_vec(), rest].concat()));
        got += 1;
    }
    let _ = wt.join();
    idle
}

fn run_ws(addr: std::net::SocketAddr, frames: &[Vec<u8>], expect: usize, log: &Arc<Log>) -> bool {
    run_ws_stalled(addr, frames, expect, log, 0)
}
/// as run_ws, but the client does not start reading until `stall_ms` after its last request (backs the writer up)
fn run_ws_stalled(addr: std::net::SocketAddr, frames: &[Vec<u8>], expect: usize, log: &Arc<Log>, stall_ms: u64) -> bool {
    let s = TcpStream::connect(addr).unwrap();
    s.set_nodelay(true).ok();
    let cfg = tungstenite::protocol::WebSocketConfig { max_frame_size: None, max_message_size: None, ..Default::default() };
    let (mut ws, _) = tungstenite::client::client_with_config(format!("ws://{addr}/ws"), s, Some(cfg)).expect("ws client handshake");
    for f in frames {
        ws.send(tungstenite::Message::Binary(f.clone().into())).unwrap();
    }
    if stall_ms > 0 { std::thread::sleep(Duration::from_millis(stall_ms)); }
    ws.get_ref().set_read_timeout(Some(Duration::from_millis(1500))).ok();
    let mut got = 0;
    let mut idle = false;
    loop {
        if got >= expect {
            ws.get_ref().set_read_timeout(Some(Duration::from_millis(60))).ok();
        }
        match ws.read() {
            Ok(tungstenite::Message::Binary(b)) => {
                log.push(parse_resp(&b));
                got += 1;
            }
            Ok(_) => continue,
            Err(_) => {
                idle = got < expect;
                break;
            }
        }
    }
    let _ = ws.close(None);
    idle
}

/// C02 on the wire: a server with a read timeout gets junk bytes, a stall longer than the timeout, then a valid frame.
/// The 48 bytes the server has to judge start with the junk: nothing may be dispatched.
pub fn c02_timeouts(a: &Args) -> i32 {
    let rt = tokio::runtime::Builder::new_multi_thread().worker_threads(2).enable_all().build().unwrap();
    let mut cases = vec![];
    for kind in ["server", "async_server"] {
        for junk in [1usize, 10, 47] {
            let hits = Arc::new(AtomicU64::new(0));
            let h2 = hits.clone();
            let router = Router::new().with_json("/json", move |v| { h2.fetch_add(1, Ordering::SeqCst); Ok(v) });
            let addr = if kind == "server" {
                let l = std::net::TcpListener::bind("127.0.0.1:0").unwrap();
                let addr = l.local_addr().unwrap();
                std::thread::spawn(move || { let _ = Server::new(router).read_timeout(Some(Duration::from_millis(100))).serve(l); });
                addr
            } else {
                let l = rt.block_on(AsyncServer::listen("127.0.0.1:0")).unwrap();
                let addr = l.local_addr().unwrap();
                rt.spawn(async move { let _ = AsyncServer::new(router).read_timeout(Some(Duration::from_millis(100))).serve(l).await; });
                addr
            };
            std::thread::sleep(Duration::from_millis(20));
            let mut s = TcpStream::connect(addr).unwrap();
            s.set_nodelay(true).ok();
            let _ = s.write_all(&vec![0xEEu8; junk]);
            std::thread::sleep(Duration::from_millis(450));
            let mut m = Message::builder().id(77).query_str("/json").body_json(&json!({"a": 5})).unwrap().build();
            m.header.query_format = 1;
            let wrote = s.write_all(&m.to_vec()).is_ok();
            s.set_read_timeout(Some(Duration::from_millis(500))).ok();
            let mut buf = vec![0u8; 4096];
            let got = s.read(&mut buf).unwrap_or(0);
            std::thread::sleep(Duration::from_millis(50));
            cases.push(json!({"server": kind, "junk": junk, "write_ok": wrote, "response_bytes": got, "dispatched": hits.load(Ordering::SeqCst)}));
        }
    }
    util::write_json(&a.req("out"), &json!({"cases": cases}));
    rt.shutdown_timeout(Duration::from_secs(1));
    0
}

/// C02 on the wire: a self-consistent header that declares a frame no machine can hold (2^62, 2^63, nearly 2^64 bytes)
/// arrives at each TCP server, with and without a read timeout configured (separate read paths).  The server must
/// neither abort the process nor panic; it answers or drops that connection, and keeps serving others.
/// Run in a process of its own: an abort of the code under test ends THIS process, and the caller reports that.
pub fn c02_huge(a: &Args) -> i32 {
    use std::sync::atomic::AtomicU64 as A64;
    static PANICS: A64 = A64::new(0);
    std::panic::set_hook(Box::new(|_| { PANICS.fetch_add(1, Ordering::SeqCst); }));
    let rt = tokio::runtime::Builder::new_multi_thread().worker_threads(2).enable_all().build().unwrap();
    let mut cases = vec![];
    let progress = a.str("progress", "");
    for kind in ["server", "server_read_timeout", "async_server", "async_server_read_timeout"] {
        for b in [1u64 << 62, 1u64 << 63, u64::MAX - 48] {
            if !progress.is_empty() { let _ = std::fs::write(&progress, format!("{kind} body_length={b}")); }
            let router = Router::new().with_json("/json", move |v| Ok(v));
            let to = if kind.ends_with("read_timeout") { Some(Duration::from_millis(150)) } else { None };
            let addr = if kind.starts_with("server") {
                let l = std::net::TcpListener::bind("127.0.0.1:0").unwrap();
                let addr = l.local_addr().unwrap();
                std::thread::spawn(move || { let _ = Server::new(router).read_timeout(to).serve(l); });
                addr
            } else {
                let l = rt.block_on(AsyncServer::listen("127.0.0.1:0")).unwrap();
                let addr = l.local_addr().unwrap();
                rt.spawn(async move { let _ = AsyncServer::new(router).read_timeout(to).serve(l).await; });
                addr
            };
            std::thread::sleep(Duration::from_millis(20));
            let before = PANICS.load(Ordering::SeqCst);
            let mut s = TcpStream::connect(addr).unwrap();
            s.set_nodelay(true).ok();
            let mut m = Message::builder().id(5).query_str("").build();
            m.header.query_format = 1;
            let mut h = m.to_vec();
            h[0..8].copy_from_slice(&48u64.wrapping_add(b).to_le_bytes());
            h[32..40].copy_from_slice(&b.to_le_bytes());
            let _ = s.write_all(&h[..48]);
            let _ = s.write_all(&[0u8; 64]);
            s.set_read_timeout(Some(Duration::from_millis(700))).ok();
            let mut buf = vec![0u8; 4096];
            let got = s.read(&mut buf).unwrap_or(0);
            // the server still serves a new connection
            let mut s2 = TcpStream::connect(addr).unwrap();
            let mut ok = Message::builder().id(77).query_str("/json").body_json(&json!({"a": 5})).unwrap().build();
            ok.header.query_format = 1;
            let _ = s2.write_all(&ok.to_vec());
            s2.set_read_timeout(Some(Duration::from_secs(3))).ok();
            let alive = repe::read_message(&mut s2).map(|r| r.header.id == 77 && r.header.ec == 0).unwrap_or(false);
            cases.push(json!({"server": kind, "body_length": b.to_string(), "reply_bytes": got, "alive": alive, "panics": PANICS.load(Ordering::SeqCst) - before}));
        }
    }
    let _ = std::panic::take_hook();
    util::write_json(&a.req("out"), &json!({"cases": cases}));
    rt.shutdown_timeout(Duration::from_secs(1));
    0
}

pub fn c03(a: &Args) -> i32 {
    let seed = a.u64("seed", 1);
    let nseq = a.usize("sequences", 12);
    let len = a.usize("len", 64);
    let mut rng = StdRng::seed_from_u64(seed);
    let log = Log::new();
    let rt = tokio::runtime::Builder::new_multi_thread().worker_threads(4).enable_all().build().unwrap();
    // the three servers, one router definition
    let l1 = std::net::TcpListener::bind("127.0.0.1:0").unwrap();
    let tcp_addr = l1.local_addr().unwrap();
    let r1 = build_router(&log);
    std::thread::spawn(move || {
        let _ = Server::new(r1).serve(l1);
    });
    let r2 = build_router_mw(&log, false);
    let l2 = rt.block_on(AsyncServer::listen("127.0.0.1:0")).unwrap();
    let async_addr = l2.local_addr().unwrap();
    rt.spawn(async move {
        let _ = AsyncServer::new(r2).serve(l2).await;
    });
    // the same two TCP servers with their timeouts configured (separate code paths for reading and writing)
    let l1t = std::net::TcpListener::bind("127.0.0.1:0").unwrap();
    let tcp_t_addr = l1t.local_addr().unwrap();
    let r1t = build_router_mw(&log, false);
    std::thread::spawn(move || {
        let _ = Server::new(r1t).read_timeout(Some(Duration::from_secs(20))).write_timeout(Some(Duration::from_secs(20))).serve(l1t);
    });
    let r2t = build_router(&log);
    let l2t = rt.block_on(AsyncServer::listen("127.0.0.1:0")).unwrap();
    let async_t_addr = l2t.local_addr().unwrap();
    rt.spawn(async move {
        let _ = AsyncServer::new(r2t).read_timeout(Some(Duration::from_secs(20))).write_timeout(Some(Duration::from_secs(20))).serve(l2t).await;
    });
    let r3 = build_router(&log);
    let l3 = rt.block_on(WebSocketServer::listen("127.0.0.1:0")).unwrap();
    let ws_addr = l3.local_addr().unwrap();
    rt.spawn(async move {
        let _ = WebSocketServer::new(r3).with_offreader_limit(0).serve_listener(l3, "/ws").await;
    });
    std::thread::sleep(Duration::from_millis(50));

    let cls = classes();
    let mut out = util::NdJson::create(&a.req("out"));
    let mut next_id = 1u64;
    // cover every ordered pair of (class, notify) at least once across the sequences, then random
    let mut pool: Vec<(usize, bool)> = vec![];
    for i in 0..cls.len() {
        for n in [false, true] {
            pool.push((i, n));
        }
    }
    let mut pair_queue: Vec<((usize, bool), (usize, bool))> = vec![];
    for x in &pool {
        for y in &pool {
            pair_queue.push((*x, *y));
        }
    }
    use rand::seq::SliceRandom;
    pair_queue.shuffle(&mut rng);
    for s in 0..nseq {
        let mut seq: Vec<(usize, bool)> = vec![];
        while seq.len() + 1 < len {
            match pair_queue.pop() {
                Some((x, y)) if s * 3 < nseq * 2 => {
                    seq.push(x);
                    seq.push(y);
                }
                _ => seq.push(pool[rng.gen_range(0..pool.len())]),
            }
        }
        let ids: Vec<u64> = (0..seq.len()).map(|_| { next_id += rng.gen_range(1..1000); next_id }).collect();
        for (transport, blocking) in [("tcp", false), ("async", false), ("tcp_timeouts", false), ("async_timeouts", false), ("ws_inline", false), ("ws_offreader", true)] {
            let _ = log.drain_sorted();
            log.push(json!({"ev": "reset", "transport": transport, "seq": s, "n": seq.len()}));
            let mut frames = vec![];
            for (i, (ci, notify)) in seq.iter().enumerate() {
                let (f, q) = frame_for(&cls[*ci], blocking, ids[i], *notify);
                log.push(json!({"ev": "req", "i": i + 1, "id": ids[i], "notify": *notify, "class": cls[*ci].name, "query": util::hex(&q),
                                "offreader": blocking && cls[*ci].blocking}));
                frames.push(f);
            }
            let expect = seq.iter().filter(|(_, n)| !n).count();
            let idle = match transport {
                "tcp" => run_tcp(tcp_addr, &frames, expect, &log),
                "async" => run_tcp(async_addr, &frames, expect, &log),
                "tcp_timeouts" => run_tcp(tcp_t_addr, &frames, expect, &log),
                "async_timeouts" => run_tcp(async_t_addr, &frames, expect, &log),
                _ => run_ws(ws_addr, &frames, expect, &log),
            };
            // notifies have no response to wait for: give their handlers a moment before closing the books
            std::thread::sleep(Duration::from_millis(if transport == "ws_offreader" { 80 } else { 30 }));
            log.push(json!({"ev": "end", "idle": idle}));
            for e in log.drain_sorted() {
                out.push(&e);
            }
        }
    }
    // ---- a backed-up writer: the outbound queue holds ONE message, the peer does not read while twelve off-reader
    // handlers produce 1 MiB responses; every one of them must still arrive, once
    {
        let rq = build_router(&log);
        let lq = rt.block_on(WebSocketServer::listen("127.0.0.1:0")).unwrap();
        let q_addr = lq.local_addr().unwrap();
        rt.spawn(async move {
            let _ = WebSocketServer::new(rq).with_limits(repe::WebSocketLimits::unlimited()).with_offreader_limit(0).with_outbound_capacity(1).serve_listener(lq, "/ws").await;
        });
        std::thread::sleep(Duration::from_millis(30));
        let big = Class { name: "json_ok", path: "/json", blocking: true, qfmt: 1, bfmt: 2, body: serde_json::to_vec(&json!({"a": 5, "pad": "p".repeat(1 << 20)})).unwrap(), version: 1, raw_query: None };
        for rep in 0..2usize {
            let _ = log.drain_sorted();
            log.push(json!({"ev": "reset", "transport": "ws_offreader", "seq": 100000 + rep, "n": 12}));
            let mut frames = vec![];
            for i in 0..12usize {
                next_id += 7;
                let (f, q) = frame_for(&big, true, next_id, false);
                log.push(json!({"ev": "req", "i": i + 1, "id": next_id, "notify": false, "class": big.name, "query": util::hex(&q), "offreader": true}));
                frames.push(f);
            }
            let idle = run_ws_stalled(q_addr, &frames, 12, &log, 400);
            std::thread::sleep(Duration::from_millis(80));
            log.push(json!({"ev": "end", "idle": idle}));
            for e in log.drain_sorted() { out.push(&e); }
        }
    }
    let lines = out.lines;
    out.finish();
    util::write_json(&a.str("summary", "/dev/null"), &json!({"sequences": nseq, "len": len, "events": lines, "classes": cls.len()}));
    0
}
