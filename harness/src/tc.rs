//! C11 / C13 engine: TransferControl (src/stream.rs) against spec/TransferControl.tla.
//!
//! `tc-walk`   : spec -> impl. Loads the labelled state graph TLC printed for
//!               MC_TransferControl (EDGE lines) and (a) replays every edge from a
//!               shortest path to its source, (b) walks every label path up to
//!               `--depth` from the initial state, on a fresh real TransferControl
//!               each time, comparing each call's result and the observable
//!               projection (offsets, cancel reason, peer, replay ring) with the
//!               specification's state after every step.
//! `tc-random` : impl -> spec. Random 64-bit histories on the real object, logged as
//!               ND-JSON (numbers as 8-byte LE tuples) for Trace_TransferControl.

use crate::util::{self, Args};
use rand::rngs::StdRng;
use rand::{Rng, SeedableRng};
use repe::stream::{CreditError, ReconnectOutcome, ResumeRejection, TransferControl};
use repe::{NotifyBody, PeerHandle, PeerId, PeerSendError, PeerSink};
use serde_json::{json, Value};
use std::collections::HashMap;
use std::sync::atomic::{AtomicU64, Ordering};
use std::sync::Arc;
use std::time::{Duration, Instant};

struct NullSink;
impl PeerSink for NullSink {
    fn send_notify(&self, _m: &str, _b: NotifyBody) -> Result<(), PeerSendError> {
        Ok(())
    }
}
fn peer(p: u64) -> PeerHandle {
    PeerHandle::new(PeerId(p), Arc::new(NullSink))
}

#[derive(Clone, Debug, PartialEq)]
struct Chunk {
    off: u64,
    dlen: u64,
    wlen: u64,
    last: bool,
    tag: String,
}

#[derive(Clone, Debug)]
enum Op {
    Push { off: u64, dlen: u64, wlen: u64, last: bool, tag: String },
    Sent(u64),
    Ack(u32, u64),
    Cancel(String),
    Advance(u32),
    Resume { p: u64, f: u32, o: u64, ret: String, replay: Vec<Chunk> },
    Credit { len: u64, ret: (String, String) },
    Reconnect { kind: String, reason: String, off: u64 },
    SetPeer(u64),
    ReplayFrom { o: u64, replay: Vec<Chunk> },
}

#[derive(Clone, Debug, PartialEq)]
struct Proj {
    sent: u64,
    acked: u64,
    cancelled: Option<String>,
    peer: Option<u64>,
    ring: Vec<Chunk>,
}

fn chunk_of(v: &Value) -> Chunk {
    // [off, dlen, wlen, last, tag] (state arrays) or {off,dlen,wlen,last,tag} (labels)
    if let Some(a) = v.as_array() {
        Chunk {
            off: a[0].as_u64().unwrap(),
            dlen: a[1].as_u64().unwrap(),
            wlen: a[2].as_u64().unwrap(),
            last: a[3].as_bool().unwrap(),
            tag: a[4].as_str().unwrap().to_string(),
        }
    } else {
        Chunk {
            off: v["off"].as_u64().unwrap(),
            dlen: v["dlen"].as_u64().unwrap(),
            wlen: v["wlen"].as_u64().unwrap(),
            last: v["last"].as_bool().unwrap(),
            tag: v["tag"].as_str().unwrap().to_string(),
        }
    }
}

fn op_of(l: &Value) -> Op {
    let u = |k: &str| l[k].as_u64().unwrap_or_else(|| panic!("label field {k} in {l}"));
    match l["op"].as_str().unwrap() {
        "push" => Op::Push {
            off: u("off"),
            dlen: u("dlen"),
            wlen: u("wlen"),
            last: l["lastflag"].as_bool().unwrap(),
            tag: l["tag"].as_str().unwrap().to_string(),
        },
        "sent" => Op::Sent(u("o")),
        "ack" => Op::Ack(u("f") as u32, u("o")),
        "cancel" => Op::Cancel(l["r"].as_str().unwrap().to_string()),
        "advance" => Op::Advance(u("f") as u32),
        "resume" => Op::Resume {
            p: u("p"),
            f: u("f") as u32,
            o: u("o"),
            ret: l["ret"].as_str().unwrap().to_string(),
            replay: l["replay"].as_array().unwrap().iter().map(chunk_of).collect(),
        },
        "credit" => Op::Credit {
            len: u("len"),
            ret: (
                l["ret"][0].as_str().unwrap().to_string(),
                l["ret"][1].as_str().unwrap().to_string(),
            ),
        },
        "reconnect" => Op::Reconnect {
            kind: l["ret"]["kind"].as_str().unwrap().to_string(),
            reason: l["ret"]["reason"].as_str().unwrap().to_string(),
            off: l["ret"]["off"].as_u64().unwrap(),
        },
        "set_peer" => Op::SetPeer(u("p")),
        "replay_from" => Op::ReplayFrom {
            o: u("o"),
            replay: l["replay"].as_array().unwrap().iter().map(chunk_of).collect(),
        },
        other => panic!("unknown op {other}"),
    }
}

/// state array: [window, cap, sent, acked, file, cancelled, pending, peer, ring]
fn proj_of(s: &Value) -> Proj {
    let a = s.as_array().unwrap();
    Proj {
        sent: a[2].as_u64().unwrap(),
        acked: a[3].as_u64().unwrap(),
        cancelled: a[5].as_array().unwrap().first().map(|v| v.as_str().unwrap().to_string()),
        peer: a[7].as_array().unwrap().first().map(|v| v.as_u64().unwrap()),
        ring: a[8].as_array().unwrap().iter().map(chunk_of).collect(),
    }
}

fn body_for(tag: &str, wlen: u64) -> Vec<u8> {
    // the body's content is the tag repeated; the observed tag is read back from content
    let t = tag.as_bytes();
    (0..wlen as usize).map(|i| t[i % t.len().max(1)]).collect()
}
fn tag_of_body(b: &[u8], taglen: usize) -> String {
    String::from_utf8_lossy(&b[..taglen.min(b.len())]).to_string()
}

fn observe_chunks(tc: &TransferControl, from: u64, taglen: usize) -> Vec<Chunk> {
    tc.replay_chunks_from(from)
        .iter()
        .map(|c| Chunk {
            off: c.offset,
            dlen: c.data_len,
            wlen: c.body_bytes.len() as u64,
            last: c.last,
            tag: tag_of_body(&c.body_bytes, taglen),
        })
        .collect()
}

fn observe(tc: &TransferControl, taglen: usize) -> Proj {
    let (sent, acked) = tc.offsets();
    let reason = tc.cancel_reason();
    assert_eq!(reason.is_some(), tc.is_cancelled());
    Proj {
        sent,
        acked,
        cancelled: reason,
        peer: tc.peer().map(|p| p.peer_id().0),
        ring: observe_chunks(tc, 0, taglen),
    }
}

/// Execute one labelled operation on the real object; Err(description) when the
/// call's own result differs from the label's.
fn exec(tc: &TransferControl, op: &Op, taglen: usize) -> Result<(), (&'static str, String)> {
    match op {
        Op::Push { off, dlen, wlen, last, tag } => {
            tc.push_replay(*off, *dlen, *last, body_for(tag, *wlen));
            Ok(())
        }
        Op::Sent(o) => {
            tc.record_sent(*o);
            Ok(())
        }
        Op::Ack(f, o) => {
            tc.record_ack(*f, *o);
            Ok(())
        }
        Op::Cancel(r) => {
            tc.cancel(r.clone());
            Ok(())
        }
        Op::Advance(f) => {
            tc.advance_to_file(*f);
            Ok(())
        }
        Op::SetPeer(p) => {
            tc.set_peer(peer(*p));
            Ok(())
        }
        Op::Resume { p, f, o, ret, replay } => {
            let got = match tc.request_resume(peer(*p), *f, *o) {
                Ok(x) => {
                    if x != *o {
                        return Err(("ring", format!("resume returned offset {x}, requested {o}")));
                    }
                    "ok"
                }
                Err(ResumeRejection::Cancelled) => "cancelled",
                Err(ResumeRejection::WrongFileIndex { .. }) => "wrong_file",
                Err(ResumeRejection::OutOfWindow) => "out_of_window",
            };
            if got != ret {
                let class = if got == "cancelled" || ret == "cancelled" { "credit" } else { "ring" };
                return Err((class, format!("resume(f={f},o={o}) returned {got}, spec {ret}")));
            }
            if got == "ok" {
                let rp = observe_chunks(tc, *o, taglen);
                if &rp != replay {
                    return Err(("ring", format!("replay offered after accepted resume at {o}: {rp:?}, spec {replay:?}")));
                }
            }
            Ok(())
        }
        Op::Credit { len, ret } => {
            let got = match tc.wait_for_credit(*len, Instant::now()) {
                Ok(()) => ("ok".to_string(), String::new()),
                Err(CreditError::Cancelled(r)) => ("cancelled".to_string(), r),
                Err(CreditError::Timeout) => ("timeout".to_string(), String::new()),
            };
            if &got != ret {
                return Err(("credit", format!("wait_for_credit({len}) returned {got:?}, spec {ret:?}")));
            }
            Ok(())
        }
        Op::Reconnect { kind, reason, off } => {
            let got = match tc.wait_for_reconnect(Duration::ZERO) {
                ReconnectOutcome::ResumeReady(p) => ("resume".to_string(), String::new(), p.resume_at_offset),
                ReconnectOutcome::Cancelled(r) => ("cancelled".to_string(), r, 0),
                ReconnectOutcome::Timeout => ("timeout".to_string(), String::new(), 0),
            };
            if (&got.0, &got.1, got.2) != (kind, reason, *off) {
                let class = if got.0 == "cancelled" || kind == "cancelled" { "credit" } else { "ring" };
                return Err((class, format!("wait_for_reconnect returned {got:?}, spec ({kind},{reason},{off})")));
            }
            Ok(())
        }
        Op::ReplayFrom { o, replay } => {
            let rp = observe_chunks(tc, *o, taglen);
            if &rp != replay {
                return Err(("ring", format!("replay_chunks_from({o}) = {rp:?}, spec {replay:?}")));
            }
            Ok(())
        }
    }
}

struct Graph {
    init: Vec<usize>,
    states: Vec<String>, // compact JSON of each state (parsed on demand: the thorough graph has millions of states)
    projs: Vec<Proj>,
    edges: Vec<Vec<(usize, usize)>>, // (label id, to)
    labels: Vec<Value>,
    ops: Vec<Op>,
}

fn load_graph(path: &str) -> Graph {
    let mut ids: HashMap<String, usize> = HashMap::new();
    let mut g = Graph { init: vec![], states: vec![], projs: vec![], edges: vec![], labels: vec![], ops: vec![] };
    let mut lab_ids: HashMap<String, usize> = HashMap::new();
    fn sid(g: &mut Graph, ids: &mut HashMap<String, usize>, s: &Value) -> usize {
        let k = s.to_string();
        if let Some(i) = ids.get(&k) {
            return *i;
        }
        let i = g.projs.len();
        g.projs.push(proj_of(s));
        g.edges.push(vec![]);
        ids.insert(k, i);
        i
    }
    util::tlc_tagged_json_each(path, "INIT", |v| {
        let i = sid(&mut g, &mut ids, &v);
        if !g.init.contains(&i) {
            g.init.push(i);
        }
    });
    util::tlc_tagged_json_each(path, "EDGE", |v| {
        let a = v.as_array().expect("edge triple");
        let f = sid(&mut g, &mut ids, &a[0]);
        let t = sid(&mut g, &mut ids, &a[2]);
        let lk = a[1].to_string();
        let l = *lab_ids.entry(lk).or_insert_with(|| {
            g.labels.push(a[1].clone());
            g.ops.push(op_of(&a[1]));
            g.labels.len() - 1
        });
        if !g.edges[f].contains(&(l, t)) {
            g.edges[f].push((l, t));
        }
    });
    g.states = vec![String::new(); g.projs.len()];
    for (k, i) in ids { g.states[i] = k; }
    g
}

fn new_tc(state: &str) -> Arc<TransferControl> {
    let state: Value = serde_json::from_str(state).unwrap();
    let a = state.as_array().unwrap();
    TransferControl::with_replay_capacity(a[0].as_u64().unwrap(), a[1].as_u64().unwrap())
}

/// Run a label path from a fresh object; compare results at every step and the
/// projection after every step (`full`) or only after the last one.
fn run_path(g: &Graph, init: usize, path: &[(usize, usize)], full: bool) -> Result<(), (usize, &'static str, String)> {
    let r = std::panic::catch_unwind(|| {
        let tc = new_tc(&g.states[init]);
        for (i, (l, to)) in path.iter().enumerate() {
            exec(&tc, &g.ops[*l], 1).map_err(|e| (i, e.0, e.1))?;
            if full || i + 1 == path.len() {
                let got = observe(&tc, 1);
                let want = &g.projs[*to];
                if &got != want {
                    let class = if (got.sent, got.acked, &got.cancelled) != (want.sent, want.acked, &want.cancelled) { "credit" } else { "ring" };
                    return Err((i, class, format!("state after step: impl {got:?}, spec {want:?}")));
                }
            }
        }
        Ok(())
    });
    match r {
        Ok(x) => x,
        Err(p) => {
            let msg = p.downcast_ref::<String>().cloned().or_else(|| p.downcast_ref::<&str>().map(|s| s.to_string())).unwrap_or_default();
            let class = match path.last().map(|(l, _)| &g.ops[*l]) {
                Some(Op::Push { .. }) | Some(Op::Resume { .. }) | Some(Op::ReplayFrom { .. }) | Some(Op::Reconnect { .. }) => "ring",
                _ => "credit",
            };
            Err((path.len(), class, format!("PANIC in code under test: {msg}")))
        }
    }
}

fn describe(g: &Graph, init: usize, path: &[(usize, usize)], step: usize, class: &str, what: &str) -> Value {
    json!({
        "class": class,
        "op": path.get(step.min(path.len().saturating_sub(1))).map(|(l, _)| g.labels[*l]["op"].clone()),
        "init": serde_json::from_str::<Value>(&g.states[init]).unwrap_or(Value::Null),
        "path": path.iter().map(|(l, _)| g.labels[*l].clone()).collect::<Vec<_>>(),
        "failed_step": step,
        "what": what,
    })
}

pub fn walk(a: &Args) -> i32 {
    let g = load_graph(&a.req("graph"));
    let depth = a.usize("depth", 4);
    let threads = a.usize("threads", 8).max(1);
    let out = a.req("out");
    if g.init.is_empty() || g.states.len() < 2 {
        eprintln!("graph has no INIT/EDGE lines");
        return 2;
    }
    std::panic::set_hook(Box::new(|_| {}));
    let n_edges: usize = g.edges.iter().map(|e| e.len()).sum();

    // (a) every edge once from a shortest path to its source (BFS tree)
    let mut parent: Vec<Option<(usize, usize, usize)>> = vec![None; g.states.len()]; // (from, label, self)
    let mut root: Vec<Option<usize>> = vec![None; g.states.len()];
    let mut q = std::collections::VecDeque::new();
    for &i in &g.init {
        root[i] = Some(i);
        q.push_back(i);
    }
    while let Some(s) = q.pop_front() {
        for &(l, t) in &g.edges[s] {
            if root[t].is_none() {
                root[t] = root[s];
                parent[t] = Some((s, l, t));
                q.push_back(t);
            }
        }
    }
    let path_to = |s: usize| -> (usize, Vec<(usize, usize)>) {
        let mut p = vec![];
        let mut c = s;
        while let Some((f, l, t)) = parent[c] {
            p.push((l, t));
            c = f;
        }
        p.reverse();
        (root[s].unwrap(), p)
    };
    let mut failures: Vec<Value> = vec![];
    let mut edge_runs = 0u64;
    for s in 0..g.states.len() {
        if root[s].is_none() || g.edges[s].is_empty() {
            continue;
        }
        let (init, base) = path_to(s);
        for &(l, t) in &g.edges[s] {
            let mut p = base.clone();
            p.push((l, t));
            edge_runs += 1;
            if let Err((i, c, e)) = run_path(&g, init, &p, true) {
                if failures.len() < 40 {
                    failures.push(describe(&g, init, &p, i, c, &e));
                }
            }
        }
    }

    // (b) every label path of length <= depth, partitioned over threads by the first two steps
    let paths = AtomicU64::new(0);
    let steps = AtomicU64::new(0);
    let distinct_obs = std::sync::Mutex::new(std::collections::HashSet::<u64>::new());
    let fail2 = std::sync::Mutex::new(Vec::<Value>::new());
    let mut prefixes: Vec<(usize, Vec<(usize, usize)>)> = vec![];
    for &i in &g.init {
        for &(l, t) in &g.edges[i] {
            prefixes.push((i, vec![(l, t)]));
        }
    }
    let next = AtomicU64::new(0);
    std::thread::scope(|sc| {
        for _ in 0..threads {
            sc.spawn(|| {
                let mut local_hash = std::collections::HashSet::<u64>::new();
                loop {
                    let k = next.fetch_add(1, Ordering::Relaxed) as usize;
                    if k >= prefixes.len() {
                        break;
                    }
                    let (init, mut path) = prefixes[k].clone();
                    fn dfs(
                        g: &Graph, init: usize, path: &mut Vec<(usize, usize)>, depth: usize,
                        paths: &AtomicU64, steps: &AtomicU64, fail: &std::sync::Mutex<Vec<Value>>,
                        hs: &mut std::collections::HashSet<u64>,
                    ) {
                        paths.fetch_add(1, Ordering::Relaxed);
                        steps.fetch_add(path.len() as u64, Ordering::Relaxed);
                        if path.len() >= 2 {
                            use std::hash::{Hash, Hasher};
                            let mut h = std::collections::hash_map::DefaultHasher::new();
                            // distinct (label-sequence) identity; bounded memory: only count up to 2M
                            if hs.len() < 2_000_000 {
                                for (l, t) in path.iter() {
                                    l.hash(&mut h);
                                    t.hash(&mut h);
                                }
                                hs.insert(h.finish());
                            }
                        }
                        match run_path(g, init, path, false) {
                            Err((i, c, e)) => {
                                let mut f = fail.lock().unwrap();
                                if f.len() < 40 {
                                    f.push(describe(g, init, path, i, c, &e));
                                }
                                return; // extensions of a failing path add nothing
                            }
                            Ok(()) => {}
                        }
                        if path.len() >= depth {
                            return;
                        }
                        let s = path.last().unwrap().1;
                        for &(l, t) in &g.edges[s] {
                            path.push((l, t));
                            dfs(g, init, path, depth, paths, steps, fail, hs);
                            path.pop();
                        }
                    }
                    dfs(&g, init, &mut path, depth, &paths, &steps, &fail2, &mut local_hash);
                }
                distinct_obs.lock().unwrap().extend(local_hash);
            });
        }
    });
    failures.extend(fail2.into_inner().unwrap());
    let sample_path = {
        // one concrete deepest path for the evidence file
        let mut p = vec![];
        let mut s = g.init[0];
        for _ in 0..depth {
            if let Some(&(l, t)) = g.edges[s].iter().find(|(_, t)| *t != s).or(g.edges[s].first()) {
                p.push(g.labels[l].clone());
                s = t;
            }
        }
        p
    };
    util::write_json(&out, &json!({
        "states": g.states.len(),
        "edges": n_edges,
        "labels": g.labels.len(),
        "edge_replays": edge_runs,
        "depth": depth,
        "paths": paths.load(Ordering::Relaxed),
        "op_executions": steps.load(Ordering::Relaxed),
        "distinct_paths_len_ge2": distinct_obs.lock().unwrap().len(),
        "sample_path": sample_path,
        "failures": failures,
    }));
    if failures.is_empty() { 0 } else { 1 }
}

// ---------------------------------------------------------------------------
// impl -> spec: random 64-bit histories

fn j64(v: u64) -> Value {
    util::le8(v)
}

fn jchunks(cs: &[Chunk]) -> Value {
    Value::Array(cs.iter().map(|c| json!({"off": j64(c.off), "dlen": j64(c.dlen), "wlen": j64(c.wlen), "last": c.last, "tag": c.tag})).collect())
}

fn jstate(tc: &TransferControl) -> Value {
    let p = observe(tc, 8);
    json!({
        "sent": j64(p.sent), "acked": j64(p.acked),
        "cancelled": p.cancelled.map(|r| vec![r]).unwrap_or_default(),
        "peer": p.peer.map(|x| vec![x]).unwrap_or_default(),
        "ring": jchunks(&p.ring),
    })
}

pub fn random(a: &Args) -> i32 {
    let seed = a.u64("seed", 1);
    let runs = a.usize("runs", 50);
    let len = a.usize("len", 200);
    let mut out = util::NdJson::create(&a.req("out"));
    let mut rng = StdRng::seed_from_u64(seed);
    std::panic::set_hook(Box::new(|_| {}));
    let mut panics = vec![];
    let mut serial: u64 = 0;
    for run in 0..runs {
        // scale of this run: small values exercise equalities, large ones 64-bit arithmetic
        let scale: u64 = match rng.gen_range(0..4) {
            0 => 8,
            1 => 1 << 12,
            2 => 1 << 32,
            _ => 1 << 47,
        };
        let window = match rng.gen_range(0..6) {
            0 => 0,
            1 => u64::MAX,
            _ => rng.gen_range(1..=scale.saturating_mul(4)),
        };
        // ring capacity in wire bytes: 0 .. many chunks (bodies are at most 40 bytes here)
        let cap = match rng.gen_range(0..5) {
            0 => 0,
            1 => u64::MAX,
            _ => rng.gen_range(1..200),
        };
        let tc = TransferControl::with_replay_capacity(window, cap);
        out.push(&json!({"ev": "reset", "run": run, "window": j64(window), "cap": j64(cap), "file": "f0"}));
        let mut cur_file: u32 = 0;
        let mut next_off: u64 = 0; // producer's running offset (contract: pushes abut)
        let during = std::cell::Cell::new("none");
        let allow_cancel = rng.gen_bool(0.5);
        let r = std::panic::catch_unwind(std::panic::AssertUnwindSafe(|| {
            for _ in 0..len {
                let (sent, acked) = tc.offsets();
                let ring = observe_chunks(&tc, 0, 8);
                let pick_off = |rng: &mut StdRng| -> u64 {
                    match rng.gen_range(0..10) {
                        0 => u64::MAX,
                        1 => 0,
                        2 => sent,
                        3 => acked,
                        4 => sent.saturating_add(rng.gen_range(1..=scale)),
                        5 => sent.saturating_sub(rng.gen_range(0..=scale.min(sent.max(1)))),
                        6 | 7 if !ring.is_empty() => {
                            let c = &ring[rng.gen_range(0..ring.len())];
                            if rng.gen_bool(0.7) { c.off } else { c.off + c.dlen / 2 }
                        }
                        8 if !ring.is_empty() => {
                            let c = ring.last().unwrap();
                            c.off + c.dlen
                        }
                        _ => rng.gen_range(0..=scale.saturating_mul(2)),
                    }
                };
                let pick_file = |rng: &mut StdRng| -> u32 {
                    match rng.gen_range(0..8) {
                        0 => u32::MAX,
                        1 => cur_file.wrapping_add(1),
                        2 => rng.gen_range(0..4),
                        _ => cur_file,
                    }
                };
                let fname = |f: u32| format!("f{f}");
                let mut choice = rng.gen_range(0..100);
                if choice == 50 && !allow_cancel {
                    choice = 40;
                }
                match choice {
                    0..=24 => {
                        during.set("push");
                        // documented producer step: push a chunk that abuts, then (usually) record it as sent
                        let dlen = match rng.gen_range(0..8) {
                            0 => 0,
                            1 => rng.gen_range(1..(1u64 << 48)),
                            _ => rng.gen_range(1..=scale),
                        };
                        if next_off.checked_add(dlen).is_none() {
                            continue;
                        }
                        let wlen = rng.gen_range(0..40u64);
                        serial += 1;
                        let mut body = serial.to_le_bytes().to_vec();
                        body.resize(wlen as usize, 0xEE);
                        let tag = tag_hex(&body);
                        let lastf = rng.gen_bool(0.1);
                        tc.push_replay(next_off, dlen, lastf, body);
                        let mut e = json!({"ev": "push", "off": j64(next_off), "dlen": j64(dlen), "wlen": j64(wlen), "lastflag": lastf, "tag": tag});
                        e["post"] = jstate_hex(&tc);
                        out.push(&e);
                        next_off += dlen;
                        if rng.gen_bool(0.8) {
                            tc.record_sent(next_off);
                            let mut e = json!({"ev": "sent", "o": j64(next_off)});
                            e["post"] = jstate_hex(&tc);
                            out.push(&e);
                        }
                    }
                    25..=29 => {
                        during.set("sent");
                        // record_sent is the producer's own call: its offsets are sums of chunk lengths
                        // (< 2^48 each), never hostile; keep them below 2^60 so that the property's
                        // stated bound (in-flight + chunk length cannot overflow) is respected
                        let o = pick_off(&mut rng).min(1u64 << 60);
                        tc.record_sent(o);
                        let mut e = json!({"ev": "sent", "o": j64(o)});
                        e["post"] = jstate_hex(&tc);
                        out.push(&e);
                    }
                    30..=49 => {
                        during.set("ack");
                        let (f, o) = (pick_file(&mut rng), pick_off(&mut rng));
                        tc.record_ack(f, o);
                        let mut e = json!({"ev": "ack", "f": fname(f), "o": j64(o)});
                        e["post"] = jstate_hex(&tc);
                        out.push(&e);
                    }
                    50..=50 => {
                        during.set("cancel");
                        // the empty reason is a reason like any other (an absent wire field): the first one still wins
                        let r = ["".to_string(), "r1".to_string(), "r2".to_string()][rng.gen_range(0..3)].clone();
                        tc.cancel(r.clone());
                        let mut e = json!({"ev": "cancel", "r": r});
                        e["post"] = jstate_hex(&tc);
                        out.push(&e);
                    }
                    51..=57 => {
                        during.set("advance");
                        let f = if rng.gen_bool(0.3) { cur_file } else { rng.gen_range(0..4) };
                        tc.advance_to_file(f);
                        cur_file = f;
                        next_off = 0;
                        let mut e = json!({"ev": "advance", "f": fname(f)});
                        e["post"] = jstate_hex(&tc);
                        out.push(&e);
                    }
                    58..=72 => {
                        during.set("resume");
                        let (p, f, o) = (rng.gen_range(1..5u64), pick_file(&mut rng), pick_off(&mut rng));
                        let (ret, replay) = match tc.request_resume(peer(p), f, o) {
                            Ok(x) => (if x == o { "ok" } else { "ok_wrong_offset" }, observe_chunks_hex(&tc, o)),
                            Err(ResumeRejection::Cancelled) => ("cancelled", vec![]),
                            Err(ResumeRejection::WrongFileIndex { .. }) => ("wrong_file", vec![]),
                            Err(ResumeRejection::OutOfWindow) => ("out_of_window", vec![]),
                        };
                        let mut e = json!({"ev": "resume", "p": p, "f": fname(f), "o": j64(o), "ret": ret, "replay": jchunks(&replay)});
                        e["post"] = jstate_hex(&tc);
                        out.push(&e);
                    }
                    73..=84 => {
                        during.set("credit");
                        let l = match rng.gen_range(0..6) {
                            0 => 0,
                            1 => rng.gen_range(0..(1u64 << 48)),
                            2 => window,
                            _ => rng.gen_range(0..=scale),
                        };
                        let ret = match tc.wait_for_credit(l, Instant::now()) {
                            Ok(()) => ("ok".to_string(), String::new()),
                            Err(CreditError::Cancelled(r)) => ("cancelled".to_string(), r),
                            Err(CreditError::Timeout) => ("timeout".to_string(), String::new()),
                        };
                        let mut e = json!({"ev": "credit", "len": j64(l), "ret": [ret.0, ret.1]});
                        e["post"] = jstate_hex(&tc);
                        out.push(&e);
                    }
                    85..=92 => {
                        during.set("reconnect");
                        let ret = match tc.wait_for_reconnect(Duration::ZERO) {
                            ReconnectOutcome::ResumeReady(p) => json!({"kind": "resume", "reason": "", "off": j64(p.resume_at_offset)}),
                            ReconnectOutcome::Cancelled(r) => json!({"kind": "cancelled", "reason": r, "off": j64(0)}),
                            ReconnectOutcome::Timeout => json!({"kind": "timeout", "reason": "", "off": j64(0)}),
                        };
                        let mut e = json!({"ev": "reconnect", "ret": ret});
                        e["post"] = jstate_hex(&tc);
                        out.push(&e);
                    }
                    93..=95 => {
                        during.set("set_peer");
                        let p = rng.gen_range(1..5u64);
                        tc.set_peer(peer(p));
                        let mut e = json!({"ev": "set_peer", "p": p});
                        e["post"] = jstate_hex(&tc);
                        out.push(&e);
                    }
                    _ => {
                        during.set("replay_from");
                        let o = pick_off(&mut rng);
                        let rp = observe_chunks_hex(&tc, o);
                        let mut e = json!({"ev": "replay_from", "o": j64(o), "replay": jchunks(&rp)});
                        e["post"] = jstate_hex(&tc);
                        out.push(&e);
                    }
                }
            }
        }));
        if let Err(p) = r {
            let msg = p.downcast_ref::<String>().cloned().or_else(|| p.downcast_ref::<&str>().map(|s| s.to_string())).unwrap_or_default();
            panics.push(json!({"run": run, "panic": msg}));
            out.push(&json!({"ev": "panic", "run": run, "msg": msg, "during": during.get()}));
        }
    }
    let lines = out.lines;
    out.finish();
    util::write_json(&a.str("summary", "/dev/null"), &json!({"runs": runs, "events": lines, "panics": panics}));
    0
}

fn tag_hex(b: &[u8]) -> String {
    util::hex(&b[..b.len().min(8)])
}
fn observe_chunks_hex(tc: &TransferControl, from: u64) -> Vec<Chunk> {
    tc.replay_chunks_from(from)
        .iter()
        .map(|c| Chunk { off: c.offset, dlen: c.data_len, wlen: c.body_bytes.len() as u64, last: c.last, tag: tag_hex(&c.body_bytes) })
        .collect()
}
fn jstate_hex(tc: &TransferControl) -> Value {
    let (sent, acked) = tc.offsets();
    json!({
        "sent": j64(sent), "acked": j64(acked),
        "cancelled": tc.cancel_reason().map(|r| vec![r]).unwrap_or_default(),
        "peer": tc.peer().map(|x| vec![x.peer_id().0]).unwrap_or_default(),
        "ring": jchunks(&observe_chunks_hex(tc, 0)),
    })
}
#[allow(dead_code)]
fn unused(tc: &TransferControl) -> Value {
    jstate(tc)
}
