//! C04 / C06 engine: the three multiplexing clients against an adversarial scripted server,
//! recorded for spec/Trace_ClientMux.tla.
//!
//! Events (global sequence order):
//!   reset(client, callers)        a new connection / scenario
//!   start(c)                      caller c is about to call (it will allocate an id, register, write)
//!   sent(c, id)                   the server read caller c's request (tag from its path) with this id
//!   srv(kind, id, tag)            the server is about to write a frame: resp | notify | malformed | close
//!   ret(c, cls, rid, rtag)        caller c's call returned: ok (response body's id, tag) | err | timeout | cancelled | hung
//!   note(id, tag)                 the notification subscriber received a frame (ws)
//!   after(pending, sub_ended)     all callers done: size of the client's pending map, subscriber stream ended

use crate::util::{self, Args};
use rand::rngs::StdRng;
use rand::seq::SliceRandom;
use rand::{Rng, SeedableRng};
use repe::{AsyncClient, Client, Message, RepeError, WebSocketClient};
use serde_json::{json, Value};
use std::io::{Read, Write};
use std::net::{Shutdown, TcpListener, TcpStream};
use std::sync::atomic::{AtomicU64, Ordering};
use std::sync::{Arc, Mutex};
use std::time::{Duration, Instant};
use tokio_tungstenite::tungstenite;

#[derive(Clone, Copy, PartialEq, Debug)]
enum Kind {
    Sync,
    Async,
    Ws,
}
impl Kind {
    fn name(&self) -> &'static str {
        match self {
            Kind::Sync => "sync",
            Kind::Async => "async",
            Kind::Ws => "ws",
        }
    }
}

struct Log {
    seq: AtomicU64,
    ev: Mutex<Vec<(u64, Value)>>,
}
impl Log {
    fn push(&self, v: Value) {
        let mut g = self.ev.lock().unwrap();
        let s = self.seq.fetch_add(1, Ordering::SeqCst);
        g.push((s, v));
    }
}

enum Srv {
    Tcp(TcpStream),
    Ws(Box<tungstenite::WebSocket<TcpStream>>),
}
impl Srv {
    fn accept(l: &TcpListener, kind: Kind) -> Srv {
        let (s, _) = l.accept().unwrap();
        s.set_nodelay(true).ok();
        match kind {
            Kind::Ws => Srv::Ws(Box::new(tungstenite::accept(s).expect("ws handshake"))),
            _ => Srv::Tcp(s),
        }
    }
    fn stream(&self) -> &TcpStream {
        match self {
            Srv::Tcp(s) => s,
            Srv::Ws(w) => w.get_ref(),
        }
    }
    /// next request frame: (id, tag parsed from the query "/c<tag>")
    fn read_req(&mut self, timeout: Duration) -> Option<(u64, u64)> {
        self.stream().set_read_timeout(Some(timeout)).ok();
        let frame: Vec<u8> = match self {
            Srv::Tcp(s) => {
                let mut h = [0u8; 48];
                s.read_exact(&mut h).ok()?;
                let total = u64::from_le_bytes(h[0..8].try_into().unwrap()) as usize;
                if total > (256 << 20) { return None; } // never trust a declared length with an allocation
                let mut rest = vec![0u8; total.checked_sub(48)?];
                s.read_exact(&mut rest).ok()?;
                [h.to_vec(), rest].concat()
            }
            Srv::Ws(w) => loop {
                match w.read().ok()? {
                    tungstenite::Message::Binary(b) => break b.to_vec(),
                    tungstenite::Message::Close(_) => return None,
                    _ => continue,
                }
            },
        };
        let id = u64::from_le_bytes(frame[16..24].try_into().unwrap());
        let q = u64::from_le_bytes(frame[24..32].try_into().unwrap()) as usize;
        let query = String::from_utf8_lossy(&frame[48..48 + q]).to_string();
        // "/f<k>": a forwarded request (answer it); "/x<k>": a forwarded request the server never answers
        let tag = if query.starts_with("/f") { 2_000_000 + query.trim_start_matches("/f").parse::<u64>().unwrap_or(0) } else if query.starts_with("/x") { 3_000_000 + query.trim_start_matches("/x").parse::<u64>().unwrap_or(0) } else if query.starts_with("/n") { 1_000_000 + query.trim_start_matches("/n").parse::<u64>().unwrap_or(0) } else { query.trim_start_matches("/c").parse::<u64>().unwrap_or(999) };
        Some((id, tag))
    }
    fn send(&mut self, bytes: &[u8]) -> bool {
        match self {
            Srv::Tcp(s) => s.write_all(bytes).is_ok(),
            Srv::Ws(w) => w.send(tungstenite::Message::Binary(bytes.to_vec().into())).is_ok(),
        }
    }
    fn send_text(&mut self) -> bool {
        match self {
            Srv::Ws(w) => w.send(tungstenite::Message::Text("not a repe frame".into())).is_ok(),
            Srv::Tcp(s) => s.write_all(&[0xAB; 60]).is_ok(),
        }
    }
    fn close(&mut self, reset: bool) {
        if reset {
            // RST instead of FIN
            let _ = socket_linger_zero(self.stream());
        }
        let _ = self.stream().shutdown(Shutdown::Both);
    }
}
fn socket_linger_zero(s: &TcpStream) -> std::io::Result<()> {
    use std::os::fd::AsRawFd;
    #[repr(C)]
    struct Linger {
        l_onoff: i32,
        l_linger: i32,
    }
    unsafe extern "C" {
        fn setsockopt(fd: i32, level: i32, name: i32, val: *const core::ffi::c_void, len: u32) -> i32;
    }
    let l = Linger { l_onoff: 1, l_linger: 0 };
    // SOL_SOCKET = 1, SO_LINGER = 13 on Linux
    let r = unsafe { setsockopt(s.as_raw_fd(), 1, 13, &l as *const _ as *const _, std::mem::size_of::<Linger>() as u32) };
    if r == 0 { Ok(()) } else { Err(std::io::Error::last_os_error()) }
}

fn resp_frame(id: u64, tag: u64) -> Vec<u8> {
    Message::builder().id(id).query_str(&format!("/c{tag}")).body_json(&json!({"id": id, "tag": tag})).unwrap().build().to_vec()
}
fn notify_frame(id: u64) -> Vec<u8> {
    Message::builder().id(id).notify(true).query_str("/note").body_json(&json!({"id": id, "tag": 98})).unwrap().build().to_vec()
}

/// a request body whose serialization parks until released and then fails
struct ParkFail(Arc<std::sync::atomic::AtomicBool>);
impl serde::Serialize for ParkFail {
    fn serialize<S: serde::Serializer>(&self, _s: S) -> Result<S::Ok, S::Error> {
        let t0 = Instant::now();
        while !self.0.load(Ordering::SeqCst) && t0.elapsed() < Duration::from_secs(3) { std::thread::sleep(Duration::from_millis(1)); }
        Err(serde::ser::Error::custom("scripted serialization failure"))
    }
}

enum AnyClient {
    Sync(Client),
    Async(AsyncClient),
    Ws(WebSocketClient),
}
impl AnyClient {
    fn pending_len(&self) -> usize {
        match self {
            AnyClient::Sync(c) => c.verif_pending_len(),
            AnyClient::Async(c) => c.verif_pending_len(),
            AnyClient::Ws(c) => c.verif_pending_len(),
        }
    }
}

/// a scripted ERROR reply: it answers the call like any other response (the caller gets it, as Err(ServerError))
fn err_frame(id: u64, tag: u64) -> Vec<u8> {
    let mut m = Message::builder().id(id).query_str(&format!("/c{tag}")).error_code(repe::ErrorCode::ApplicationErrorBase).body_utf8(&format!("E:{id}:{tag}")).build();
    m.header.ec = 4096;
    m.to_vec()
}
fn parse_err_marker(msg: &str) -> Option<(u64, u64)> {
    let rest = msg.split("E:").nth(1)?;
    let mut it = rest.split(':');
    let id = it.next()?.trim().parse().ok()?;
    let tag: String = it.next()?.chars().take_while(|c| c.is_ascii_digit()).collect();
    Some((id, tag.parse().ok()?))
}
fn classify(r: Result<Value, RepeError>) -> (String, u64, u64, String) {
    match r {
        Ok(v) => ("ok".into(), v["id"].as_u64().unwrap_or(0), v["tag"].as_u64().unwrap_or(0), String::new()),
        Err(RepeError::ServerError { message, .. }) if parse_err_marker(&message).is_some() => { let (i, t) = parse_err_marker(&message).unwrap(); ("ok".into(), i, t, "error reply".into()) }
        Err(RepeError::Io(e)) if e.kind() == std::io::ErrorKind::TimedOut => ("timeout".into(), 0, 0, e.to_string()),
        Err(e) => ("err".into(), 0, 0, e.to_string().chars().take(80).collect()),
    }
}

/// one scripted scenario
#[derive(Clone, Debug)]
struct Plan {
    callers: usize,
    read: usize,               // how many requests the server reads before acting
    order: Vec<usize>,         // indices (into the read requests) to answer, in order
    junk: Vec<(usize, &'static str)>, // before answering order[pos]: "unknown" | "dup" | "notify"
    fault: Option<(&'static str, usize)>, // fault kind, after how many answers
    timeout_ms: Option<u64>,   // per-call timeout
    late: Vec<usize>,          // indices answered only after the timeout has passed
    cancel: Vec<usize>,        // callers (1-based) aborted after their request was read (async / ws)
    batch: bool,
    subscribe: bool,           // ws: a notification subscriber exists
    wt_big: bool,              // blocking client with a write timeout: a large request times out mid-frame while another call is in flight (the peer keeps the socket open)
    ser_fail: bool,            // a further call whose body fails to serialize overlaps with the calls (it must not disturb the id sequence)
    cancel_queued: bool,       // caller 1 is stuck writing a large request; caller 2, queued on the writer, is cancelled; caller 1 must still succeed
    notifies: usize,           // the client sends this many notifies before its calls: they draw ids from the same counter
    forward: Option<&'static str>, // async: forward_message phases after the calls returned: "low" | "timeout"
    collide: bool,             // async: while all calls are in flight, a forward_message reuses an in-flight id (must be refused, must not disturb the call)
    big_writer: bool,          // one more caller is stuck writing a multi-MiB request when the fault arrives; the socket stays open afterwards
}

fn run_plan(kind: Kind, plan: &Plan, rt: &tokio::runtime::Runtime, log: &Arc<Log>, rng: &mut StdRng) {
    let listener = TcpListener::bind("127.0.0.1:0").unwrap();
    let addr = listener.local_addr().unwrap();
    let from_seq = log.seq.load(Ordering::SeqCst);
    log.push(json!({"ev": "reset", "client": kind.name(), "callers": plan.callers, "plan": format!("{plan:?}")}));
    // the server side runs in its own thread
    let plan_s = plan.clone();
    let log_s = log.clone();
    let seed: u64 = rng.r#gen();
    let go = Arc::new(std::sync::atomic::AtomicBool::new(!(plan.collide || plan.big_writer || plan.cancel_queued || plan.wt_big)));
    let go_s = go.clone();
    let srv_thread = std::thread::spawn(move || {
        let mut r = StdRng::seed_from_u64(seed);
        let mut srv = Srv::accept(&listener, kind);
        let mut reqs: Vec<(u64, u64)> = vec![];
        if plan_s.cancel_queued {
            // do not read anything until the queued caller has been cancelled
            let t0 = Instant::now();
            while !go_s.load(Ordering::SeqCst) && t0.elapsed() < Duration::from_secs(5) { std::thread::sleep(Duration::from_millis(1)); }
        }
        let mut notify_ids: Vec<u64> = vec![];
        while reqs.len() < plan_s.read || notify_ids.len() < plan_s.notifies {
            match srv.read_req(Duration::from_secs(10)) {
                Some((id, tag)) if tag >= 1_000_000 => { log_s.push(json!({"ev": "nsent", "id": id})); notify_ids.push(id); }
                Some((id, tag)) => {
                    log_s.push(json!({"ev": "sent", "c": tag, "id": id}));
                    reqs.push((id, tag));
                }
                None => break,
            }
        }
        // give cancels a moment to happen before the (late) answers
        if !plan_s.cancel.is_empty() {
            std::thread::sleep(Duration::from_millis(40));
        }
        // collide / big_writer: the client side tells us when its extra step is in place
        let t0 = Instant::now();
        while !go_s.load(Ordering::SeqCst) && t0.elapsed() < Duration::from_secs(5) { std::thread::sleep(Duration::from_millis(1)); }
        if plan_s.wt_big {
            // read nothing more, answer nothing, keep the socket open until the client goes away (at most 8 s)
            let t0 = Instant::now();
            while !go_s.load(Ordering::SeqCst) && t0.elapsed() < Duration::from_secs(8) { std::thread::sleep(Duration::from_millis(5)); }
            return;
        }
        let mut answered: Vec<(u64, u64)> = vec![];
        let mut n_answered = 0usize;
        // closing with requests unread (or still arriving) makes the kernel reset the connection instead of shutting it
        // down in order, and a reset discards whatever the client has not read yet: tag 1 = lossy
        let unread = (plan_s.read < plan_s.callers || plan_s.big_writer) as u64;
        let fault_now = |srv: &mut Srv, k: &str, log: &Arc<Log>, r: &mut StdRng| {
            match k {
                "close" => { log.push(json!({"ev": "srv", "kind": "close", "id": 0, "tag": unread})); srv.close(false); }
                "reset" => { log.push(json!({"ev": "srv", "kind": "close", "id": 0, "tag": 1})); srv.close(true); }
                "malformed" => { log.push(json!({"ev": "srv", "kind": "malformed", "id": 0, "tag": 0})); srv.send_text(); log.push(json!({"ev": "srv", "kind": "close", "id": 0, "tag": unread})); }
                "badlen" => {
                    log.push(json!({"ev": "srv", "kind": "malformed", "id": 0, "tag": 0}));
                    let mut f = resp_frame(1, 1);
                    f[0] ^= 0x55; // declared total no longer 48 + q + b
                    srv.send(&f);
                    log.push(json!({"ev": "srv", "kind": "close", "id": 0, "tag": unread}));
                }
                "hugelen" => {
                    log.push(json!({"ev": "srv", "kind": "malformed", "id": 0, "tag": 0}));
                    let mut f = resp_frame(1, 1);
                    f[24..32].copy_from_slice(&u64::MAX.to_le_bytes());
                    f[0..8].copy_from_slice(&47u64.to_le_bytes());
                    srv.send(&f);
                    log.push(json!({"ev": "srv", "kind": "close", "id": 0, "tag": unread}));
                }
                "close_frame_open" => {
                    // a WebSocket Close frame, after which the peer keeps the TCP connection open (half-dead peer)
                    log.push(json!({"ev": "srv", "kind": "close", "id": 0, "tag": 0}));
                    if let Srv::Ws(w) = srv { let _ = w.close(None); let _ = w.flush(); }
                    let t0 = Instant::now();
                    let mut buf = vec![0u8; 1 << 16];
                    let _ = srv.stream().set_read_timeout(Some(Duration::from_millis(200)));
                    let mut raw = srv.stream().try_clone().unwrap();
                    while t0.elapsed() < Duration::from_secs(7) {
                        match raw.read(&mut buf) { Ok(0) => break, Ok(_) => {}, Err(e) if e.kind() == std::io::ErrorKind::WouldBlock || e.kind() == std::io::ErrorKind::TimedOut => {}, Err(_) => break }
                    }
                }
                "badlen_open" | "malformed_open" => {
                    // a malformed frame, but the socket stays open and the peer keeps reading (without ever answering)
                    log.push(json!({"ev": "srv", "kind": "malformed", "id": 0, "tag": 0}));
                    if k == "malformed_open" && matches!(srv, Srv::Ws(_)) { srv.send_text(); } else { let mut f = resp_frame(1, 1); f[0] ^= 0x55; srv.send(&f); }
                    let t0 = Instant::now();
                    let mut buf = vec![0u8; 1 << 16];
                    let _ = srv.stream().set_read_timeout(Some(Duration::from_millis(200)));
                    let mut raw = srv.stream().try_clone().unwrap();
                    while t0.elapsed() < Duration::from_secs(4) {
                        match raw.read(&mut buf) { Ok(0) => break, Ok(_) => {}, Err(e) if e.kind() == std::io::ErrorKind::WouldBlock || e.kind() == std::io::ErrorKind::TimedOut => {}, Err(_) => break }
                    }
                }
                "truncated" => {
                    // a prefix of a valid response, then the connection closes
                    log.push(json!({"ev": "srv", "kind": "close", "id": 0, "tag": unread}));
                    let f = resp_frame(7, 7);
                    let cut = [1usize, 47, 48, 49, 50, 51, f.len() - 1][r.gen_range(0..7)];
                    if let Srv::Tcp(s) = srv { let _ = s.write_all(&f[..cut]); }
                    srv.close(false);
                }
                _ => {}
            }
        };
        for (pos, &ix) in plan_s.order.iter().enumerate() {
            if let Some((k, after)) = plan_s.fault {
                if after == n_answered {
                    fault_now(&mut srv, k, &log_s, &mut r);
                    return;
                }
            }
            for (jpos, jk) in &plan_s.junk {
                if *jpos == pos {
                    match *jk {
                        "unknown" => { log_s.push(json!({"ev": "srv", "kind": "resp", "id": 777_000 + pos as u64, "tag": 99})); srv.send(&resp_frame(777_000 + pos as u64, 99)); }
                        // id 0: never issued either (the clients number their requests from 1)
                        "unknown0" => { log_s.push(json!({"ev": "srv", "kind": "resp", "id": 0, "tag": 99})); srv.send(&resp_frame(0, 99)); }
                        "dup" => if let Some((id, _)) = answered.last().copied() { log_s.push(json!({"ev": "srv", "kind": "resp", "id": id, "tag": 99})); srv.send(&resp_frame(id, 99)); },
                        // a response carrying the id of one of the client's own notifies: nobody waits for it
                        "notify_id" => if let Some(id) = notify_ids.first().copied() { log_s.push(json!({"ev": "srv", "kind": "resp", "id": id, "tag": 99})); srv.send(&resp_frame(id, 99)); },
                        "notify" => if let Some((id, _)) = reqs.get(ix).copied() { log_s.push(json!({"ev": "srv", "kind": "notify", "id": id, "tag": 98})); srv.send(&notify_frame(id)); },
                        _ => {}
                    }
                }
            }
            let Some(&(id, tag)) = reqs.get(ix) else { continue };
            if plan_s.late.contains(&ix) {
                std::thread::sleep(Duration::from_millis(plan_s.timeout_ms.unwrap_or(0) + 60));
            }
            log_s.push(json!({"ev": "srv", "kind": "resp", "id": id, "tag": tag}));
            srv.send(&resp_frame(id, tag));
            answered.push((id, tag));
            n_answered += 1;
        }
        if let Some((k, after)) = plan_s.fault {
            if after >= n_answered {
                fault_now(&mut srv, k, &log_s, &mut r);
                return;
            }
        }
        // keep serving (the "later" call) until the client goes away
        while let Some((id, tag)) = srv.read_req(Duration::from_millis(400)) {
            if tag >= 3_000_000 { log_s.push(json!({"ev": "fsent", "c": tag - 3_000_000, "id": id})); continue; }
            if tag >= 2_000_000 {
                let c = tag - 2_000_000;
                log_s.push(json!({"ev": "fsent", "c": c, "id": id}));
                log_s.push(json!({"ev": "srv", "kind": "resp", "id": id, "tag": c}));
                srv.send(&resp_frame(id, c));
                continue;
            }
            if tag >= 1_000_000 { log_s.push(json!({"ev": "nsent", "id": id})); continue; }
            log_s.push(json!({"ev": "sent", "c": tag, "id": id}));
            log_s.push(json!({"ev": "srv", "kind": "resp", "id": id, "tag": tag}));
            srv.send(&resp_frame(id, tag));
        }
    });

    // client side
    let connected = match kind {
        Kind::Sync => Client::connect(addr).map(AnyClient::Sync),
        Kind::Async => rt.block_on(AsyncClient::connect(addr)).map(AnyClient::Async),
        Kind::Ws => rt.block_on(WebSocketClient::connect(&format!("ws://{addr}"))).map(AnyClient::Ws),
    };
    let client = match connected {
        Ok(c) => c,
        Err(_) => {
            // the scripted server killed the connection before the client finished connecting:
            // nothing to observe in this scenario
            let _ = srv_thread.join();
            return;
        }
    };
    // notification subscriber (ws)
    let sub_ended = Arc::new(std::sync::atomic::AtomicBool::new(false));
    if let (AnyClient::Ws(c), true) = (&client, plan.subscribe) {
        if let Ok(mut rx) = c.subscribe_notifies() {
            let (log2, ended) = (log.clone(), sub_ended.clone());
            rt.spawn(async move {
                while let Some(m) = rx.recv().await {
                    let v: Value = m.json_body().unwrap_or(Value::Null);
                    log2.push(json!({"ev": "note", "id": m.header.id, "tag": v["tag"].as_u64().unwrap_or(0)}));
                }
                ended.store(true, Ordering::SeqCst);
                log2.push(json!({"ev": "sub_end"}));
            });
        }
    }
    for k in 0..plan.notifies {
        let (path, body) = (format!("/n{k}"), json!({"n": k}));
        let _ = match &client {
            AnyClient::Sync(c) => c.notify_json(&path, &body),
            AnyClient::Async(c) => rt.block_on(c.notify_json(&path, &body)),
            AnyClient::Ws(c) => rt.block_on(c.notify_json(&path, &body)),
        };
    }
    let timeout = plan.timeout_ms.map(Duration::from_millis);
    // a peer that sent a Close frame but holds the TCP connection open does so for 7 s here: a call that only returns
    // when the socket finally closes has, for the caller, blocked for as long as the peer pleased
    let watchdog = if matches!(plan.fault, Some(("close_frame_open", _))) || plan.wt_big { Duration::from_secs(4) } else { Duration::from_secs(10) };
    let do_call = |c: u64| -> Box<dyn FnOnce() -> (String, u64, u64, String) + Send> {
        let path = format!("/c{c}");
        let body = json!({"c": c});
        match &client {
            AnyClient::Sync(cl) => {
                let cl = cl.clone();
                Box::new(move || classify(match timeout { Some(t) => cl.call_json_with_timeout(&path, &body, t), None => cl.call_json(&path, &body) }))
            }
            _ => unreachable!(),
        }
    };
    let mut big_done: Option<Arc<std::sync::atomic::AtomicBool>> = None;
    let ser_release = Arc::new(std::sync::atomic::AtomicBool::new(false));
    if plan.ser_fail {
        // this call takes an id, parks in the serialization of its body, and fails once the other calls are in flight
        let (rel, log2) = (ser_release.clone(), log.clone());
        match &client {
            AnyClient::Sync(c) => { let c = c.clone(); std::thread::spawn(move || { let r = c.call_json("/c900", &ParkFail(rel)); log2.push(json!({"ev": "serfail", "err": r.is_err()})); }); }
            AnyClient::Async(c) => { let c = c.clone(); rt.spawn(async move { let r = c.call_json("/c900", &ParkFail(rel)).await; log2.push(json!({"ev": "serfail", "err": r.is_err()})); }); }
            AnyClient::Ws(c) => { let c = c.clone(); rt.spawn(async move { let r = c.call_json("/c900", &ParkFail(rel)).await; log2.push(json!({"ev": "serfail", "err": r.is_err()})); }); }
        }
        std::thread::sleep(Duration::from_millis(20));
    }
    if plan.batch {
        // batch_json: results must be positionally aligned with the requests
        let reqs: Vec<(String, Value)> = (1..=plan.callers as u64).map(|c| (format!("/c{c}"), json!({"c": c}))).collect();
        for c in 1..=plan.callers as u64 {
            log.push(json!({"ev": "start", "c": c}));
        }
        let results: Vec<Result<Value, RepeError>> = match &client {
            AnyClient::Sync(cl) => cl.batch_json(reqs),
            AnyClient::Async(cl) => rt.block_on(cl.batch_json(reqs)),
            AnyClient::Ws(cl) => rt.block_on(cl.batch_json(reqs)),
        };
        for (i, r) in results.into_iter().enumerate() {
            let (cls, rid, rtag, msg) = classify(r);
            log.push(json!({"ev": "ret", "c": i as u64 + 1, "cls": cls, "rid": rid, "rtag": rtag, "msg": msg}));
        }
    } else {
        match &client {
            AnyClient::Sync(_) => {
                let mut hs = vec![];
                for c in 1..=plan.callers as u64 {
                    log.push(json!({"ev": "start", "c": c}));
                    let f = do_call(c);
                    let (log2, done) = (log.clone(), Arc::new(std::sync::atomic::AtomicBool::new(false)));
                    let d2 = done.clone();
                    hs.push((c, done, std::thread::spawn(move || {
                        let (cls, rid, rtag, msg) = f();
                        log2.push(json!({"ev": "ret", "c": c, "cls": cls, "rid": rid, "rtag": rtag, "msg": msg}));
                        d2.store(true, Ordering::SeqCst);
                    })));
                    std::thread::sleep(Duration::from_micros(300));
                }
                big_done = extra_step(&client, plan, rt, log, &go, from_seq);
                if plan.ser_fail { std::thread::sleep(Duration::from_millis(30)); ser_release.store(true, Ordering::SeqCst); std::thread::sleep(Duration::from_millis(20)); }
                if plan.wt_big {
                    if let AnyClient::Sync(cl) = &client {
                        // wait until the peer has read the ordinary calls, then send a request that cannot be written within the timeout
                        let t0 = Instant::now();
                        while log.ev.lock().unwrap().iter().filter(|(sq, e)| *sq >= from_seq && e["ev"] == "sent").count() < plan.read && t0.elapsed() < Duration::from_secs(5) { std::thread::sleep(Duration::from_millis(1)); }
                        let _ = cl.set_write_timeout(Some(Duration::from_millis(150)));
                        let c = plan.callers as u64 + 2;
                        log.push(json!({"ev": "start", "c": c}));
                        // the write below cannot complete (the peer reads nothing, the timeout is 150 ms): its interruption is
                        // the connection's failure - the client shuts the connection down, its reader sees the end.  Logged
                        // before the call because the other callers' errors may be reported before this call returns.
                        log.push(json!({"ev": "wfail", "c": c}));
                        let r = cl.call_json(&format!("/c{c}"), &json!({"c": c, "pad": "x".repeat(16 << 20)}));
                        let (cls, rid, rtag, msg) = classify(r);
                        log.push(json!({"ev": "ret", "c": c, "cls": cls, "rid": rid, "rtag": rtag, "msg": msg}));
                    }
                }
                let t0 = Instant::now();
                for (c, done, h) in hs {
                    while !done.load(Ordering::SeqCst) && t0.elapsed() < watchdog {
                        std::thread::sleep(Duration::from_millis(1));
                    }
                    if done.load(Ordering::SeqCst) { let _ = h.join(); } else { log.push(json!({"ev": "ret", "c": c, "cls": "hung", "rid": 0, "rtag": 0, "msg": "no return within 10 s"})); }
                }
            }
            AnyClient::Async(_) | AnyClient::Ws(_) => {
                let mut hs = vec![];
                for c in 1..=plan.callers as u64 {
                    log.push(json!({"ev": "start", "c": c}));
                    let path = format!("/c{c}");
                    let body = if plan.cancel_queued && c == 1 { json!({"c": c, "pad": "x".repeat(8 << 20)}) } else { json!({"c": c}) };
                    let log2 = log.clone();
                    let h = match &client {
                        AnyClient::Async(cl) => { let cl = cl.clone(); rt.spawn(async move {
                            let r = match timeout { Some(t) => cl.call_json_with_timeout(&path, &body, t).await, None => cl.call_json(&path, &body).await };
                            let (cls, rid, rtag, msg) = classify(r);
                            log2.push(json!({"ev": "ret", "c": c, "cls": cls, "rid": rid, "rtag": rtag, "msg": msg}));
                        }) }
                        AnyClient::Ws(cl) => { let cl = cl.clone(); rt.spawn(async move {
                            let r = match timeout { Some(t) => cl.call_json_with_timeout(&path, &body, t).await, None => cl.call_json(&path, &body).await };
                            let (cls, rid, rtag, msg) = classify(r);
                            log2.push(json!({"ev": "ret", "c": c, "cls": cls, "rid": rid, "rtag": rtag, "msg": msg}));
                        }) }
                        _ => unreachable!(),
                    };
                    hs.push((c, h));
                    std::thread::sleep(Duration::from_micros(if plan.cancel_queued { 30_000 } else { 300 }));
                }
                big_done = extra_step(&client, plan, rt, log, &go, from_seq);
                if plan.ser_fail { std::thread::sleep(Duration::from_millis(30)); ser_release.store(true, Ordering::SeqCst); std::thread::sleep(Duration::from_millis(20)); }
                if plan.cancel_queued {
                    // caller 1 is stuck writing (the peer reads nothing yet), caller 2 waits for the writer: cancel caller 2
                    std::thread::sleep(Duration::from_millis(80));
                    for (c, h) in &hs { if *c == 2 { h.abort(); log.push(json!({"ev": "ret", "c": c, "cls": "cancelled", "rid": 0, "rtag": 0, "msg": "task aborted while waiting for the writer"})); } }
                    std::thread::sleep(Duration::from_millis(20));
                    go.store(true, Ordering::SeqCst);
                }
                // cancellation: abort the chosen callers once the server has read their requests
                if !plan.cancel.is_empty() {
                    let t0 = Instant::now();
                    loop {
                        let seen = log.ev.lock().unwrap().iter().filter(|(_, e)| e["ev"] == "sent").count();
                        if seen >= plan.read || t0.elapsed() > Duration::from_secs(5) { break; }
                        std::thread::sleep(Duration::from_millis(1));
                    }
                    for (c, h) in &hs {
                        if plan.cancel.contains(&(*c as usize)) {
                            h.abort();
                            log.push(json!({"ev": "ret", "c": c, "cls": "cancelled", "rid": 0, "rtag": 0, "msg": "task aborted"}));
                        }
                    }
                }
                let t0 = Instant::now();
                for (c, h) in hs {
                    if plan.cancel.contains(&(c as usize)) || (plan.cancel_queued && c == 2) { let _ = rt.block_on(h); continue; }
                    let left = watchdog.saturating_sub(t0.elapsed());
                    if rt.block_on(async { tokio::time::timeout(left, h).await }).is_err() {
                        log.push(json!({"ev": "ret", "c": c, "cls": "hung", "rid": 0, "rtag": 0, "msg": "no return within 10 s"}));
                    }
                }
            }
        }
    }
    // forward_message (async client): the request id is the caller's, the client's own counter must not move
    if let (Some(mode), AnyClient::Async(cl)) = (plan.forward, &client) {
        let sent_ids: Vec<u64> = log.ev.lock().unwrap().iter().filter(|(s, e)| *s >= from_seq && e["ev"] == "sent").map(|(_, e)| e["id"].as_u64().unwrap_or(0)).collect();
        let fwd = |c: u64, id: u64, q: &str, t: Duration| {
            log.push(json!({"ev": "start", "c": c}));
            let msg = Message::builder().id(id).query_str(&format!("/{q}{c}")).body_json(&json!({"c": c})).unwrap().build();
            let r = rt.block_on(cl.forward_message_with_timeout(&msg, t));
            let (cls, rid, rtag, m) = match r {
                Ok(Some(resp)) => { let v: Value = resp.json_body().unwrap_or(Value::Null); ("ok".to_string(), v["id"].as_u64().unwrap_or(0), v["tag"].as_u64().unwrap_or(0), String::new()) }
                Ok(None) => ("err".to_string(), 0, 0, "no response to a non-notify forward".to_string()),
                Err(RepeError::Io(e)) if e.kind() == std::io::ErrorKind::TimedOut => ("timeout".to_string(), 0, 0, e.to_string()),
                Err(e) => ("err".to_string(), 0, 0, e.to_string().chars().take(80).collect()),
            };
            log.push(json!({"ev": "ret", "c": c, "cls": cls, "rid": rid, "rtag": rtag, "msg": m}));
        };
        let base_c = plan.callers as u64 + 10;
        match mode {
            // the id of a call that has long finished (the lowest one): accepted, answered - and the counter stays where it was
            "low" => if let Some(id) = sent_ids.iter().copied().min() { fwd(base_c, id, "f", Duration::from_secs(5)); },
            // a forwarded request nobody answers: it times out and leaves nothing behind - the same id can be used again at once
            "timeout" => { fwd(base_c, 900_000, "x", Duration::from_millis(120)); fwd(base_c + 1, 900_000, "f", Duration::from_secs(5)); }
            _ => {}
        }
    }
    // one more call on the same client: must fail promptly after a fault, succeed otherwise
    let later = plan.callers as u64 + 1;
    log.push(json!({"ev": "start", "c": later}));
    let (tx, rx) = std::sync::mpsc::channel();
    match &client {
        // no per-call timeout: after a failure the call must fail by itself, not be rescued by a timer
        AnyClient::Sync(cl) => { let cl = cl.clone(); std::thread::spawn(move || { let _ = tx.send(classify(cl.call_json(&format!("/c{later}"), &json!({"c": later})))); }); }
        AnyClient::Async(cl) => { let cl = cl.clone(); rt.spawn(async move { let _ = tx.send(classify(cl.call_json(&format!("/c{later}"), &json!({"c": later})).await)); }); }
        AnyClient::Ws(cl) => { let cl = cl.clone(); rt.spawn(async move { let _ = tx.send(classify(cl.call_json(&format!("/c{later}"), &json!({"c": later})).await)); }); }
    }
    // give the client's reader a moment to notice a dead connection, as an application calling "later" would
    match rx.recv_timeout(watchdog) {
        Ok((cls, rid, rtag, msg)) => log.push(json!({"ev": "ret", "c": later, "cls": cls, "rid": rid, "rtag": rtag, "msg": msg})),
        Err(_) => log.push(json!({"ev": "ret", "c": later, "cls": "hung", "rid": 0, "rtag": 0, "msg": "no return within 10 s"})),
    }
    if let Some(d) = &big_done {
        let t0 = Instant::now();
        while !d.load(Ordering::SeqCst) && t0.elapsed() < watchdog { std::thread::sleep(Duration::from_millis(2)); }
        if !d.load(Ordering::SeqCst) { log.push(json!({"ev": "ret", "c": plan.callers as u64 + 2, "cls": "hung", "rid": 0, "rtag": 0, "msg": "no return within 10 s"})); }
    }
    if plan.wt_big { go.store(true, Ordering::SeqCst); }
    // let a late response (after a timeout / cancel) arrive and be discarded before looking at the map
    std::thread::sleep(Duration::from_millis(if plan.timeout_ms.is_some() || !plan.cancel.is_empty() { 150 } else { 20 }));
    log.push(json!({"ev": "after", "pending": client.pending_len(), "sub_ended": sub_ended.load(Ordering::SeqCst), "ws": kind == Kind::Ws && plan.subscribe}));
    drop(client);
    let _ = srv_thread.join();
}

/// collide / big_writer: the extra client-side step performed once the server has read the plan's requests
fn extra_step(client: &AnyClient, plan: &Plan, rt: &tokio::runtime::Runtime, log: &Arc<Log>, go: &Arc<std::sync::atomic::AtomicBool>, from_seq: u64) -> Option<Arc<std::sync::atomic::AtomicBool>> {
    if !(plan.collide || plan.big_writer) { return None; }
    let t0 = Instant::now();
    let sent_ids = || -> Vec<u64> { log.ev.lock().unwrap().iter().filter(|(s, e)| *s >= from_seq && e["ev"] == "sent").map(|(_, e)| e["id"].as_u64().unwrap_or(0)).collect() };
    while sent_ids().len() < plan.read && t0.elapsed() < Duration::from_secs(5) { std::thread::sleep(Duration::from_millis(1)); }
    let mut done = None;
    if plan.collide {
        if let (AnyClient::Async(cl), Some(id)) = (client, sent_ids().first().copied()) {
            let msg = Message::builder().id(id).query_str("/c99").body_json(&json!({"c": 99})).unwrap().build();
            let r = rt.block_on(cl.forward_message_with_timeout(&msg, Duration::from_millis(300)));
            let cls = match &r { Ok(_) => "ok", Err(RepeError::Io(e)) if e.kind() == std::io::ErrorKind::TimedOut => "timeout", Err(_) => "err" };
            log.push(json!({"ev": "dupreg", "id": id, "cls": cls, "msg": r.err().map(|e| e.to_string().chars().take(60).collect::<String>()).unwrap_or_default()}));
        }
    }
    if plan.big_writer {
        let c = plan.callers as u64 + 2;
        let body = json!({"c": c, "pad": "x".repeat(8 << 20)});
        let path = format!("/c{c}");
        log.push(json!({"ev": "start", "c": c}));
        let d = Arc::new(std::sync::atomic::AtomicBool::new(false));
        let (d2, log2) = (d.clone(), log.clone());
        match client {
            AnyClient::Sync(cl) => { let cl = cl.clone(); std::thread::spawn(move || {
                let (cls, rid, rtag, msg) = classify(cl.call_json(&path, &body));
                log2.push(json!({"ev": "ret", "c": c, "cls": cls, "rid": rid, "rtag": rtag, "msg": msg})); d2.store(true, Ordering::SeqCst);
            }); }
            AnyClient::Async(cl) => { let cl = cl.clone(); rt.spawn(async move {
                let (cls, rid, rtag, msg) = classify(cl.call_json(&path, &body).await);
                log2.push(json!({"ev": "ret", "c": c, "cls": cls, "rid": rid, "rtag": rtag, "msg": msg})); d2.store(true, Ordering::SeqCst);
            }); }
            AnyClient::Ws(cl) => { let cl = cl.clone(); rt.spawn(async move {
                let (cls, rid, rtag, msg) = classify(cl.call_json(&path, &body).await);
                log2.push(json!({"ev": "ret", "c": c, "cls": cls, "rid": rid, "rtag": rtag, "msg": msg})); d2.store(true, Ordering::SeqCst);
            }); }
        }
        std::thread::sleep(Duration::from_millis(80)); // by now it is stuck mid-write: the peer reads nothing
        done = Some(d);
    }
    go.store(true, Ordering::SeqCst);
    done
}

// ---------------------------------------------------------------------------
// spec -> impl: ClientMux behaviours (MC_ClientMuxGen, TLC simulation mode) single-stepped on the real clients
// through the probes cm_allocated:<id>, cm_registered:<id>, cm_written:<id> (callers) and cm_reader_read (reader).

fn replay_one(kind: Kind, beh: &Value, rt: &tokio::runtime::Runtime) -> Result<u64, String> {
    use repe::verif;
    let steps = beh["steps"].as_array().ok_or("steps")?;
    let ncallers = beh["results"].as_array().map(|a| a.len()).unwrap_or(0) as u64;
    verif::release_all();
    verif::gate("cm_reader_read");
    verif::gate("cm_fail_start");
    verif::gate("cm_fail_mid");
    verif::gate("cm_fail_drained");
    for id in 1..=ncallers + 1 {
        verif::gate(&format!("cm_allocated:{id}"));
        verif::gate(&format!("cm_registered:{id}"));
        verif::gate(&format!("cm_written:{id}"));
        // the caller has been handed its response and has not yet looked at it: the specification's Take
        verif::gate(&format!("cm_received:{id}"));
    }
    // forwarded requests (forward_message, async client): their own probes, named after the id the caller chose
    let has_forward = steps.iter().any(|st| st[0] == "AllocF");
    if has_forward {
        for id in 1..=ncallers + 9 {
            verif::gate(&format!("cmf_before_register:{id}"));
            verif::gate(&format!("cmf_registered:{id}"));
            verif::gate(&format!("cmf_written:{id}"));
        }
    }
    let mut forwarders: std::collections::HashSet<u64> = Default::default();
    let listener = TcpListener::bind("127.0.0.1:0").unwrap();
    let addr = listener.local_addr().unwrap();
    let acc = std::thread::spawn(move || Srv::accept(&listener, kind));
    let client = match kind {
        Kind::Sync => Client::connect(addr).map(AnyClient::Sync),
        Kind::Async => rt.block_on(AsyncClient::connect(addr)).map(AnyClient::Async),
        Kind::Ws => rt.block_on(WebSocketClient::connect(&format!("ws://{addr}"))).map(AnyClient::Ws),
    }.map_err(|e| format!("connect: {e}"))?;
    let mut srv = acc.join().map_err(|_| "accept")?;
    let wait = Duration::from_secs(5);
    let mut next_id = 1u64;
    let mut id_of: std::collections::HashMap<u64, u64> = Default::default();
    let mut rx_of: std::collections::HashMap<u64, std::sync::mpsc::Receiver<(String, u64, u64, String)>> = Default::default();
    let mut executed = 0u64;
    let finish = |client: AnyClient, e: Result<u64, String>| -> Result<u64, String> {
        verif::release_all();
        drop(client);
        e
    };
    for (i, st) in steps.iter().enumerate() {
        let (label, x, want_pending) = (st[0].as_str().unwrap_or(""), st[1].as_u64().unwrap_or(0), st[2].as_u64().unwrap_or(0) as usize);
        let fail = |m: String| -> String { format!("step {i} {label}({x}): {m}") };
        match label {
            "Alloc" => {
                let id = next_id; next_id += 1;
                id_of.insert(x, id);
                let (tx, rx) = std::sync::mpsc::channel();
                let (path, body) = (format!("/c{x}"), json!({"c": x}));
                match &client {
                    AnyClient::Sync(c) => { let c = c.clone(); std::thread::spawn(move || { let _ = tx.send(classify(c.call_json(&path, &body))); }); }
                    AnyClient::Async(c) => { let c = c.clone(); rt.spawn(async move { let _ = tx.send(classify(c.call_json(&path, &body).await)); }); }
                    AnyClient::Ws(c) => { let c = c.clone(); rt.spawn(async move { let _ = tx.send(classify(c.call_json(&path, &body).await)); }); }
                }
                rx_of.insert(x, rx);
                if !verif::await_parked(&format!("cm_allocated:{id}"), 1, wait) { return finish(client, Err(fail(format!("the caller did not stop after allocating request id {id} (ids must be issued in allocation order)")))); }
            }
            "AllocF" => {
                let AnyClient::Async(c) = &client else { return finish(client, Err(fail("forward_message exists on the async client only".into()))) };
                let id = st[3].as_u64().unwrap_or(0);
                id_of.insert(x, id);
                forwarders.insert(x);
                let (tx, rx) = std::sync::mpsc::channel();
                let msg = Message::builder().id(id).query_str(&format!("/c{x}")).query_format_code(1).body_json(&json!({"c": x})).unwrap().build();
                let c = c.clone();
                rt.spawn(async move {
                    let r = c.forward_message(&msg).await;
                    let out = match r {
                        Ok(Some(resp)) if resp.header.ec != 0 => parse_err_marker(&String::from_utf8_lossy(&resp.body)).map(|(i, t)| ("ok".to_string(), i, t, "error reply".to_string())).unwrap_or(("err".into(), 0, 0, "unparsable error reply".into())),
                        Ok(Some(resp)) => { let v: Value = resp.json_body().unwrap_or(Value::Null); ("ok".to_string(), v["id"].as_u64().unwrap_or(0), v["tag"].as_u64().unwrap_or(0), String::new()) }
                        Ok(None) => ("err".to_string(), 0, 0, "no response".to_string()),
                        Err(e) if e.to_string().contains("already pending") => ("exists".to_string(), 0, 0, e.to_string()),
                        Err(e) => ("err".to_string(), 0, 0, e.to_string().chars().take(80).collect()),
                    };
                    let _ = tx.send(out);
                });
                rx_of.insert(x, rx);
                if !verif::await_parked(&format!("cmf_before_register:{id}"), 1, wait) { return finish(client, Err(fail(format!("the forwarding caller did not reach the point before registering id {id}")))); }
            }
            "RegisterF" => {
                let id = id_of[&x];
                verif::release(&format!("cmf_before_register:{id}"));
                if !verif::await_parked(&format!("cmf_registered:{id}"), 1, wait) {
                    let early = rx_of.get(&x).and_then(|rx| rx.try_recv().ok());
                    return finish(client, Err(fail(format!("the forwarded request with id {id} was not registered (the specification: that id is free); the caller returned {early:?}"))));
                }
            }
            "RegisterFRefused" => {
                let id = id_of[&x];
                verif::release(&format!("cmf_before_register:{id}"));
                // refused: the caller returns at once (checked at its Take below? no Take follows a refusal: check here)
                let got = rx_of.remove(&x).and_then(|rx| rx.recv_timeout(wait).ok());
                match got {
                    Some((cls, _, _, _)) if cls == "exists" => {}
                    other => return finish(client, Err(fail(format!("forwarding id {id} while it is in flight returned {other:?}, the specification: refused (already pending)")))),
                }
            }
            "Write" if forwarders.contains(&x) => {
                let id = id_of[&x];
                verif::release(&format!("cmf_registered:{id}"));
                if !verif::await_parked(&format!("cmf_written:{id}"), 1, wait) { return finish(client, Err(fail("the forwarding caller did not finish writing its request".into()))); }
                verif::release(&format!("cmf_written:{id}"));
            }
            "Register" => {
                let id = id_of[&x];
                verif::release(&format!("cm_allocated:{id}"));
                if !verif::await_parked(&format!("cm_registered:{id}"), 1, wait) { return finish(client, Err(fail("the caller did not reach the point after registering".into()))); }
            }
            "Write" => {
                let id = id_of[&x];
                verif::release(&format!("cm_registered:{id}"));
                if !verif::await_parked(&format!("cm_written:{id}"), 1, wait) { return finish(client, Err(fail("the caller did not finish writing its request".into()))); }
                verif::release(&format!("cm_written:{id}"));
            }
            "SrvRead" => match srv.read_req(wait) {
                Some((id, _)) if id == x => {}
                other => return finish(client, Err(fail(format!("the server read {other:?}, the specification's wire has request id {x} first")))),
            },
            "WriteFail" => {
                // the writer is already shut: the write fails, the caller removes its own entry and returns the error
                let id = id_of[&x];
                verif::release(&format!("cm_registered:{id}"));
                let got = rx_of.remove(&x).and_then(|rx| rx.recv_timeout(wait).ok());
                match got {
                    Some((cls, _, _, _)) if cls == "err" => {}
                    Some((cls, rid, rtag, msg)) => return finish(client, Err(fail(format!("caller {x} wrote on a shut writer and returned ({cls}, id {rid}, tag {rtag}; {msg}) instead of an error")))),
                    None => return finish(client, Err(fail(format!("caller {x} wrote on a shut writer and did not return (parked after a successful write: {})", verif::await_parked(&format!("cm_written:{id}"), 1, Duration::from_millis(1)))))),
                }
            }
            "SrvClose" => { let _ = srv.stream().shutdown(Shutdown::Write); }
            "SrvMalformed" => { if matches!(srv, Srv::Ws(_)) { srv.send_text(); } else { let _ = srv.stream().try_clone().map(|mut s| s.write_all(&[0xAB; 64])); } }
            "Fail1" => {
                verif::release("cm_fail_start");
                if !verif::await_parked("cm_fail_mid", 1, wait) { return finish(client, Err(fail("the failing reader did not reach the point between shutting the writer and draining the pending map".into()))); }
            }
            "Fail2" => {
                // the step is over when the pending map HAS BEEN drained (leaving the cm_fail_mid probe is not enough: a
                // descheduled reader would drain a registration the specification places after this step)
                verif::release("cm_fail_mid");
                if !verif::await_parked("cm_fail_drained", 1, wait) { return finish(client, Err(fail("the failing reader did not finish draining the pending map".into()))); }
                let before = verif::passed("cm_fail_drained");
                verif::release("cm_fail_drained");
                // and it must have LEFT the probe before the gate can be closed again for the next behaviour
                let t0 = Instant::now();
                while verif::passed("cm_fail_drained") == before { if t0.elapsed() > wait { return finish(client, Err(fail("the failing reader did not leave the probe after draining".into()))); } std::thread::sleep(Duration::from_micros(100)); }
            }
            // in behaviours with forwarded requests every other reply is an ERROR reply (it answers the call all the same)
            "SrvReply" => { if has_forward && x % 2 == 1 { srv.send(&err_frame(x, x)); } else { srv.send(&resp_frame(x, x)); } }
            "SrvJunk" => { if x == 0 { srv.send(&resp_frame(if i % 2 == 0 { 0 } else { 777_000 + i as u64 }, 99)); } else { srv.send(&resp_frame(x, 99)); } }
            "Recv" if x == 1 => { if !verif::await_parked("cm_fail_start", 1, wait) { return finish(client, Err(fail("the reader did not start failing the connection after the fault".into()))); } }
            "Dispatch" if x == 1 => {}
            "Recv" => { if !verif::await_parked("cm_reader_read", 1, wait) { return finish(client, Err(fail("the reader did not take the next frame".into()))); } }
            "Dispatch" => {
                let before = verif::passed("cm_reader_read");
                verif::step("cm_reader_read");
                let t0 = Instant::now();
                while verif::passed("cm_reader_read") == before { if t0.elapsed() > wait { return finish(client, Err(fail("the reader did not leave the probe".into()))); } std::thread::sleep(Duration::from_micros(100)); }
            }
            "Take" => {
                if !forwarders.contains(&x) { if let Some(id) = id_of.get(&x) { verif::release(&format!("cm_received:{id}")); } }
                let got = rx_of.remove(&x).and_then(|rx| rx.recv_timeout(wait).ok());
                let want = &beh["results"][(x - 1) as usize];
                match got {
                    Some((cls, rid, rtag, msg)) => {
                        if json!([cls, rid, rtag]) != *want { return finish(client, Err(fail(format!("caller {x} returned ({cls}, id {rid}, tag {rtag}; {msg}), the specification says {want}")))); }
                    }
                    None => return finish(client, Err(fail(format!("caller {x} did not return although its response was dispatched")))),
                }
            }
            other => return finish(client, Err(fail(format!("unknown label {other}")))),
        }
        // the abstract state after the step: size of the pending map (poll briefly: Dispatch / Take complete asynchronously)
        let t0 = Instant::now();
        loop {
            let p = client.pending_len();
            if p == want_pending { break; }
            if t0.elapsed() > Duration::from_secs(2) { return finish(client, Err(fail(format!("pending map holds {p} entries, the specification {want_pending}")))); }
            std::thread::sleep(Duration::from_micros(200));
        }
        executed += 1;
    }
    finish(client, Ok(executed))
}

pub fn replay(a: &Args) -> i32 {
    let kind = match a.str("client", "sync").as_str() { "sync" => Kind::Sync, "async" => Kind::Async, _ => Kind::Ws };
    let rt = tokio::runtime::Builder::new_multi_thread().worker_threads(4).enable_all().build().unwrap();
    let behs = util::tlc_tagged_json(&a.req("behaviours"), "BEH");
    let mut seen = std::collections::HashSet::new();
    let (mut n, mut steps) = (0u64, 0u64);
    let mut failures: Vec<Value> = vec![];
    repe::verif::enable(true);
    for b in &behs {
        if !seen.insert(b["steps"].to_string()) { continue; }
        if n >= a.u64("max", 1_000_000) { break; }
        n += 1;
        match replay_one(kind, b, &rt) {
            Ok(k) => steps += k,
            Err(e) => { if failures.len() < 10 { failures.push(json!({"client": kind.name(), "what": e, "behaviour": b})); } if failures.len() >= 3 { break; } }
        }
    }
    repe::verif::release_all();
    repe::verif::enable(false);
    util::write_json(&a.req("out"), &json!({"client": kind.name(), "behaviours": n, "steps": steps, "failures": failures}));
    rt.shutdown_timeout(Duration::from_secs(2));
    0
}

fn permutations(n: usize) -> Vec<Vec<usize>> {
    fn rec(cur: &mut Vec<usize>, used: &mut Vec<bool>, n: usize, out: &mut Vec<Vec<usize>>) {
        if cur.len() == n { out.push(cur.clone()); return; }
        for i in 0..n { if !used[i] { used[i] = true; cur.push(i); rec(cur, used, n, out); cur.pop(); used[i] = false; } }
    }
    let mut out = vec![];
    rec(&mut vec![], &mut vec![false; n], n, &mut out);
    out
}

pub fn run(a: &Args) -> i32 {
    let kind = match a.str("client", "sync").as_str() { "sync" => Kind::Sync, "async" => Kind::Async, _ => Kind::Ws };
    let mode = a.str("mode", "c04");
    let n = a.usize("callers", 4);
    let shard = a.usize("shard", 0);
    let shards = a.usize("shards", 1).max(1);
    let mut rng = StdRng::seed_from_u64(a.u64("seed", 1) ^ (shard as u64) << 32);
    let rt = tokio::runtime::Builder::new_multi_thread().worker_threads(4).enable_all().build().unwrap();
    let log = Arc::new(Log { seq: AtomicU64::new(0), ev: Mutex::new(vec![]) });
    let mut plans: Vec<Plan> = vec![];
    let base = |callers: usize| Plan { callers, read: callers, order: (0..callers).collect(), junk: vec![], fault: None, timeout_ms: None, late: vec![], cancel: vec![], batch: false, subscribe: true, wt_big: false, ser_fail: false, cancel_queued: false, notifies: 0, forward: None, collide: false, big_writer: false };
    if mode == "c04" {
        // every reply order for n callers, with one junk frame rotating through kinds and positions
        let junk_kinds: Vec<&'static str> = if kind == Kind::Ws { vec!["none", "unknown", "dup", "notify", "unknown0"] } else { vec!["none", "unknown", "dup", "unknown0"] };
        for (i, p) in permutations(n).into_iter().enumerate() {
            let mut pl = base(n);
            pl.order = p;
            let jk = junk_kinds[i % junk_kinds.len()];
            if jk != "none" { pl.junk = vec![((i / junk_kinds.len()) % n, jk)]; }
            // every other notify scenario runs WITHOUT a subscriber: the frame must then be dropped, never delivered to a call
            pl.subscribe = !(jk == "notify" && (i / junk_kinds.len()) % 2 == 1);
            plans.push(pl);
        }
        // random orders with many callers, several junk frames
        for _ in 0..a.usize("big", 2) {
            let m = a.usize("big-callers", 64);
            let mut pl = base(m);
            pl.order.shuffle(&mut rng);
            pl.junk = (0..6).map(|_| (rng.gen_range(0..m), junk_kinds[rng.gen_range(1..junk_kinds.len())])).collect();
            plans.push(pl);
        }
        // a forward_message that reuses the id of a call in flight: refused, and the call still gets its own response
        if kind == Kind::Async {
            for m in [1usize, 3, 6] {
                let mut pl = base(m);
                pl.order.shuffle(&mut rng);
                pl.collide = true;
                plans.push(pl);
            }
        }
        // forward_message after the calls: a finished call's id (the counter must not be rewound), and one that times out
        if kind == Kind::Async {
            for (m, f) in [(2usize, "low"), (5, "low"), (1, "timeout"), (3, "timeout")] {
                let mut pl = base(m);
                pl.order.shuffle(&mut rng);
                pl.forward = Some(f);
                plans.push(pl);
            }
        }
        // the client's own notifies share the id counter with its calls: ids stay distinct, and a frame answering a
        // notify's id is nobody's response
        for (m, k) in [(1usize, 1usize), (3, 2), (4, 3)] {
            let mut pl = base(m);
            pl.order.shuffle(&mut rng);
            pl.notifies = k;
            pl.junk = vec![(0, "notify_id")];
            plans.push(pl);
        }
        // a call whose body fails to serialize (after taking an id) overlaps the others: ids stay distinct afterwards
        for m in [1usize, 3] {
            let mut pl = base(m);
            pl.ser_fail = true;
            plans.push(pl);
        }
        // batches
        for bi in 0..a.usize("batches", 6) {
            // sizes around the batch implementations' internal window sizes too
            let m = if bi < 3 { [33usize, 40, 65][bi] } else { rng.gen_range(2..=16) };
            let mut pl = base(m);
            pl.order.shuffle(&mut rng);
            pl.batch = true;
            plans.push(pl);
        }
    } else {
        // C06: faults at every step with n in flight
        for &inflight in &[0usize, 1, 3, a.usize("max-inflight", 8)] {
            for read in 0..=inflight {
                for answers in [0usize, read / 2, read] {
                    for fk in ["close", "reset", "malformed", "badlen", "hugelen", "truncated"] {
                        if (fk == "truncated" || fk == "reset") && kind == Kind::Ws && fk == "truncated" { continue; }
                        let mut pl = base(inflight);
                        pl.read = read;
                        pl.order = (0..answers.min(read)).collect();
                        pl.fault = Some((fk, answers.min(read)));
                        plans.push(pl);
                    }
                }
            }
        }
        // the connection turns bad while another caller is stuck writing a large request, and the socket stays open:
        // in-flight calls, the stuck writer and every later call must still fail
        for &inflight in &[0usize, 2] {
            for fk in ["badlen_open", "malformed_open"] {
                let mut pl = base(inflight);
                pl.order = vec![];
                pl.fault = Some((fk, 0));
                pl.big_writer = true;
                plans.push(pl);
            }
        }
        if kind == Kind::Sync {
            for m in [1usize, 3] {
                let mut pl = base(m);
                pl.order = vec![];
                pl.wt_big = true;
                plans.push(pl);
            }
        }
        // a caller cancelled while it waits for the writer (behind a large request in progress) leaves nothing behind:
        // the request in progress still completes and is answered
        if kind != Kind::Sync {
            let mut pl = base(2);
            pl.read = 1;
            pl.order = vec![0];
            pl.cancel_queued = true;
            plans.push(pl);
        }
        if kind == Kind::Ws {
            for &inflight in &[0usize, 1, 3] {
                let mut pl = base(inflight);
                pl.order = vec![];
                pl.fault = Some(("close_frame_open", 0));
                plans.push(pl);
            }
        }
        // timeouts racing the response (both orders): late answers for some callers
        for late_n in 0..=3usize {
            for t in [30u64, 60] {
                let mut pl = base(3);
                pl.timeout_ms = Some(t);
                pl.late = (0..late_n).collect();
                pl.order = (0..3).rev().collect();
                plans.push(pl);
            }
        }
        // requests the server never answers: the timed-out entries must not linger in the pending map
        for answered in [vec![], vec![2usize], vec![0, 2]] {
            let mut pl = base(3);
            pl.timeout_ms = Some(30);
            pl.order = answered;
            plans.push(pl);
        }
        // responses landing right at the timeout
        for _ in 0..a.usize("races", 10) {
            let mut pl = base(2);
            pl.timeout_ms = Some(25);
            pl.late = vec![];
            plans.push(pl);
        }
        // a forwarded request (forward_message_with_timeout) that is never answered: it times out and leaves nothing behind
        if kind == Kind::Async {
            for m in [0usize, 2] {
                let mut pl = base(m);
                pl.forward = Some("timeout");
                plans.push(pl);
            }
        }
        // cancellation at the await point after the write (async / ws)
        if kind != Kind::Sync {
            for who in [vec![1usize], vec![2], vec![1, 3], vec![1, 2, 3]] {
                let mut pl = base(3);
                pl.cancel = who.clone();
                plans.push(pl);
                // ... and the cancelled calls never get an answer at all
                let mut pl = base(3);
                pl.order = (0..3).filter(|i| !who.contains(&(i + 1))).collect();
                pl.cancel = who;
                plans.push(pl);
            }
        }
    }
    let mut nplans = 0u64;
    for (i, pl) in plans.iter().enumerate() {
        if i % shards != shard { continue; }
        // a hung call costs a 10 s watchdog: three of them are evidence enough, do not pay for hundreds
        let hung = log.ev.lock().unwrap().iter().filter(|(_, e)| e["cls"] == "hung").count();
        if hung >= 3 { break; }
        nplans += 1;
        run_plan(kind, pl, &rt, &log, &mut rng);
    }
    let mut evs = std::mem::take(&mut *log.ev.lock().unwrap());
    evs.sort_by_key(|(s, _)| *s);
    let mut out = util::NdJson::create(&a.req("out"));
    for (_, e) in &evs { out.push(e); }
    let lines = out.lines;
    out.finish();
    util::write_json(&a.str("summary", "/dev/null"), &json!({"plans": nplans, "events": lines}));
    0
}

// ---------------------------------------------------------------------------
// C02 / C04: the clients' response readers are stream-reading entry points too.  A call is in flight; the server
// sends a well-formed frame nobody is waiting for (unknown id, or a notify nobody subscribed to) whose query and
// body are hostile in content only (long, multi-byte characters straddling every offset around 64 and 128, invalid
// UTF-8, error codes with undecodable messages); then the genuine response.  The reader must survive every one of
// them (no panic anywhere in the process) and the call must return its own response.
fn stray_queries() -> Vec<(String, Vec<u8>)> {
    let mut v: Vec<(String, Vec<u8>)> = vec![("empty".into(), vec![]), ("ascii300".into(), vec![b'q'; 300])];
    for (name, ch) in [("2byte", "é"), ("3byte", "€"), ("4byte", "😀")] {
        for base in [0usize, 30, 61, 62, 63, 64, 125, 126, 127, 128, 253, 254, 255, 256] {
            let mut q = vec![b'/'; base];
            q.extend_from_slice(ch.as_bytes());
            q.extend_from_slice(&vec![b'z'; 40]);
            v.push((format!("{name}@{base}"), q));
        }
    }
    for base in [0usize, 63, 64, 127, 255] {
        let mut q = vec![b'/'; base];
        q.extend_from_slice(&[0xFF, 0xFE, 0x80]);
        q.extend_from_slice(&vec![b'z'; 10]);
        v.push((format!("invalid@{base}"), q));
    }
    v
}

pub fn stray(a: &Args) -> i32 {
    use std::sync::atomic::AtomicU64;
    static PANICS: AtomicU64 = AtomicU64::new(0);
    static LAST: Mutex<String> = Mutex::new(String::new());
    std::panic::set_hook(Box::new(|info| {
        PANICS.fetch_add(1, Ordering::SeqCst);
        *LAST.lock().unwrap_or_else(|e| e.into_inner()) = info.to_string().chars().take(200).collect();
    }));
    let rt = tokio::runtime::Builder::new_multi_thread().worker_threads(4).enable_all().build().unwrap();
    let mut cases: Vec<Value> = vec![];
    let queries = stray_queries();
    for kind in [Kind::Sync, Kind::Async, Kind::Ws] {
        for (qi, (qname, q)) in queries.iter().enumerate() {
            // the stray frame: body and flags rotate with the query
            let flavour = ["resp_json", "resp_err_badmsg", "notify", "resp_utf8_bad", "resp_empty"][qi % 5];
            let listener = TcpListener::bind("127.0.0.1:0").unwrap();
            let addr = listener.local_addr().unwrap();
            let acc = std::thread::spawn(move || Srv::accept(&listener, kind));
            let client = match kind {
                Kind::Sync => Client::connect(addr).map(AnyClient::Sync),
                Kind::Async => rt.block_on(AsyncClient::connect(addr)).map(AnyClient::Async),
                Kind::Ws => rt.block_on(WebSocketClient::connect(&format!("ws://{addr}"))).map(AnyClient::Ws),
            };
            let Ok(client) = client else { continue };
            let Ok(mut srv) = acc.join() else { continue };
            let before = PANICS.load(Ordering::SeqCst);
            let (tx, rx) = std::sync::mpsc::channel();
            let body = json!({"c": 1});
            match &client {
                AnyClient::Sync(c) => { let c = c.clone(); std::thread::spawn(move || { let _ = tx.send(classify(c.call_json_with_timeout("/c1", &body, Duration::from_secs(4)))); }); }
                AnyClient::Async(c) => { let c = c.clone(); rt.spawn(async move { let _ = tx.send(classify(c.call_json_with_timeout("/c1", &body, Duration::from_secs(4)).await)); }); }
                AnyClient::Ws(c) => { let c = c.clone(); rt.spawn(async move { let _ = tx.send(classify(c.call_json_with_timeout("/c1", &body, Duration::from_secs(4)).await)); }); }
            }
            let req = srv.read_req(Duration::from_secs(5));
            let mut outcome = ("noreq".to_string(), 0u64, 0u64, String::new());
            if let Some((id, _)) = req {
                // ids nobody waits for: 0 (the client's own ids start at 1) and a large one, alternating
                let stray_id = if qi % 2 == 0 { 0 } else { 777_000 + qi as u64 };
                let mut b = Message::builder().id(stray_id).query_bytes(q.clone());
                b = match flavour {
                    "resp_json" => b.body_json(&json!({"id": 0, "tag": 99})).unwrap(),
                    "resp_err_badmsg" => b.error_code(repe::ErrorCode::ApplicationErrorBase).body_bytes(q.clone()).body_format(repe::BodyFormat::Utf8),
                    "notify" => b.notify(true).body_bytes(q.clone()).body_format(repe::BodyFormat::Utf8),
                    "resp_utf8_bad" => b.body_bytes(vec![0xFF; 70]).body_format(repe::BodyFormat::Utf8),
                    _ => b,
                };
                srv.send(&b.build().to_vec());
                // the same hostile query on a frame that DOES match: an error reply to the call in flight would end it, so
                // only the stray one carries it; then the genuine response
                srv.send(&resp_frame(id, 1));
                outcome = rx.recv_timeout(Duration::from_secs(6)).unwrap_or(("hang".to_string(), 0, 0, "the call did not return within 6 s".into()));
            }
            std::thread::sleep(Duration::from_millis(2));
            let panics = PANICS.load(Ordering::SeqCst) - before;
            cases.push(json!({"client": kind.name(), "query": qname, "query_len": q.len(), "flavour": flavour, "cls": outcome.0, "tag": outcome.2, "msg": outcome.3,
                              "panics": panics, "panic_msg": if panics > 0 { LAST.lock().unwrap_or_else(|e| e.into_inner()).clone() } else { String::new() }}));
            drop(client);
        }
    }
    // a response cut at EVERY byte position (header, query, body), then the connection ends: the call in flight must
    // return an error, and no reader may panic on the fragment
    for kind in [Kind::Sync, Kind::Async, Kind::Ws] {
        let probe = Message::builder().id(1).query_str("/a-query-of-20-bytes").body_json(&json!({"id": 1, "tag": 1, "pad": "0123456789"})).unwrap().build().to_vec();
        for cut in 0..probe.len() {
            let listener = TcpListener::bind("127.0.0.1:0").unwrap();
            let addr = listener.local_addr().unwrap();
            let acc = std::thread::spawn(move || Srv::accept(&listener, kind));
            let client = match kind {
                Kind::Sync => Client::connect(addr).map(AnyClient::Sync),
                Kind::Async => rt.block_on(AsyncClient::connect(addr)).map(AnyClient::Async),
                Kind::Ws => rt.block_on(WebSocketClient::connect(&format!("ws://{addr}"))).map(AnyClient::Ws),
            };
            let Ok(client) = client else { continue };
            let Ok(mut srv) = acc.join() else { continue };
            let before = PANICS.load(Ordering::SeqCst);
            let (tx, rx) = std::sync::mpsc::channel();
            let body = json!({"c": 1});
            match &client {
                AnyClient::Sync(c) => { let c = c.clone(); std::thread::spawn(move || { let _ = tx.send(classify(c.call_json_with_timeout("/c1", &body, Duration::from_secs(4)))); }); }
                AnyClient::Async(c) => { let c = c.clone(); rt.spawn(async move { let _ = tx.send(classify(c.call_json_with_timeout("/c1", &body, Duration::from_secs(4)).await)); }); }
                AnyClient::Ws(c) => { let c = c.clone(); rt.spawn(async move { let _ = tx.send(classify(c.call_json_with_timeout("/c1", &body, Duration::from_secs(4)).await)); }); }
            }
            let mut outcome = ("noreq".to_string(), 0u64, 0u64, String::new());
            if let Some((id, _)) = srv.read_req(Duration::from_secs(5)) {
                let mut f = probe.clone();
                f[16..24].copy_from_slice(&id.to_le_bytes());
                srv.send(&f[..cut]);
                srv.close(false);
                outcome = rx.recv_timeout(Duration::from_secs(6)).unwrap_or(("hang".to_string(), 0, 0, "the call did not return within 6 s".into()));
            }
            std::thread::sleep(Duration::from_millis(2));
            let panics = PANICS.load(Ordering::SeqCst) - before;
            // the expected class is "err": the connection ended with the response incomplete
            cases.push(json!({"client": kind.name(), "query": format!("cut@{cut}"), "query_len": 20, "flavour": "truncated_response", "cls": if outcome.0 == "err" { "ok".to_string() } else { format!("not-an-error:{}", outcome.0) }, "tag": outcome.2, "msg": outcome.3,
                              "panics": panics, "panic_msg": if panics > 0 { LAST.lock().unwrap_or_else(|e| e.into_inner()).clone() } else { String::new() }}));
            drop(client);
        }
    }
    let _ = std::panic::take_hook();
    util::write_json(&a.req("out"), &json!({"cases": cases}));
    rt.shutdown_timeout(Duration::from_secs(2));
    0
}
