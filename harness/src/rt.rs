//! C07 engine: dispatch paths, route precedence and pointer tokens against spec/Router.tla and
//! spec/Pointer.tla.
//!
//! `rt-vectors`: TLC vectors:
//!    tokens : a recording RepeStruct mounted at "" and at "/m" must see exactly the specification's
//!             reference tokens for the path (owned, view and middleware-wrapped dispatch), and
//!             repe::parse_json_pointer must agree;
//!    lookup : routers built in every registration order of (exact /a, registry /a, struct /ab,
//!             mw 4, mw 5): winner, remainder/tokens and middleware hit order as specified.
//! `rt-random` : deep random paths (0..40 segments, empty segments, escapes) and the product
//!             handler kind x body-format code x body bytes dispatched on the owned path, the view
//!             path and behind a forwarding middleware chain; recorded for Trace_Router.

use crate::util::{self, Args};
use rand::rngs::StdRng;
use rand::{Rng, SeedableRng};
use repe::server::{HandlerErased, Middleware, Next};
use repe::{CallContext, ErrorCode, Message, MessageView, Registry, RepeError, RepeStruct, Router, StructError};
use serde_json::{json, Value};
use std::cell::RefCell;
use std::sync::Arc;

thread_local! {
    static HITS: RefCell<Vec<u64>> = const { RefCell::new(Vec::new()) };
}

struct Rec(u64);
impl RepeStruct for Rec {
    fn repe_handle(&mut self, segments: &[&str], body: Option<Value>) -> Result<Option<Value>, StructError> {
        Ok(Some(json!({"struct": self.0, "segments": segments, "body": body})))
    }
}
struct Adder;
impl repe::server::JsonTypedHandler for Adder {
    type In = In;
    type Out = In;
    fn call(&self, input: In) -> Result<In, (ErrorCode, String)> { Ok(In { a: input.a + 4 }) }
}
struct Mw(u64);
impl Middleware for Mw {
    fn handle(&self, req: &Message, next: Next<'_>) -> Result<Message, RepeError> {
        HITS.with(|h| h.borrow_mut().push(self.0));
        next.run(req)
    }
}

fn chars(v: &Value) -> String {
    v.as_array().unwrap().iter().map(|c| c.as_str().unwrap()).collect()
}
fn toks(v: &Value) -> Vec<String> {
    v.as_array().unwrap().iter().map(chars).collect()
}

/// (summary of the outcome, middleware hits) of dispatching `req` through `h` on the owned or view path
fn dispatch(h: &Arc<dyn HandlerErased>, req: &Message, view: bool) -> (Value, Vec<u64>) {
    HITS.with(|x| x.borrow_mut().clear());
    let r = std::panic::catch_unwind(std::panic::AssertUnwindSafe(|| {
        if view {
            let frame = req.to_vec();
            let v = MessageView::from_slice(&frame).unwrap();
            let path = req.query_utf8();
            h.handle_view(&v, &CallContext::detached(&path))
        } else {
            h.handle(req)
        }
    }));
    let hits = HITS.with(|x| x.borrow().clone());
    let s = match r {
        Err(_) => json!({"kind": "panic"}),
        Ok(Err(e)) => json!({"kind": "err", "ec": e.to_error_code() as u32}),
        // Handlers may leave the response query empty ("unstamped"); every transport then echoes the
        // request's query (message::response_echo_query). Compare what the client would receive.
        Ok(Ok(m)) => json!({"kind": "resp", "ec": m.header.ec, "id": m.header.id, "notify": m.header.notify, "bfmt": m.header.body_format, "qfmt": m.header.query_format,
                            "query": util::hex(if m.query.is_empty() { &req.query } else { &m.query }), "body": util::hex(&m.body)}),
    };
    (s, hits)
}

fn body_json(s: &Value) -> Option<Value> {
    let b = s["body"].as_str()?;
    let bytes: Vec<u8> = (0..b.len() / 2).map(|k| u8::from_str_radix(&b[2 * k..2 * k + 2], 16).unwrap()).collect();
    serde_json::from_slice(&bytes).ok()
}

pub fn vectors(a: &Args) -> i32 {
    // lookups are also sent through a real blocking server per registration order (the servers' own routing step sits
    // in front of Router::get): one server and one connection per order, reused
    let mut servers: std::collections::HashMap<String, std::net::TcpStream> = Default::default();
    std::panic::set_hook(Box::new(|_| {}));
    let mut failures: Vec<Value> = vec![];
    let mut counts = std::collections::BTreeMap::<String, u64>::new();
    let mut fail = |sig: &str, what: String, v: &Value, failures: &mut Vec<Value>| {
        if failures.iter().filter(|f| f["sig"] == json!(sig)).count() < 3 {
            failures.push(json!({"sig": sig, "what": what, "vector": v}));
        }
    };
    let (r0, _) = Router::new().with_struct("", Rec(9));
    let (rm, _) = Router::new().with_middleware(Mw(4)).with_struct("/m", Rec(8));
    let mut evals = 0u64;
    for v in util::tlc_tagged_json(&a.req("vectors"), "VEC") {
        let kind = v["kind"].as_str().unwrap();
        *counts.entry(kind.to_string()).or_insert(0) += 1;
        match kind {
            "tokens" => {
                let path = chars(&v["path"]);
                let want = toks(&v["tokens"]);
                let lib = repe::parse_json_pointer(&path);
                evals += 1;
                if lib != want {
                    fail("tokens:parse_json_pointer", format!("parse_json_pointer({path:?}) = {lib:?}, specification {want:?}"), &v, &mut failures);
                }
                // eval_json_pointer must find the leaf of the object nested along the specification's tokens
                let mut doc = json!("leaf");
                for t in want.iter().rev() { doc = Value::Object(serde_json::Map::from_iter([(t.clone(), doc)])); }
                if repe::eval_json_pointer(&doc, &path) != Some(&json!("leaf")) {
                    fail("tokens:eval_json_pointer", format!("eval_json_pointer(nested({want:?}), {path:?}) = {:?}", repe::eval_json_pointer(&doc, &path)), &v, &mut failures);
                }
                for (router, prefix, tag) in [(&r0, "", "root-mount"), (&rm, "/m", "prefix-mount+mw")] {
                    let full = format!("{prefix}{path}");
                    let req = Message::builder().id(1).query_str(&full).build();
                    let Some(h) = router.get(&full) else {
                        fail("tokens:not-routed", format!("{full:?} is not routed to the struct mounted at {prefix:?}"), &v, &mut failures);
                        continue;
                    };
                    for view in [false, true] {
                        evals += 1;
                        let (s, _) = dispatch(&h, &req, view);
                        let got: Option<Vec<String>> = body_json(&s).and_then(|b| b["segments"].as_array().map(|a| a.iter().map(|x| x.as_str().unwrap_or("?").to_string()).collect()));
                        if got.as_ref() != Some(&want) {
                            fail(&format!("tokens:{tag}:{}", if view { "view" } else { "owned" }), format!("struct mounted at {prefix:?} saw segments {got:?} for {full:?}, specification {want:?}"), &v, &mut failures);
                        }
                    }
                }
            }
            "lookup" => {
                let mut router = Router::new();
                let reg = Arc::new(Registry::new());
                reg.register_value("/x", json!("from-registry")).unwrap();
                for it in v["order"].as_array().unwrap() {
                    let at = chars(&it["at"]);
                    let name = it["name"].as_u64().unwrap();
                    router = match it["kind"].as_str().unwrap() {
                        "exact" => router.with_json(&at, move |_v| Ok(json!({"exact": name}))),
                        "registry" => router.with_registry(&at, reg.clone()),
                        "struct" => router.with_struct(&at, Rec(name)).0,
                        _ => router.with_middleware(Mw(name)),
                    };
                }
                let path = chars(&v["path"]);
                let winner = v["winner"].as_u64().unwrap();
                let want_mw: Vec<u64> = v["mw"].as_array().unwrap().iter().map(|x| x.as_u64().unwrap()).collect();
                // a body only for the exact JSON route; mounts are read (an empty body never mutates)
                let req = if v["winner_kind"] == "exact" { Message::builder().id(1).query_str(&path).body_json(&json!({})).unwrap().build() } else { Message::builder().id(1).query_str(&path).build() };
                evals += 1;
                // the same lookup on the wire
                {
                    let key = v["order"].to_string();
                    if !servers.contains_key(&key) {
                        let l = std::net::TcpListener::bind("127.0.0.1:0").unwrap();
                        let addr = l.local_addr().unwrap();
                        let r2 = router.clone();
                        std::thread::spawn(move || { let _ = repe::Server::new(r2).serve(l); });
                        let c = std::net::TcpStream::connect(addr).unwrap();
                        c.set_nodelay(true).ok();
                        c.set_read_timeout(Some(std::time::Duration::from_secs(5))).ok();
                        servers.insert(key.clone(), c);
                    }
                    let c = servers.get_mut(&key).unwrap();
                    let mut wire_req = req.clone();
                    wire_req.header.query_format = 1;
                    let direct = router.get(&path).map(|h| { let mut q = req.clone(); q.header.query_format = 1; dispatch(&h, &q, false).0 });
                    use std::io::Write;
                    let got = if c.write_all(&wire_req.to_vec()).is_ok() { repe::read_message(c).ok() } else { None };
                    match (&direct, &got) {
                        (_, None) => fail("lookup:server:no-answer", format!("{path:?} sent to a blocking server: no response"), &v, &mut failures),
                        (None, Some(m)) => if m.header.ec != ErrorCode::MethodNotFound as u32 {
                            fail("lookup:server:routed", format!("{path:?} is not routed by the router, but the server answered ec {} body {:?}", m.header.ec, String::from_utf8_lossy(&m.body)), &v, &mut failures);
                        },
                        (Some(d), Some(m)) => if d["kind"] == "resp" && (json!(m.header.ec) != d["ec"] || (m.header.ec == 0 && json!(util::hex(&m.body)) != d["body"])) {
                            fail("lookup:server:differs", format!("{path:?}: the server answered ec {} body {:?}, the router's own handler {d}", m.header.ec, String::from_utf8_lossy(&m.body)), &v, &mut failures);
                        },
                    }
                }
                match router.get(&path) {
                    None => {
                        if winner != 0 {
                            fail("lookup:unrouted", format!("{path:?} not routed, specification routes it to item {winner}"), &v, &mut failures);
                        }
                    }
                    Some(h) => {
                        if winner == 0 {
                            fail("lookup:routed", format!("{path:?} routed although no registered route or mount matches"), &v, &mut failures);
                            continue;
                        }
                        for view in [false, true] {
                            let (s, hits) = dispatch(&h, &req, view);
                            if hits != want_mw {
                                fail("lookup:middleware-order", format!("middleware hits {hits:?} for {path:?}, specification {want_mw:?} (every middleware, in registration order)"), &v, &mut failures);
                            }
                            let b = body_json(&s);
                            let ok = match v["winner_kind"].as_str().unwrap() {
                                "exact" => b.as_ref().map(|b| b["exact"] == json!(winner)).unwrap_or(false),
                                "struct" => b.as_ref().map(|b| b["struct"] == json!(winner) && b["segments"] == json!(toks(&v["tokens"]))).unwrap_or(false),
                                "registry" => {
                                    // the registry serves "/x" = "from-registry"; anything else below the prefix is its not-found
                                    let rem = chars(&v["remainder"]);
                                    if rem == "/x" { b == Some(json!("from-registry")) } else { s["kind"] == "resp" }
                                }
                                _ => false,
                            };
                            if !ok {
                                fail(&format!("lookup:wrong-winner:{}", v["winner_kind"].as_str().unwrap()), format!("{path:?} answered {s} but the specification's winner is item {winner} ({})", v["winner_kind"]), &v, &mut failures);
                            }
                        }
                    }
                }
            }
            _ => {}
        }
    }
    util::write_json(&a.req("out"), &json!({"vectors": counts, "evaluations": evals, "failures": failures}));
    0
}

// ---------------------------------------------------------------------------
fn rand_segment(rng: &mut StdRng) -> String {
    const S: [&str; 12] = ["a", "b", "", "0", "17", "a/b", "m~n", "~", "/", "~1", "k.9", "x y"];
    S[rng.gen_range(0..S.len())].to_string()
}
fn esc(t: &str) -> String {
    t.replace('~', "~0").replace('/', "~1")
}

#[derive(serde::Deserialize, serde::Serialize)]
struct In {
    a: i64,
}

pub fn random(a: &Args) -> i32 {
    std::panic::set_hook(Box::new(|_| {}));
    let mut rng = StdRng::seed_from_u64(a.u64("seed", 1));
    let runs = a.usize("runs", 500);
    let mut out = util::NdJson::create(&a.req("out"));
    // (1) deep paths through a struct mounted at /s, plain and behind two middlewares
    let (plain, _) = Router::new().with_struct("/s", Rec(1));
    let (wrapped, _) = Router::new().with_middleware(Mw(4)).with_struct("/s", Rec(1));
    let wrapped = wrapped.with_middleware(Mw(5));
    for _ in 0..runs {
        let n = match rng.gen_range(0..6) { 0 => 0, 1 => 16, 2 => 17, 3 => rng.gen_range(15..19), _ => rng.gen_range(0..41) };
        let segs: Vec<String> = (0..n).map(|_| rand_segment(&mut rng)).collect();
        // escape-free paths take the fast path of the struct dispatcher; make half of them escape-free
        let segs: Vec<String> = if rng.gen_bool(0.5) { segs.into_iter().map(|s| s.replace(['~', '/'], "_")).collect() } else { segs };
        let path: String = format!("/s{}", segs.iter().map(|s| format!("/{}", esc(s))).collect::<String>());
        let req = Message::builder().id(2).query_str(&path).build();
        let mut seen = vec![];
        for (r, tag) in [(&plain, "plain"), (&wrapped, "mw")] {
            let h = r.get(&path).unwrap();
            for view in [false, true] {
                let (s, hits) = dispatch(&h, &req, view);
                let got: Option<Vec<String>> = body_json(&s).and_then(|b| b["segments"].as_array().map(|a| a.iter().map(|x| x.as_str().unwrap_or("?").to_string()).collect()));
                seen.push(json!({"via": format!("{tag}-{}", if view { "view" } else { "owned" }), "segments": got.map(|g| g.iter().map(|t| t.chars().map(|c| c.to_string()).collect::<Vec<_>>()).collect::<Vec<_>>()), "hits": hits}));
            }
        }
        out.push(&json!({"ev": "deep", "path": path.chars().map(|c| c.to_string()).collect::<Vec<_>>(), "root": ["/", "s"], "nseg": n, "seen": seen}));
    }
    // (2) handler kind x body format x body bytes : owned = view = middleware-wrapped
    let build = |mw: bool| -> Router {
        let mut r = Router::new();
        if mw {
            r = r.with_middleware(Mw(4));
        }
        let reg = Arc::new(Registry::new());
        reg.register_value("/v", json!({"k": 1})).unwrap();
        reg.register_function("/f", |p: Option<Value>| Ok(json!({"got": p}))).unwrap();
        r = r
            .with_json("/json", |v| Ok(json!({"echo": v})))
            .with_json("/jsonerr", |_v| Err((ErrorCode::ApplicationErrorBase, "nope".to_string())))
            .with_typed::<In, In, _>("/typed", |x: In| Ok(In { a: x.a + 1 }))
            .with_json_ctx("/ctx", |_c, v| Ok(json!({"ctx": v})))
            .with_typed_slice::<f64, f64, _>("/slice", |xs: Vec<f64>| Ok(xs))
            .with_typed_slice_ref::<f64, f64, _>("/sliceref", |xs: &[f64]| Ok(xs.to_vec()))
            .with_json_blocking("/blocking", |v| Ok(json!({"b": v})))
            .with_typed_ctx::<In, In, _>("/typedctx", |_c: &repe::CallContext, x: In| -> Result<In, (ErrorCode, String)> { Ok(In { a: x.a + 2 }) })
            .with_typed_ctx_blocking::<In, In, _>("/typedctxb", |_c: &repe::CallContext, x: In| -> Result<In, (ErrorCode, String)> { Ok(In { a: x.a + 3 }) })
            .with_handler("/handler", Adder)
            .with_struct_shared::<Rec, std::sync::Mutex<Rec>>("/sts", Arc::new(std::sync::Mutex::new(Rec(4))))
            .with_registry("/reg", reg)
            .with_struct("/st", Rec(3))
            .0;
        if mw {
            r = r.with_middleware(Mw(5));
        }
        r
    };
    let (r_plain, r_mw) = (build(false), build(true));
    let paths = ["/json", "/jsonerr", "/typed", "/ctx", "/slice", "/sliceref", "/blocking", "/typedctx", "/typedctxb", "/handler", "/sts/x", "/reg/v", "/reg/f", "/reg/none", "/st/a/b", "/st"];
    let mut bodies: Vec<(String, Vec<u8>)> = vec![
        ("empty".into(), vec![]), ("json-obj".into(), br#"{"a":5}"#.to_vec()), ("json-num".into(), b"7".to_vec()), ("json-trunc".into(), br#"{"a":"#.to_vec()), ("text".into(), b"hello".to_vec()),
        ("beve-obj".into(), beve::to_vec(&json!({"a": 5})).unwrap()), ("beve-f64s".into(), Message::builder().body_typed_slice(&[1.5f64, 2.5]).build().body),
        ("beve-i32s".into(), Message::builder().body_typed_slice(&[1i32, 2]).build().body), ("beve-trunc".into(), vec![0x64, 0x08, 0x00]), ("binary".into(), vec![0xff, 0x00, 0x80, 0x7f]),
        ("beve-empty-generic".into(), vec![0x05, 0x00]),
        // the alignment-padded typed array as a client builds it for the 9-byte path "/sliceref" (and one with no padding need)
        ("beve-aligned-f64s".into(), Message::builder().query_str("/sliceref").body_aligned_typed_slice(&[1.5f64, 2.5]).build().body),
        ("beve-aligned-u8s".into(), Message::builder().query_str("/sliceref").body_aligned_typed_slice(&[7u8, 8, 9]).build().body),
        ("beve-aligned-empty".into(), Message::builder().query_str("/sliceref").body_aligned_typed_slice::<f64>(&[]).build().body),
        // JSON syntax carrying bytes that are not valid UTF-8 (inside a string, in a key), overlong and surrogate
        // encodings, a BOM, trailing garbage: "arbitrary body bytes" includes these
        ("json-str-ff".into(), b"\"a\xFFb\"".to_vec()), ("json-obj-badutf8".into(), b"{\"a\":\"\xC3\x28\"}".to_vec()), ("json-key-ff".into(), b"{\"\xFF\":1}".to_vec()),
        ("json-overlong".into(), b"\"\xC0\xAF\"".to_vec()), ("json-surrogate".into(), b"\"\xED\xA0\x80\"".to_vec()), ("json-bom".into(), b"\xEF\xBB\xBF{\"a\":5}".to_vec()),
        ("json-trailing".into(), br#"{"a":5} x"#.to_vec()), ("json-ws".into(), b"  \n".to_vec()), ("json-null".into(), b"null".to_vec()), ("json-nul-byte".into(), b"{\"a\":\"\x00\"}".to_vec()),
        ("json-obj-a-ff".into(), b"{\"a\":5,\"s\":\"x\xFEy\"}".to_vec()),
    ];
    // seeded random mutations of well-formed bodies
    let seeds_b: Vec<(String, Vec<u8>)> = bodies.iter().filter(|(n, _)| ["json-obj", "beve-obj", "beve-f64s", "json-obj-a-ff"].contains(&n.as_str())).cloned().collect();
    for (name, b) in seeds_b {
        for k in 0..a.usize("mutations", 6) {
            let mut m = b.clone();
            match rng.gen_range(0..4) {
                0 => { let i = rng.gen_range(0..m.len()); m[i] ^= 1 << rng.gen_range(0..8); }
                1 => { let i = rng.gen_range(0..=m.len()); m.insert(i, rng.r#gen()); }
                2 => { let i = rng.gen_range(0..m.len()); m.remove(i); }
                _ => { let i = rng.gen_range(0..m.len()); m[i] = [0xFF, 0x80, 0x00, 0xC3][rng.gen_range(0..4)]; }
            }
            bodies.push((format!("{name}-mut{k}"), m));
        }
    }
    for path in paths {
        for fmt in [0u16, 1, 2, 3, 4, 77, 0xFFFF] {
            for (bname, body) in &bodies {
                for notify in [false, true] {
                    let req = Message::builder().id(rng.r#gen()).notify(notify).query_str(path).body_bytes(body.clone()).body_format_code(fmt).build();
                    let hp = r_plain.get(path).unwrap();
                    let hm = r_mw.get(path).unwrap();
                    let (o, _) = dispatch(&hp, &req, false);
                    let (v, _) = dispatch(&hp, &req, true);
                    let (mo, hits_o) = dispatch(&hm, &req, false);
                    let (mv, hits_v) = dispatch(&hm, &req, true);
                    out.push(&json!({"ev": "dispatch", "path": path, "fmt": fmt, "body": bname, "notify": notify, "owned": o, "view": v, "mw_owned": mo, "mw_view": mv,
                                     "hits_owned": hits_o, "hits_view": hits_v, "request_query": util::hex(path.as_bytes())}));
                }
            }
        }
    }
    let lines = out.lines;
    out.finish();
    util::write_json(&a.str("summary", "/dev/null"), &json!({"events": lines}));
    0
}
