//! C14 engine: repe::Registry against spec/Registry.tla.
//!
//! `rg-walk` : spec -> impl. Replays the TLC graph of MC_Registry (small scope) on a real
//!             Registry: every edge from a shortest path, every label path to `--depth`;
//!             after every step the call's result and a read of every probe pointer are
//!             compared with the specification.
//! `rg-hist` : impl -> spec. Random sequential (up to 100 ops) and concurrent (up to 4x4)
//!             histories over pointers with escapes, empty tokens, array indices and deep
//!             nesting, directly and through a Router mount, recorded as inv/res events for
//!             the linearizability trace spec Trace_Registry.

use crate::util::{self, Args};
use rand::rngs::StdRng;
use rand::{Rng, SeedableRng};
use repe::{ErrorCode, Message, Registry, RegistryError, Router};
use serde_json::{json, Map, Value};
use std::cell::RefCell;
use std::collections::{BTreeSet, HashMap};
use std::sync::atomic::{AtomicU64, Ordering};
use std::sync::{Arc, Mutex};

type Node = (Vec<String>, String);

thread_local! {
    static CALLS: RefCell<Vec<(String, Value)>> = const { RefCell::new(Vec::new()) };
}

/// serde_json::Value -> flat node set (the representation of Registry.tla)
fn flatten(v: &Value, path: &mut Vec<String>, out: &mut BTreeSet<Node>) {
    match v {
        Value::Object(m) => {
            out.insert((path.clone(), "obj".into()));
            for (k, x) in m {
                path.push(k.clone());
                flatten(x, path, out);
                path.pop();
            }
        }
        Value::Array(a) => {
            out.insert((path.clone(), "arr".into()));
            for (i, x) in a.iter().enumerate() {
                path.push(i.to_string());
                flatten(x, path, out);
                path.pop();
            }
        }
        Value::Null => {
            out.insert((path.clone(), "z".into()));
        }
        Value::Bool(b) => {
            out.insert((path.clone(), if *b { "t" } else { "f" }.into()));
        }
        Value::Number(n) => {
            out.insert((path.clone(), format!("n:{n}")));
        }
        Value::String(s) => {
            out.insert((path.clone(), format!("s:{s}")));
        }
    }
}
fn flat(v: &Value) -> BTreeSet<Node> {
    let mut o = BTreeSet::new();
    flatten(v, &mut vec![], &mut o);
    o
}
/// flat node array (JSON, from TLC or for the trace) -> Value
fn unflatten(nodes: &[Node]) -> Value {
    fn build(nodes: &[Node], path: &[String]) -> Value {
        let tag = &nodes.iter().find(|(p, _)| p == path).expect("node").1;
        match tag.as_str() {
            "obj" => {
                let mut m = Map::new();
                for (p, _) in nodes.iter().filter(|(p, _)| p.len() == path.len() + 1 && p.starts_with(path)) {
                    m.insert(p.last().unwrap().clone(), build(nodes, p));
                }
                Value::Object(m)
            }
            "arr" => {
                let mut kids: Vec<&Vec<String>> = nodes.iter().map(|(p, _)| p).filter(|p| p.len() == path.len() + 1 && p.starts_with(path)).collect();
                kids.sort_by_key(|p| p.last().unwrap().parse::<usize>().unwrap());
                Value::Array(kids.into_iter().map(|p| build(nodes, p)).collect())
            }
            "z" => Value::Null,
            "t" => Value::Bool(true),
            "f" => Value::Bool(false),
            t if t.starts_with("n:") => serde_json::from_str(&t[2..]).unwrap(),
            t if t.starts_with("s:") => Value::String(t[2..].to_string()),
            other => panic!("tag {other}"),
        }
    }
    build(nodes, &[])
}
fn nodes_of_json(v: &Value) -> Vec<Node> {
    v.as_array().unwrap().iter().map(|n| (n["p"].as_array().unwrap().iter().map(|t| tok_str(t)).collect(), n["t"].as_str().unwrap().to_string())).collect()
}
/// a token is a string (MC graphs) or an array of one-character strings (traces)
fn tok_str(t: &Value) -> String {
    match t {
        Value::String(s) => s.clone(),
        Value::Array(a) => a.iter().map(|c| c.as_str().unwrap()).collect(),
        _ => panic!("token"),
    }
}
fn escape(t: &str) -> String {
    t.replace('~', "~0").replace('/', "~1")
}
fn pointer_of(tokens: &[String]) -> String {
    tokens.iter().map(|t| format!("/{}", escape(t))).collect()
}
fn canonical(tokens: &[String]) -> String {
    if tokens.is_empty() { "/".into() } else { pointer_of(tokens) }
}

fn class_of(e: &RegistryError) -> &'static str {
    match e.code() {
        ErrorCode::MethodNotFound => "not_found",
        ErrorCode::InvalidBody => "invalid_body",
        _ => "exec",
    }
}

struct Outcome {
    cls: String,
    v: BTreeSet<Node>,
    calls: Vec<(String, BTreeSet<Node>)>,
}

struct World {
    reg: Arc<Registry>,
    router: Router,
}
const MOUNT: &str = "/mnt/reg";

impl World {
    fn new() -> Self {
        let reg = Arc::new(Registry::new());
        // decoy mounts whose prefixes merely share leading characters with the real one, registered before and after it:
        // a mount owns the paths below its prefix at a "/" boundary, nothing else
        let decoy = Arc::new(Registry::new());
        decoy.register_value("/x", json!("decoy")).unwrap();
        let router = Router::new().with_registry("/mnt/re", decoy.clone()).with_registry(MOUNT, reg.clone()).with_registry("/mnt/reg2", decoy);
        World { reg, router }
    }

    /// Interpret a successful dispatch value for (name, pointer tokens).
    fn ok_value(name: &str, tokens: &[String], v: &Value) -> BTreeSet<Node> {
        let mark = |t: &str| BTreeSet::from([(vec![], t.to_string())]);
        if name == "write" {
            if let Some(o) = v.as_object() {
                if o.get("called").is_some() {
                    return mark("called");
                }
                if o.get("status") == Some(&json!("ok")) && o.len() == 2 {
                    return if o.get("path") == Some(&json!(canonical(tokens))) { mark("status") } else { mark("status_badpath") };
                }
            }
            return mark("unexpected_write_result");
        }
        if name == "read" {
            if let Some(o) = v.as_object() {
                if o.get("type") == Some(&json!("function")) && o.len() == 2 && o.contains_key("path") {
                    return if o.get("path") == Some(&json!(canonical(tokens))) { mark("function") } else { mark("function_badpath") };
                }
            }
            return flat(v);
        }
        BTreeSet::new()
    }

    /// route: "direct" (Registry API) or "mount" (through Router::with_registry)
    fn exec(&self, name: &str, raw_ptr: &str, tokens: &[String], val: &Value, ftag: &str, route: &str) -> Outcome {
        CALLS.with(|c| c.borrow_mut().clear());
        let res: Result<Value, String> = match (name, route) {
            ("set_root", _) => {
                self.reg.set_root(val.clone());
                Ok(Value::Null)
            }
            ("register_value", _) => self.reg.register_value(raw_ptr, val.clone()).map(|_| Value::Null).map_err(|e| class_of(&e).to_string()),
            ("register_function", _) => {
                let tag = ftag.to_string();
                self.reg
                    .register_function(raw_ptr, move |p: Option<Value>| {
                        CALLS.with(|c| c.borrow_mut().push((tag.clone(), p.clone().unwrap_or(Value::Null))));
                        Ok(json!({"called": tag, "arg": p}))
                    })
                    .map(|_| Value::Null)
                    .map_err(|e| class_of(&e).to_string())
            }
            // merging at the root has its own entry point (merge_root): use it for every other root merge
            ("merge_at", _) if raw_ptr.is_empty() && val.as_object().map(|m| m.len() % 2 == 0).unwrap_or(false) =>
                self.reg.merge_root(val.as_object().cloned().unwrap_or_default()).map(|_| Value::Null).map_err(|e| class_of(&e).to_string()),
            ("merge_at", _) => self.reg.merge_at(raw_ptr, val.as_object().cloned().unwrap_or_default()).map(|_| Value::Null).map_err(|e| class_of(&e).to_string()),
            ("read", "direct") => self.reg.dispatch(raw_ptr, None).map_err(|e| class_of(&e).to_string()),
            ("write", "direct") => self.reg.dispatch(raw_ptr, Some(val.clone())).map_err(|e| class_of(&e).to_string()),
            ("read", _) | ("write", _) => {
                let path = format!("{MOUNT}{raw_ptr}");
                let mut b = Message::builder().id(7).query_str(&path);
                if name == "write" {
                    b = b.body_json(val).unwrap();
                }
                let req = b.build();
                match self.router.get(&path) {
                    None => Err("not_found".to_string()),
                    Some(h) => match h.handle(&req) {
                        Err(_) => Err("exec".to_string()),
                        Ok(resp) => match resp.error_code() {
                            Some(ErrorCode::Ok) | None => resp.json_body::<Value>().map_err(|_| "bad_response_body".to_string()),
                            Some(ErrorCode::MethodNotFound) => Err("not_found".into()),
                            Some(ErrorCode::InvalidBody) => Err("invalid_body".into()),
                            Some(_) => Err("exec".into()),
                        },
                    },
                }
            }
            other => panic!("op {other:?}"),
        };
        let calls = CALLS.with(|c| c.borrow().iter().map(|(t, a)| (t.clone(), flat(a))).collect());
        match res {
            Ok(v) => Outcome { cls: "ok".into(), v: Self::ok_value(name, tokens, &v), calls },
            Err(c) => Outcome { cls: c, v: BTreeSet::new(), calls },
        }
    }
}

fn jnodes(s: &BTreeSet<Node>, chars: bool) -> Value {
    Value::Array(s.iter().map(|(p, t)| json!({"p": p.iter().map(|x| jtok(x, chars)).collect::<Vec<_>>(), "t": t})).collect())
}
fn jtok(t: &str, chars: bool) -> Value {
    if chars { Value::Array(t.chars().map(|c| json!(c.to_string())).collect()) } else { json!(t) }
}

// ---------------------------------------------------------------------------
struct Graph {
    init: usize,
    probes: Vec<Value>, // per state: ReadAll
    edges: Vec<Vec<(usize, usize)>>,
    labels: Vec<Value>,
}
fn load(path: &str) -> Graph {
    let mut ids: HashMap<String, usize> = HashMap::new();
    let mut lab: HashMap<String, usize> = HashMap::new();
    let mut g = Graph { init: 0, probes: vec![], edges: vec![], labels: vec![] };
    // states are node SETS printed in arbitrary order: key on the sorted form
    fn key(s: &Value) -> String {
        let mut d: Vec<String> = s["doc"].as_array().unwrap().iter().map(|x| x.to_string()).collect();
        d.sort();
        let mut f: Vec<String> = s["funcs"].as_array().unwrap().iter().map(|x| x.to_string()).collect();
        f.sort();
        format!("{d:?}|{f:?}")
    }
    let mut sid = |g: &mut Graph, s: &Value, pr: Option<&Value>| -> usize {
        let i = *ids.entry(key(s)).or_insert_with(|| {
            g.probes.push(Value::Null);
            g.edges.push(vec![]);
            g.probes.len() - 1
        });
        if let Some(p) = pr {
            g.probes[i] = p.clone();
        }
        i
    };
    let inits = util::tlc_tagged_json(path, "INIT");
    let i0 = inits.first().expect("INIT");
    g.init = sid(&mut g, &i0[0], Some(&i0[1]));
    for e in util::tlc_tagged_json(path, "EDGE") {
        let f = sid(&mut g, &e[0], None);
        let t = sid(&mut g, &e[2], Some(&e[3]));
        let l = *lab.entry(e[1].to_string()).or_insert_with(|| {
            g.labels.push(e[1].clone());
            g.labels.len() - 1
        });
        if !g.edges[f].contains(&(l, t)) {
            g.edges[f].push((l, t));
        }
    }
    g
}

fn step_matches(w: &World, lab: &Value, route: &str) -> Result<(), String> {
    let op = &lab["op"];
    let name = op["name"].as_str().unwrap();
    let tokens: Vec<String> = op["p"].as_array().unwrap().iter().map(tok_str).collect();
    let raw = if op["bad"].as_bool().unwrap() { "/bad~2escape".to_string() } else { pointer_of(&tokens) };
    let val = if op["v"].as_array().unwrap().is_empty() { Value::Null } else { unflatten(&nodes_of_json(&op["v"])) };
    let got = w.exec(name, &raw, &tokens, &val, op["f"].as_str().unwrap(), route);
    let want = &lab["ret"];
    let want_v: BTreeSet<Node> = nodes_of_json(&want["v"]).into_iter().collect();
    let want_calls: Vec<(String, BTreeSet<Node>)> = want["calls"].as_array().unwrap().iter().map(|c| (c["f"].as_str().unwrap().to_string(), nodes_of_json(&c["arg"]).into_iter().collect())).collect();
    if got.cls != want["cls"].as_str().unwrap() || got.v != want_v || got.calls != want_calls {
        return Err(format!("{name} {raw:?} [{route}] -> class {} value {:?} calls {:?}; spec class {} value {:?} calls {:?}", got.cls, got.v, got.calls, want["cls"], want_v, want_calls));
    }
    Ok(())
}

fn probe_matches(w: &World, probes: &Value) -> Result<(), String> {
    for pr in probes.as_array().unwrap() {
        let tokens: Vec<String> = pr["p"].as_array().unwrap().iter().map(tok_str).collect();
        let got = w.reg.read_value(&pointer_of(&tokens));
        let want_ok = pr["ok"].as_bool().unwrap();
        match got {
            Ok(v) => {
                let want: BTreeSet<Node> = nodes_of_json(&pr["v"]).into_iter().collect();
                if !want_ok || flat(&v) != want {
                    return Err(format!("read_value({:?}) = {v}, spec {}", pointer_of(&tokens), if want_ok { format!("{want:?}") } else { "not found".into() }));
                }
            }
            Err(_) if !want_ok => {}
            Err(e) => return Err(format!("read_value({:?}) failed ({e}), spec finds a value", pointer_of(&tokens))),
        }
    }
    Ok(())
}

fn run_path(g: &Graph, path: &[(usize, usize)], full: bool, route: &str) -> Result<(), (usize, String)> {
    let r = std::panic::catch_unwind(|| {
        let w = World::new();
        for (i, (l, to)) in path.iter().enumerate() {
            step_matches(&w, &g.labels[*l], route).map_err(|e| (i, e))?;
            if full || i + 1 == path.len() {
                probe_matches(&w, &g.probes[*to]).map_err(|e| (i, format!("after {}: {e}", g.labels[*l]["op"]["name"])))?;
            }
        }
        Ok(())
    });
    r.unwrap_or_else(|p| {
        let msg = p.downcast_ref::<String>().cloned().or_else(|| p.downcast_ref::<&str>().map(|s| s.to_string())).unwrap_or_default();
        Err((path.len().saturating_sub(1), format!("PANIC in code under test: {msg}")))
    })
}

pub fn walk(a: &Args) -> i32 {
    let g = load(&a.req("graph"));
    let depth = a.usize("depth", 4);
    let threads = a.usize("threads", 8).max(1);
    std::panic::set_hook(Box::new(|_| {}));
    let n_edges: usize = g.edges.iter().map(|e| e.len()).sum();
    let n = g.probes.len();
    let mut parent: Vec<Option<(usize, usize)>> = vec![None; n];
    let mut seen = vec![false; n];
    seen[g.init] = true;
    let mut q = std::collections::VecDeque::from([g.init]);
    while let Some(s) = q.pop_front() {
        for &(l, t) in &g.edges[s] {
            if !seen[t] {
                seen[t] = true;
                parent[t] = Some((s, l));
                q.push_back(t);
            }
        }
    }
    let path_to = |s: usize| {
        let mut p = vec![];
        let mut c = s;
        while let Some((f, l)) = parent[c] {
            p.push((l, c));
            c = f;
        }
        p.reverse();
        p
    };
    let desc = |g: &Graph, path: &[(usize, usize)], i: usize, e: &str| json!({"path": path.iter().map(|(l, _)| g.labels[*l].clone()).collect::<Vec<_>>(), "failed_step": i, "op": path.get(i).map(|(l, _)| g.labels[*l]["op"]["name"].clone()), "what": e});
    let mut failures = vec![];
    let mut edge_runs = 0u64;
    for s in 0..n {
        if !seen[s] {
            continue;
        }
        let base = path_to(s);
        for &(l, t) in &g.edges[s] {
            let mut p = base.clone();
            p.push((l, t));
            for route in ["direct", "mount"] {
                edge_runs += 1;
                if let Err((i, e)) = run_path(&g, &p, true, route) {
                    if failures.len() < 40 {
                        failures.push(desc(&g, &p, i, &e));
                    }
                }
            }
        }
    }
    let paths = AtomicU64::new(0);
    let steps = AtomicU64::new(0);
    let fails = Mutex::new(Vec::<Value>::new());
    let firsts: Vec<(usize, usize)> = g.edges[g.init].clone();
    let next = AtomicU64::new(0);
    std::thread::scope(|sc| {
        for _ in 0..threads {
            sc.spawn(|| loop {
                let k = next.fetch_add(1, Ordering::Relaxed) as usize;
                if k >= firsts.len() {
                    break;
                }
                let mut path = vec![firsts[k]];
                fn dfs(g: &Graph, path: &mut Vec<(usize, usize)>, depth: usize, paths: &AtomicU64, steps: &AtomicU64, fails: &Mutex<Vec<Value>>) {
                    paths.fetch_add(1, Ordering::Relaxed);
                    steps.fetch_add(path.len() as u64, Ordering::Relaxed);
                    if let Err((i, e)) = run_path(g, path, false, "direct") {
                        let mut f = fails.lock().unwrap();
                        if f.len() < 40 {
                            f.push(json!({"path": path.iter().map(|(l, _)| g.labels[*l].clone()).collect::<Vec<_>>(), "failed_step": i,
                                          "op": path.get(i).map(|(l, _)| g.labels[*l]["op"]["name"].clone()), "what": e}));
                        }
                        return;
                    }
                    if path.len() >= depth {
                        return;
                    }
                    let s = path.last().unwrap().1;
                    for &(l, t) in &g.edges[s] {
                        // a read changes nothing: extending a path by a read is covered by the edge replay
                        if g.labels[l]["op"]["name"] == "read" && path.len() + 1 < depth {
                            continue;
                        }
                        path.push((l, t));
                        dfs(g, path, depth, paths, steps, fails);
                        path.pop();
                    }
                }
                dfs(&g, &mut path, depth, &paths, &steps, &fails);
            });
        }
    });
    failures.extend(fails.into_inner().unwrap());
    let far = (0..n).filter(|s| seen[*s]).max_by_key(|s| path_to(*s).len()).unwrap();
    let sample: Vec<Value> = path_to(far).iter().map(|(l, _)| g.labels[*l]["op"].clone()).collect();
    util::write_json(&a.req("out"), &json!({
        "states": n, "edges": n_edges, "labels": g.labels.len(), "edge_replays": edge_runs, "depth": depth,
        "paths": paths.load(Ordering::Relaxed), "op_executions": steps.load(Ordering::Relaxed), "sample_path": sample, "failures": failures,
    }));
    0
}

// ---------------------------------------------------------------------------
// random histories

fn rand_token(rng: &mut StdRng) -> String {
    const T: [&str; 16] = ["a", "b", "c", "x", "", "0", "1", "2", "a/b", "m~n", "~", "/", "~1", "k.9", "mnt", "reg"];
    T[rng.gen_range(0..T.len())].to_string()
}
fn rand_value(rng: &mut StdRng, depth: usize) -> Value {
    match rng.gen_range(0..if depth == 0 { 5 } else { 8 }) {
        0 => json!(rng.gen_range(0..50)),
        1 => json!(format!("s{}", rng.gen_range(0..9))),
        2 => Value::Bool(rng.gen_bool(0.5)),
        3 => Value::Null,
        4 => json!({}),
        5 | 6 => {
            let mut m = Map::new();
            for _ in 0..rng.gen_range(1..4) {
                m.insert(rand_token(rng), rand_value(rng, depth - 1));
            }
            Value::Object(m)
        }
        _ => Value::Array((0..rng.gen_range(0..4)).map(|_| rand_value(rng, depth - 1)).collect()),
    }
}
/// a pointer that tends to hit existing structure: walk the mirror document
fn rand_tokens(rng: &mut StdRng, mirror: &Value) -> Vec<String> {
    let mut toks = vec![];
    // some pointers begin with the tokens of the mount prefix itself ("/mnt/reg/..." inside the registry mounted at /mnt/reg)
    if rng.gen_bool(0.12) { toks.push("mnt".to_string()); toks.push("reg".to_string()); if rng.gen_bool(0.3) { toks.push("mnt".to_string()); toks.push("reg".to_string()); } }
    let mut cur = if toks.is_empty() { Some(mirror) } else { None };
    for _ in 0..rng.gen_range(0..7) {
        let t = match cur {
            Some(Value::Object(m)) if !m.is_empty() && rng.gen_bool(0.75) => m.keys().nth(rng.gen_range(0..m.len())).unwrap().clone(),
            // array indices, a quarter of them in a spelling other than the canonical one ("01", "+1", "001")
            Some(Value::Array(a)) if rng.gen_bool(0.8) => { let i = rng.gen_range(0..a.len() + 1); match rng.gen_range(0..12) { 0 => format!("0{i}"), 1 => format!("+{i}"), 2 => format!("00{i}"), _ => i.to_string() } }
            _ => rand_token(rng),
        };
        cur = match cur {
            Some(Value::Object(m)) => m.get(&t),
            Some(Value::Array(a)) => t.parse::<usize>().ok().and_then(|i| a.get(i)),
            _ => None,
        };
        toks.push(t);
    }
    toks
}

pub fn hist(a: &Args) -> i32 {
    let seed = a.u64("seed", 1);
    let runs = a.usize("runs", 50);
    let nthreads = a.usize("threads", 1).clamp(1, 4);
    let ops = a.usize("ops", 100);
    let mut out = util::NdJson::create(&a.req("out"));
    let mut rng = StdRng::seed_from_u64(seed);
    std::panic::set_hook(Box::new(|_| {}));
    let mut distinct = std::collections::HashSet::new();
    for run in 0..runs {
        let w = Arc::new(World::new());
        let clock = Arc::new(AtomicU64::new(1));
        let log: Arc<Mutex<Vec<(u64, Value)>>> = Arc::new(Mutex::new(vec![(0, json!({"ev": "reset", "run": run}))]));
        // programmes are drawn against a mirror that evolves as if run sequentially; it only guides
        // the generator towards pointers that exist, it is never an oracle
        let mut mirror = json!({});
        let mut progs: Vec<Vec<Value>> = vec![vec![]; nthreads];
        let mut fserial = 0;
        for i in 0..ops * nthreads {
            let t = i % nthreads;
            let toks = rand_tokens(&mut rng, &mirror);
            let c = rng.gen_range(0..100);
            let bad = c >= 96;
            let name = match c {
                0..=34 => "read",
                35..=69 => "write",
                70..=79 => "register_value",
                80..=85 => "register_function",
                86..=91 => "merge_at",
                92..=93 => "set_root",
                94..=95 => "write_root",
                _ => if rng.gen_bool(0.5) { "read" } else { "write" },
            };
            let (name, toks) = if name == "write_root" { ("write", vec![]) } else if name == "set_root" { (name, vec![]) } else if name == "merge_at" && rng.gen_bool(0.25) { (name, vec![]) } else { (name, toks) };
            // "/" alone is the library's spelling of the root (as-built deviation from RFC 6901, where it is one empty
            // token); the single-empty-token pointer is therefore outside what is generated
            let toks = if toks.len() == 1 && toks[0].is_empty() { vec![] } else { toks };
            let raw = if bad {
                ["a~", "/a~2b", "no-slash", "/x/~", "/~3"][rng.gen_range(0..5)].to_string()
            } else {
                pointer_of(&toks)
            };
            let val = match name {
                "merge_at" => Value::Object(match rand_value(&mut rng, 2) { Value::Object(m) => m, v => Map::from_iter([("k".to_string(), v)]) }),
                "write" | "register_value" | "set_root" => rand_value(&mut rng, 2),
                _ => Value::Null,
            };
            let ftag = if name == "register_function" { fserial += 1; format!("fn{fserial}") } else { String::new() };
            let route = if matches!(name, "read" | "write") && rng.gen_bool(0.4) { "mount" } else { "direct" };
            // registration paths may omit the leading slash
            let raw_used = if matches!(name, "register_value" | "register_function" | "merge_at") && !bad && !toks.is_empty() && !toks[0].is_empty() && !toks[0].starts_with('/') && rng.gen_bool(0.3) { raw[1..].to_string() } else { raw.clone() };
            // keep the mirror roughly in step (best effort)
            if !bad && matches!(name, "write" | "register_value") && !toks.is_empty() {
                if let Some(slot) = toks[..toks.len() - 1].iter().try_fold(&mut mirror, |cur, t| match cur { Value::Object(m) => m.get_mut(t), Value::Array(a) => t.parse::<usize>().ok().and_then(|i| a.get_mut(i)), _ => None }) {
                    if let Value::Object(m) = slot { m.insert(toks.last().unwrap().clone(), val.clone()); }
                }
            }
            progs[t].push(json!({"name": name, "raw": raw_used, "toks": toks, "bad": bad, "val": val, "f": ftag, "route": route}));
        }
        distinct.insert(format!("{progs:?}"));
        let barrier = Arc::new(std::sync::Barrier::new(nthreads));
        let mut hs = vec![];
        for (t, prog) in progs.into_iter().enumerate() {
            let (w, log, clock, barrier) = (w.clone(), log.clone(), clock.clone(), barrier.clone());
            hs.push(std::thread::spawn(move || {
                let mut local = vec![];
                barrier.wait();
                for op in prog {
                    let name = op["name"].as_str().unwrap();
                    let toks: Vec<String> = op["toks"].as_array().unwrap().iter().map(|x| x.as_str().unwrap().to_string()).collect();
                    let raw = op["raw"].as_str().unwrap();
                    let t_inv = clock.fetch_add(1, Ordering::SeqCst);
                    let res = std::panic::catch_unwind(std::panic::AssertUnwindSafe(|| w.exec(name, raw, &toks, &op["val"], op["f"].as_str().unwrap(), op["route"].as_str().unwrap())));
                    let t_res = clock.fetch_add(1, Ordering::SeqCst);
                    let vflat = if matches!(name, "read" | "register_function") { BTreeSet::new() } else { flat(&op["val"]) };
                    local.push((t_inv, json!({"ev": "inv", "t": t + 1, "route": op["route"],
                        "raw": raw.chars().map(|c| c.to_string()).collect::<Vec<_>>(),
                        "op": {"name": name, "p": toks.iter().map(|x| jtok(x, true)).collect::<Vec<_>>(), "v": jnodes(&vflat, true), "f": op["f"], "bad": op["bad"]}})));
                    match res {
                        Ok(o) => local.push((t_res, json!({"ev": "res", "t": t + 1, "ret": {"cls": o.cls, "v": jnodes(&o.v, true),
                            "calls": o.calls.iter().map(|(f, a)| json!({"f": f, "arg": jnodes(a, true)})).collect::<Vec<_>>()}}))),
                        Err(_) => {
                            local.push((t_res, json!({"ev": "panic", "t": t + 1, "op": name})));
                            break;
                        }
                    }
                }
                log.lock().unwrap().extend(local);
            }));
        }
        for h in hs {
            h.join().unwrap();
        }
        let mut all = std::mem::take(&mut *log.lock().unwrap());
        all.sort_by_key(|(s, _)| *s);
        for (_, e) in all.iter() {
            out.push(e);
        }
    }
    let lines = out.lines;
    out.finish();
    util::write_json(&a.str("summary", "/dev/null"), &json!({"runs": runs, "events": lines, "distinct_programmes": distinct.len()}));
    0
}
