use std::collections::HashMap;
use std::io::Write;

pub struct Args(pub HashMap<String, String>);
impl Args {
    pub fn parse(a: &[String]) -> Self {
        let mut m = HashMap::new();
        let mut i = 0;
        while i < a.len() {
            let k = a[i].trim_start_matches("--").to_string();
            let v = if i + 1 < a.len() && !a[i + 1].starts_with("--") {
                i += 1;
                a[i].clone()
            } else {
                "true".to_string()
            };
            m.insert(k, v);
            i += 1;
        }
        Args(m)
    }
    pub fn get(&self, k: &str) -> Option<String> {
        self.0.get(k).cloned()
    }
    pub fn str(&self, k: &str, d: &str) -> String {
        self.0.get(k).cloned().unwrap_or_else(|| d.to_string())
    }
    pub fn req(&self, k: &str) -> String {
        self.0.get(k).cloned().unwrap_or_else(|| {
            eprintln!("missing --{k}");
            std::process::exit(2)
        })
    }
    pub fn u64(&self, k: &str, d: u64) -> u64 {
        self.0.get(k).map(|v| v.parse().expect("integer argument")).unwrap_or(d)
    }
    pub fn usize(&self, k: &str, d: usize) -> usize {
        self.u64(k, d as u64) as usize
    }
    pub fn flag(&self, k: &str) -> bool {
        self.0.get(k).map(|v| v == "true" || v == "1").unwrap_or(false)
    }
}

/// A u64 as the JSON array of its 8 little-endian bytes (the representation of U64.tla).
pub fn le8(v: u64) -> serde_json::Value {
    serde_json::Value::Array(v.to_le_bytes().iter().map(|b| serde_json::json!(*b)).collect())
}

pub fn hex(b: &[u8]) -> String {
    let mut s = String::with_capacity(b.len() * 2);
    for x in b {
        s.push_str(&format!("{x:02x}"));
    }
    s
}

pub struct NdJson {
    w: std::io::BufWriter<std::fs::File>,
    pub lines: u64,
}
impl NdJson {
    pub fn create(path: &str) -> Self {
        let f = std::fs::File::create(path).unwrap_or_else(|e| {
            eprintln!("cannot create {path}: {e}");
            std::process::exit(2)
        });
        NdJson { w: std::io::BufWriter::new(f), lines: 0 }
    }
    pub fn push(&mut self, v: &serde_json::Value) {
        serde_json::to_writer(&mut self.w, v).unwrap();
        self.w.write_all(b"\n").unwrap();
        self.lines += 1;
    }
    pub fn raw(&mut self, s: &str) {
        self.w.write_all(s.as_bytes()).unwrap();
        self.w.write_all(b"\n").unwrap();
        self.lines += 1;
    }
    pub fn finish(mut self) {
        self.w.flush().unwrap();
    }
}

/// Parse the lines `<<"TAG", "json...">>` that TLC's PrintT emits for
/// `PrintT(<<"TAG", ToJson(x)>>)`; returns the decoded JSON values.
pub fn tlc_tagged_json(path: &str, tag: &str) -> Vec<serde_json::Value> {
    use std::io::BufRead;
    let f = std::fs::File::open(path).unwrap_or_else(|e| {
        eprintln!("cannot open {path}: {e}");
        std::process::exit(2)
    });
    let prefix = format!("<<\"{tag}\", ");
    let mut out = Vec::new();
    for line in std::io::BufReader::new(f).lines() {
        let line = line.unwrap();
        if let Some(rest) = line.strip_prefix(&prefix) {
            if let Some(q) = rest.strip_suffix(">>") {
                let inner: String = serde_json::from_str(q).expect("TLC string literal");
                out.push(serde_json::from_str(&inner).expect("json payload"));
            }
        }
    }
    out
}

/// streaming variant: one callback per tagged line (a 1 GB dump must not be held as parsed values)
pub fn tlc_tagged_json_each(path: &str, tag: &str, mut f: impl FnMut(serde_json::Value)) {
    use std::io::BufRead;
    let file = std::fs::File::open(path).unwrap_or_else(|e| {
        eprintln!("cannot open {path}: {e}");
        std::process::exit(2)
    });
    let prefix = format!("<<\"{tag}\", ");
    for line in std::io::BufReader::new(file).lines() {
        let line = line.unwrap();
        if let Some(rest) = line.strip_prefix(&prefix) {
            if let Some(q) = rest.strip_suffix(">>") {
                let inner: String = serde_json::from_str(q).expect("TLC string literal");
                f(serde_json::from_str(&inner).expect("json payload"));
            }
        }
    }
}

pub fn write_json(path: &str, v: &serde_json::Value) {
    std::fs::write(path, serde_json::to_vec_pretty(v).unwrap()).unwrap();
}
