SPECIFICATION Spec
CONSTANTS
  Callers <- C2
  MaxJunk = 0
  AllowFault = TRUE
  AllowTimeout = FALSE
  AllowCancel = FALSE
  HasNotify = FALSE
  ShutFirst = FALSE
  Forwarders = {}
  ForwardRewinds = FALSE
INVARIANTS Correlated DistinctIds NotifyOnlyToSubscriber ChanAtMostOne NoResidue WaiterHasFuture

CHECK_DEADLOCK FALSE
