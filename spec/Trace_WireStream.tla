--------------------------- MODULE Trace_WireStream ---------------------------
(* Trace specification for C05: one line per recorded connection: the segment    *)
(* list an independent content-addressed parser produced from the bytes (TCP) or  *)
(* messages (WebSocket) an endpoint wrote, judged with WireStream!SegmentsOk.     *)
EXTENDS Integers, Sequences, TLC, Json, IOUtils
Rec == ndJsonDeserialize(IOEnv.TRACE)
VARIABLES stream, holder, progress, wstate, failed, l
W == INSTANCE WireStream WITH Writers <- {1}, FrameLen <- 1, FailOnInterrupt <- TRUE
E == Rec[l]
ASSUME TLCSet(2, <<>>)
Bad(e) == IF \E i \in 1..Len(e.segments) : e.segments[i][1] = "foreign" THEN "bytes_after_partial_frame"
          ELSE IF \E i \in 1..Len(e.segments) : e.segments[i][1] = "bad_header" THEN "unframed_bytes"
          ELSE IF ~W!SegmentsOk(e.segments) THEN "frame_after_partial_frame"
          ELSE ""
Step == /\ l <= Len(Rec) /\ l' = l + 1
        /\ LET k == Bad(E) IN (k # "") => TLCSet(2, Append(TLCGet(2), <<l, k>>))
        /\ UNCHANGED <<stream, holder, progress, wstate, failed>>
Init == W!Init /\ l = 1
Spec == Init /\ [][Step]_<<stream, holder, progress, wstate, failed, l>>
Accepted == /\ PrintT(<<"MISMATCHES", ToJson(TLCGet(2))>>)
            /\ IF TLCGet("stats").diameter = Len(Rec) + 1 THEN TRUE
               ELSE PrintT(<<"UNMATCHED", TLCGet("stats").diameter>>) /\ FALSE
==============================================================================
