---------------------------- MODULE MC_ProxyConn ----------------------------
(* Model checking of ProxyConn and the generator of the behaviours the harness   *)
(* replays on proxy_connection_with_limits: every complete behaviour (the proxy  *)
(* has exited) prints the peer's script, the environment's choices (the          *)
(* upstream's reaction to each forwarded request, and before which frame the     *)
(* upstream died while the proxy was idle), what the upstream must have seen and *)
(* what the peer must have received.                                             *)
EXTENDS ProxyConn, Json
VARIABLES script0, hist
\* frames after one that ends the proxy are never read: keep only scripts in which such a frame comes last
EndsProxy == {"text", "bad", "close"}
GInit == /\ Init /\ \A i \in 1..Len(script) : (script[i].kind \in EndsProxy) => i = Len(script)
         /\ script0 = script /\ hist = <<>>
GNext == \/ ((Read \/ ReadEof) /\ UNCHANGED <<script0, hist>>)
         \/ (Await /\ UNCHANGED script0
                   /\ hist' = (IF cur.kind = "notify" THEN hist
                               ELSE Append(hist, [at |-> cur.id, what |-> (IF ~upAlive' THEN "down" ELSE out'[Len(out')].kind)])))
         \/ (UpDie /\ script # <<>> /\ Head(script).kind \in {"req", "notify"}     \* dying before anything else is unobservable
                   /\ UNCHANGED script0 /\ hist' = Append(hist, [at |-> Head(script).id, what |-> "die_idle"]))
GSpec == GInit /\ [][GNext]_<<vars, script0, hist>> /\ WF_<<vars, script0, hist>>(GNext)
Done == phase \in {"exit_ok", "exit_err"}
Emit == Done => PrintT(<<"BEH", ToJson([script |-> script0, env |-> hist, upseen |-> upseen, out |-> out, phase |-> phase])>>)
==============================================================================
