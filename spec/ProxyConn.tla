------------------------------ MODULE ProxyConn ------------------------------
(* The WebSocket -> TCP proxy loop (src/websocket_server.rs, proxy_connection and   *)
(* proxy_connection_with_limits): one downstream WebSocket peer, one upstream       *)
(* AsyncClient, strictly one frame at a time:                                       *)
(*                                                                                  *)
(*   loop { frame = reader.next()            -- Read                                *)
(*          request = decode(frame)?         -- ping/pong skipped, text / garbage:  *)
(*                                              the function returns an error       *)
(*          response = upstream.forward_message(request).await?   -- Forward/Await  *)
(*          if let Some(r) = response { send(frame_outbound(r)) } -- Emit           *)
(*   }  then Close                                                                  *)
(*                                                                                  *)
(* The environment: the peer's script of frames, what the upstream does with each   *)
(* forwarded request (a reply that fits the assumed peer limit, one that does not,  *)
(* an application error reply, or it goes down instead of replying), and the        *)
(* upstream going down while the proxy is idle.  Used by C17 (the proxy-forwarded   *)
(* path of the outbound guard) and as the sequential reference for C03-style         *)
(* request/response matching through the proxy.                                     *)
EXTENDS Naturals, Sequences, FiniteSets, TLC

CONSTANTS MaxFrames,   \* length of the peer's script
          GuardOn      \* TRUE as built: an oversized upstream reply is replaced (FALSE: forwarded, must violate NoOversize)

PeerKinds == {"req", "notify", "ping", "text", "bad", "close"}
Reactions == {"fits", "over", "apperr", "down"}          \* what the upstream does with a forwarded request

VARIABLES script,     \* frames the peer has still to send: sequence of [kind, id]
          phase,      \* "read" | "await" | "exit_ok" | "exit_err"
          cur,        \* the request being forwarded
          upAlive,    \* the upstream connection is usable
          upseen,     \* what the upstream received: sequence of [kind, id]
          out         \* binary messages sent to the peer: sequence of [kind, id]; "close" marks the closing handshake
vars == <<script, phase, cur, upAlive, upseen, out>>

None == [kind |-> "none", id |-> 0]
Scripts == UNION {[1..n -> PeerKinds] : n \in 0..MaxFrames}
Numbered(s) == [i \in 1..Len(s) |-> [kind |-> s[i], id |-> i]]

Init == /\ script \in {Numbered(s) : s \in Scripts} /\ phase = "read" /\ cur = None
        /\ upAlive = TRUE /\ upseen = <<>> /\ out = <<>>

(* the peer's stream ended without a Close frame: the loop breaks and the proxy closes *)
ReadEof == /\ phase = "read" /\ script = <<>>
           /\ phase' = "exit_ok" /\ out' = Append(out, [kind |-> "close", id |-> 0])
           /\ UNCHANGED <<script, cur, upAlive, upseen>>
Read == /\ phase = "read" /\ script # <<>>
        /\ LET f == Head(script) IN
           /\ script' = Tail(script)
           /\ CASE f.kind = "ping" -> UNCHANGED <<phase, cur, upseen, out>>
                [] f.kind \in {"text", "bad"} -> phase' = "exit_err" /\ UNCHANGED <<cur, upseen, out>>
                [] f.kind = "close" -> /\ phase' = "exit_ok" /\ out' = Append(out, [kind |-> "close", id |-> 0])
                                       /\ UNCHANGED <<cur, upseen>>
                [] f.kind \in {"req", "notify"} ->
                       IF upAlive
                         THEN /\ upseen' = Append(upseen, f) /\ cur' = f /\ phase' = "await" /\ UNCHANGED out
                         ELSE /\ phase' = "exit_err" /\ UNCHANGED <<cur, upseen, out>>     \* forward_message fails: `?`
        /\ UNCHANGED upAlive
ReplyKind(r) == CASE r = "fits" -> "resp" [] r = "apperr" -> "apperr" [] r = "over" -> IF GuardOn THEN "subst" ELSE "resp_over"
(* a notify is not answered: forward_message returns None and nothing goes downstream *)
Await == /\ phase = "await"
         /\ IF cur.kind = "notify"
              THEN /\ phase' = "read" /\ UNCHANGED <<out, upAlive>>
              ELSE \E r \in Reactions :
                     IF r = "down"
                       THEN /\ upAlive' = FALSE /\ phase' = "exit_err" /\ UNCHANGED out
                       ELSE /\ out' = Append(out, [kind |-> ReplyKind(r), id |-> cur.id]) /\ phase' = "read" /\ UNCHANGED upAlive
         /\ cur' = None /\ UNCHANGED <<script, upseen>>
(* the upstream goes away while the proxy is idle between two frames *)
UpDie == /\ phase = "read" /\ upAlive /\ upAlive' = FALSE /\ UNCHANGED <<script, phase, cur, upseen, out>>

Next == Read \/ ReadEof \/ Await \/ UpDie
Spec == Init /\ [][Next]_vars /\ WF_vars(Read \/ ReadEof \/ Await)

(* ------------------------------------------------------------------ properties *)
Replies == SelectSeq(out, LAMBDA m : m.kind # "close")
ReqsSeen == SelectSeq(upseen, LAMBDA f : f.kind = "req")
Ids(s) == [i \in 1..Len(s) |-> s[i].id]
IsPrefix(a, b) == Len(a) <= Len(b) /\ SubSeq(b, 1, Len(a)) = a
(* every forwarded request is answered exactly once, in order, with its own id; at most the one in flight is open *)
OneReplyEach == /\ IsPrefix(Ids(Replies), Ids(ReqsSeen))
                /\ Len(ReqsSeen) - Len(Replies) <= 1
                /\ (phase \in {"read", "exit_ok"} => Len(ReqsSeen) = Len(Replies))
NoOversize == \A i \in 1..Len(out) : out[i].kind # "resp_over"
(* the closing handshake only after an orderly end, and nothing after it *)
CloseLast == \A i \in 1..Len(out) : out[i].kind = "close" => (i = Len(out) /\ phase = "exit_ok")
(* forwarding is faithful: the upstream saw the requests and notifies in the order the peer sent them *)
Faithful == \A i, j \in 1..Len(upseen) : i < j => upseen[i].id < upseen[j].id
Silent == [][(phase \in {"exit_ok", "exit_err"}) => (out' = out)]_vars
Terminates == <>(phase \in {"exit_ok", "exit_err"})
==============================================================================
