SPECIFICATION Spec
CONSTANTS
  Windows = {3}
  Caps = {3}
  ChunkLens = {1, 2, 4}
  Overheads = {0, 1}
  Offsets = {0, 1, 2, 3, 4, 9}
  Files = {0, 1}
  Reasons = {"", "b"}
  Peers = {1}
  Tags = {"x", "y"}
  LastFlags = {FALSE}
  MaxOff = 5
  EnableProducer = FALSE
  AdversarySent = TRUE
  Dump = TRUE
CONSTRAINT StateConstraint
VIEW View
INVARIANT InitDumpInv
ACTION_CONSTRAINT EdgeDump
CHECK_DEADLOCK FALSE
