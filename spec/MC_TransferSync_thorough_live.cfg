SPECIFICATION SpecNoExpire
CONSTANTS
  Window = 4
  Cap = 8
  Sigs = {1, 2, 3}
  OpAlphabet <- OpsSmall
  MaxOps = 2
  WaitKinds <- Both
  WaitLens = {2}
  InitSents = {4}
  Notifiers <- AllNotifiers
  AllowSpurious = TRUE
INVARIANTS NoLostWakeup TimeoutOnlyAtDeadline ResultSound
PROPERTIES WokenWhenReady
CHECK_DEADLOCK FALSE
