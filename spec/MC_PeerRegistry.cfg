SPECIFICATION Spec
CONSTANTS
  Peers = {1, 2, 3}
  Keys = {"a", "b", "c"}
  Dump = FALSE
VIEW View
INVARIANTS IndexConsistent LookupSound
PROPERTIES StepProps
CHECK_DEADLOCK FALSE
