--------------------------- MODULE Trace_NotifySub ---------------------------
(* Trace specification for the WebSocket client's notify subscription slot       *)
(* (part of C04: pushed notifications go only to the notification subscriber).   *)
(* Events come from the verif-hooks sink, so their order is the order of the     *)
(* critical sections on the slot's mutex:                                        *)
(*   ns_sub_begin / ns_sub(ok, tok)   subscribe_notifies: mutex taken / decision *)
(*   ns_unsub_begin / ns_unsub_end   around the critical section that empties    *)
(*                     the slot (unsubscribe_notifies, or the connection ending) *)
(*   ns_snap_begin(n) / ns_snap_end(n, has)  around the critical section in      *)
(*                     which the response loop clones the installed sender       *)
(*   ns_sendfail(n, cleared)  the send failed; the stale-slot decision, under it *)
(* The hooks only add lines, so a critical section that is a single expression  *)
(* is bracketed (begin / end) and its effect is a silent step between the two;   *)
(* a successful lock-free send is a silent step after ns_snap_end.               *)
(*   push(n)           the raw peer is about to write notify n                   *)
(*   inv/res           the harness's own lock-free calls on a receiver it holds  *)
(*                     (drop, drain = try_recv until empty), linearized by a     *)
(*                     silent step between the two events                        *)
(*   quiesce(pushed)   a request issued behind the last push has been answered   *)
EXTENDS Integers, Sequences, FiniteSets, TLC, Json, IOUtils
Rec == ndJsonDeserialize(IOEnv.TRACE)
Toks == 1..64                \* tokens restart at 1 in every scenario
Threads == 1..4
MaxNote == 1000000
ClearOnlyOwn == TRUE
VARIABLES slot, alive, queue, pushed, readIdx, rd, everInstalled, removed, pend, usec, ssec, l
N == INSTANCE NotifySub
nvars == <<slot, alive, queue, pushed, readIdx, rd, everInstalled, removed>>
E == Rec[l]
ASSUME TLCSet(1, 0)
Idle == [st |-> "idle", op |-> [name |-> "", tok |-> 0], ret |-> <<>>]
UThreads == 1..5      \* worker tids 1..4; 5 = the library's own task (connection ending), remapped by the recorder
Init == N!Init /\ pend = [t \in Threads |-> Idle] /\ usec = [t \in UThreads |-> ""] /\ ssec = "" /\ l = 1
Has == l <= Len(Rec)
Step == l' = l + 1
Reset == /\ Has /\ E.ev = "reset" /\ \A t \in Threads : pend[t].st = "idle"
         /\ slot' = 0 /\ alive' = {} /\ queue' = [t \in Toks |-> <<>>] /\ pushed' = 0 /\ readIdx' = 0 /\ rd' = <<>>
         /\ everInstalled' = {} /\ removed' = {} /\ usec' = [t \in UThreads |-> ""] /\ ssec' = "" /\ UNCHANGED pend /\ Step
Push == Has /\ E.ev = "push" /\ E.n = pushed + 1 /\ N!Push /\ UNCHANGED <<pend, usec, ssec>> /\ Step
\* subscribe_notifies: ns_sub_begin is logged right after the slot's mutex is taken, ns_sub(ok) after the decision.  The
\* decision reads the installed sender's is_closed(), and a receiver is dropped WITHOUT that mutex: a refusal is right if
\* the installed subscriber was alive at any moment of the critical section - when it began, or (the drop's silent step
\* being placed later) when it ended.  Under the mutex nothing else can install or empty the slot in between.
SubBegin == /\ Has /\ E.ev = "ns_sub_begin" /\ usec[E.t] = ""
            /\ usec' = [usec EXCEPT ![E.t] = IF slot # 0 /\ slot \in alive THEN "sub_live" ELSE "sub_dead"]
            /\ UNCHANGED <<nvars, pend, ssec>> /\ Step
Sub == /\ Has /\ E.ev = "ns_sub" /\ usec[E.t] \in {"sub_live", "sub_dead"}
       /\ IF E.ok THEN N!SubscribeOk(E.tok)
          ELSE (usec[E.t] = "sub_live" \/ (slot # 0 /\ slot \in alive)) /\ UNCHANGED nvars
       /\ usec' = [usec EXCEPT ![E.t] = ""]
       /\ UNCHANGED <<pend, ssec>> /\ Step
\* sec[who] : "" | "begin" | "done"  -- bracketed critical sections of the reader (snapshot) and of up to 4 unsubscribers
UnsubBegin == /\ Has /\ E.ev = "ns_unsub_begin" /\ usec[E.t] = "" /\ usec' = [usec EXCEPT ![E.t] = "begin"]
              /\ UNCHANGED <<nvars, pend, ssec>> /\ Step
UnsubDo(t) == usec[t] = "begin" /\ N!Unsubscribe /\ usec' = [usec EXCEPT ![t] = "done"] /\ UNCHANGED <<pend, ssec, l>>
UnsubEnd == /\ Has /\ E.ev = "ns_unsub_end" /\ usec[E.t] = "done" /\ usec' = [usec EXCEPT ![E.t] = ""]
            /\ UNCHANGED <<nvars, pend, ssec>> /\ Step
SnapBegin == /\ Has /\ E.ev = "ns_snap_begin" /\ ssec = "" /\ rd = <<>> /\ E.n = readIdx + 1 /\ ssec' = "begin"
             /\ UNCHANGED <<nvars, pend, usec>> /\ Step
SnapDo == ssec = "begin" /\ N!ReaderSnap /\ ssec' = "done" /\ UNCHANGED <<pend, usec, l>>
SnapEnd == /\ Has /\ E.ev = "ns_snap_end" /\ ssec = "done" /\ E.n = readIdx /\ E.has = (rd # <<>>) /\ ssec' = ""
           /\ UNCHANGED <<nvars, pend, usec>> /\ Step
\* the lock-free send succeeded, some time after the snapshot (never logged)
SilentSend == ssec = "" /\ rd # <<>> /\ rd[2] \in alive /\ N!ReaderSend /\ UNCHANGED <<pend, usec, ssec, l>>
SendFail == /\ Has /\ E.ev = "ns_sendfail" /\ ssec = "" /\ rd # <<>> /\ rd[1] = E.n /\ rd[2] \notin alive
            /\ E.cleared = (slot = rd[2])
            /\ N!ReaderSend /\ UNCHANGED <<pend, usec, ssec>> /\ Step
Invoke == /\ Has /\ E.ev = "inv" /\ pend[E.t].st = "idle"
          /\ pend' = [pend EXCEPT ![E.t] = [st |-> "inv", op |-> E.op, ret |-> <<>>]]
          /\ UNCHANGED <<nvars, usec, ssec>> /\ Step
Lin(t) == /\ pend[t].st = "inv"
          /\ LET o == pend[t].op IN
             IF o.name = "drop" THEN N!DropReceiver(o.tok) /\ pend' = [pend EXCEPT ![t].st = "lin", ![t].ret = "ok"]
             ELSE IF o.name = "drain" THEN pend' = [pend EXCEPT ![t].st = "lin", ![t].ret = queue[o.tok]] /\ N!Drain(o.tok)
             ELSE FALSE
          /\ UNCHANGED <<usec, ssec, l>>
Respond == /\ Has /\ E.ev = "res" /\ pend[E.t].st = "lin" /\ pend[E.t].ret = E.ret
           /\ pend' = [pend EXCEPT ![E.t] = Idle] /\ UNCHANGED <<nvars, usec, ssec>> /\ Step
Quiesce == /\ Has /\ E.ev = "quiesce" /\ readIdx = pushed /\ rd = <<>> /\ ssec = "" /\ E.pushed = pushed
           /\ UNCHANGED <<nvars, pend, usec, ssec>> /\ Step
Next == Reset \/ Push \/ SubBegin \/ Sub \/ UnsubBegin \/ UnsubEnd \/ SnapBegin \/ SnapDo \/ SnapEnd \/ SilentSend \/ SendFail \/ Invoke \/ Respond \/ Quiesce
        \/ (\E t \in Threads : Lin(t)) \/ (\E t \in UThreads : UnsubDo(t))
Spec == Init /\ [][Next]_<<nvars, pend, usec, ssec, l>>
LiveSubscriberKept == N!LiveSubscriberKept
AtMostOnce == N!AtMostOnce
Track == TLCSet(1, IF TLCGet(1) < l THEN l ELSE TLCGet(1))
Accepted == IF TLCGet(1) = Len(Rec) + 1 THEN TRUE
            ELSE PrintT(<<"UNMATCHED", TLCGet(1)>>) /\ FALSE
==============================================================================
