---------------------------- MODULE MC_ServerConn ----------------------------
EXTENDS ServerConn
R(k, n, e, b) == [kind |-> k, notify |-> n, exit |-> e, big |-> b]
\* eight requests mixing inline, rejected, off-reader return / error / panic, notifies, an oversized response
Mix8 == << R("off", FALSE, "ret", FALSE), R("inline", FALSE, "ret", TRUE), R("off", FALSE, "panic", FALSE), R("bad", FALSE, "ret", FALSE),
           R("off", TRUE, "ret", FALSE), R("off", FALSE, "err", TRUE), R("inline", TRUE, "err", FALSE), R("off", FALSE, "ret", FALSE) >>
Off6 == << R("off", FALSE, "ret", FALSE), R("off", FALSE, "panic", FALSE), R("off", FALSE, "err", FALSE), R("off", TRUE, "ret", FALSE),
           R("inline", FALSE, "ret", FALSE), R("off", FALSE, "ret", FALSE) >>
==============================================================================
