SPECIFICATION Spec
CONSTANTS
  MaxAttempts = 2
  ScriptLen = 4
  RetrySet <- RetriesApp
INVARIANTS AttemptBound RetryOnlyTransport StopAtFirstReply NotWedged
CHECK_DEADLOCK FALSE
