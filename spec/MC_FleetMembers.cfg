SPECIFICATION Spec
CONSTANTS
  Names = {"n1", "n2", "n3"}
  Tags = {"a", "b"}
  MaxAttempts = 2
  MatchAll = TRUE
  Invalidate = TRUE
INVARIANTS TypeOK FreshImpliesUp BroadcastExact NotWedged NoStaleAfterFanOut HealedAfterHealth
CHECK_DEADLOCK FALSE
