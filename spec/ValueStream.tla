---------------------------- MODULE ValueStream ----------------------------
(***************************************************************************)
(* Serialized value stream, download direction (src/value_stream.rs):      *)
(* producer thread -> ChunkSink (re-chunks whatever the body writes into   *)
(* chunk_bytes pieces) -> bounded sync_channel(session_depth) (depth 0 is  *)
(* a rendezvous) -> Session::pull with its one-chunk lookahead (the final  *)
(* chunk is the one followed by End) -> the `next` handler -> the client.  *)
(* The produced bytes are the positions 1..N.  The parameters (N, Chunk,   *)
(* Depth, FailAt) are drawn in Init so that one TLC run covers the whole   *)
(* parameter grid.  A cancel removes the session: a later next is an error.*)
(* Property decided here: C09 (property layer: Delivered / Lasts / ...;    *)
(* as-built layer: AsBuilt, the exact chunk sizes).                        *)
(***************************************************************************)
EXTENDS Integers, Sequences, FiniteSets, TLC
CONSTANTS Ns, Chunks, Depths, WriteSizes      \* parameter grid; FailAt ranges over 0..N and N+1 (= no failure)
VARIABLES N, Chunk, Depth, FailAt              \* fixed after Init
NoFail == FailAt > N
VARIABLES written,    \* bytes handed to the sink so far
          buf,        \* sink buffer (seq of byte positions)
          q,          \* channel queue of msgs
          blockedMsg, \* producer's in-flight send (<<>> if none)
          pstate,     \* "run" | "flushed" | "term" | "dead"
          look,       \* lookahead: <<>> or <<chunk>>
          cur,        \* handler's current chunk while between its two recvs: <<>> or <<chunk>>
          hpc,        \* handler pc: "idle" | "need1" | "need2"
          done, inTable,
          replies,    \* sequence of replies seen by the client: <<"chunk", bytes, last>> | <<"err">>
          wantMore,   \* client keeps pulling (one extra pull after the end to test "past the end")
          cancelled,  \* the client cancelled (released) the stream
          cancelIdx   \* number of replies that may still be non-errors when the release happened (those of a `next` already in progress)
vars == <<N, Chunk, Depth, FailAt, written, buf, q, blockedMsg, pstate, look, cur, hpc, done, inTable, replies, wantMore, cancelled, cancelIdx>>
params == <<N, Chunk, Depth, FailAt>>
Seq1(a,b) == [i \in 1..(b-a+1) |-> a+i-1]
ChunkMsg(c) == [k |-> "chunk", b |-> c]
EndMsg == [k |-> "end", b |-> <<>>]
FailMsg == [k |-> "fail", b |-> <<>>]
Init == /\ N \in Ns /\ Chunk \in Chunks /\ Depth \in Depths /\ FailAt \in 0..(N + 1) /\ cancelled = FALSE /\ cancelIdx = 0
        /\ written = 0 /\ buf = <<>> /\ q = <<>> /\ blockedMsg = <<>> /\ pstate = "run"
        /\ look = <<>> /\ cur = <<>> /\ hpc = "idle" /\ done = FALSE /\ inTable = TRUE
        /\ replies = <<>> /\ wantMore = 2
\* --- channel: capacity Depth; with Depth = 0 a send completes only when a receiver is waiting (hpc # "idle")
CanEnqueue == IF Depth = 0 THEN (hpc \in {"need1","need2"} /\ q = <<>>) ELSE Len(q) < Depth
TrySend(m) == IF CanEnqueue THEN q' = Append(q, m) /\ blockedMsg' = <<>>
              ELSE blockedMsg' = <<m>> /\ UNCHANGED q
\* --- producer
PWrite(k) == /\ pstate = "run" /\ blockedMsg = <<>> /\ written < N /\ (NoFail \/ written < FailAt)
             /\ LET lim == IF NoFail THEN N ELSE FailAt
                    kk == IF written + k > lim THEN lim - written ELSE k
                    take == IF Len(buf) + kk > Chunk THEN Chunk - Len(buf) ELSE kk IN   \* one inner loop iteration
                /\ written' = written + take
                /\ LET nb == buf \o Seq1(written+1, written+take) IN
                   IF Len(nb) >= Chunk THEN buf' = <<>> /\ TrySend(ChunkMsg(nb))
                   ELSE buf' = nb /\ UNCHANGED <<q, blockedMsg>>
             /\ UNCHANGED <<pstate, look, cur, hpc, done, inTable, replies, wantMore>>
PUnblock == /\ blockedMsg # <<>> /\ (inTable \/ hpc # "idle") /\ CanEnqueue      \* the receiver lives as long as the table entry or a handler in progress holds it
            /\ q' = Append(q, blockedMsg[1]) /\ blockedMsg' = <<>>
            /\ UNCHANGED <<written, buf, pstate, look, cur, hpc, done, inTable, replies, wantMore>>
PFinish == /\ pstate = "run" /\ blockedMsg = <<>>
           /\ \/ (NoFail /\ written = N)        \* body done: flush remainder
              \/ (~NoFail /\ written = FailAt)   \* body failed
           /\ IF NoFail /\ buf # <<>> THEN buf' = <<>> /\ TrySend(ChunkMsg(buf)) ELSE UNCHANGED <<buf, q, blockedMsg>>
           /\ pstate' = "flushed"
           /\ UNCHANGED <<written, look, cur, hpc, done, inTable, replies, wantMore>>
PTerm == /\ pstate = "flushed" /\ blockedMsg = <<>>
         /\ TrySend(IF NoFail THEN EndMsg ELSE FailMsg) /\ pstate' = "term"
         /\ UNCHANGED <<written, buf, look, cur, hpc, done, inTable, replies, wantMore>>
\* --- client issues next; handler = NextHandler::handle
CNext == /\ hpc = "idle" /\ wantMore > 0
         /\ IF ~inTable THEN replies' = Append(replies, <<"err", <<>>, FALSE>>) /\ wantMore' = wantMore - 1 /\ UNCHANGED <<hpc, cur, look>>
            ELSE IF done THEN replies' = Append(replies, <<"err", <<>>, FALSE>>) /\ wantMore' = wantMore - 1 /\ UNCHANGED <<hpc, cur, look>>
            ELSE IF look # <<>> THEN cur' = look /\ look' = <<>> /\ hpc' = "need2" /\ UNCHANGED <<replies, wantMore>>
            ELSE hpc' = "need1" /\ UNCHANGED <<replies, wantMore, cur, look>>
         /\ UNCHANGED <<written, buf, q, blockedMsg, pstate, done, inTable>>
Reply(kind, bytes, last) == /\ replies' = Append(replies, <<kind, bytes, last>>)
                            /\ hpc' = "idle" /\ cur' = <<>>
                            /\ IF last \/ kind = "err" THEN done' = TRUE /\ inTable' = FALSE /\ wantMore' = wantMore - 1
                               ELSE UNCHANGED <<done, inTable, wantMore>>
\* the producer thread dies (a panic in the body): the channel closes without End or Fail.  What was already
\* queued can still be received; after that a receive reports the closed channel, which Session::recv turns into Fail.
PDie == /\ pstate \in {"run", "flushed"} /\ pstate' = "dead" /\ blockedMsg' = <<>> /\ buf' = <<>>
        /\ UNCHANGED <<written, q, look, cur, hpc, done, inTable, replies, wantMore>>
HRecvClosed == /\ hpc \in {"need1", "need2"} /\ q = <<>> /\ pstate = "dead"
               /\ Reply("err", <<>>, FALSE) /\ UNCHANGED <<look, written, buf, q, blockedMsg, pstate>>
HRecv1 == /\ hpc = "need1" /\ q # <<>>
          /\ LET m == Head(q) IN
             /\ q' = Tail(q)
             /\ CASE m.k = "chunk" -> cur' = <<m.b>> /\ hpc' = "need2" /\ UNCHANGED <<replies, done, inTable, wantMore, look>>
                  [] m.k = "end"   -> Reply("chunk", <<>>, TRUE) /\ UNCHANGED look
                  [] m.k = "fail"  -> Reply("err", <<>>, FALSE) /\ UNCHANGED look
          /\ UNCHANGED <<written, buf, blockedMsg, pstate>>
HRecv2 == /\ hpc = "need2" /\ q # <<>>
          /\ LET m == Head(q) IN
             /\ q' = Tail(q)
             /\ CASE m.k = "chunk" -> look' = <<m.b>> /\ Reply("chunk", cur[1], FALSE)
                  [] m.k = "end"   -> Reply("chunk", cur[1], TRUE) /\ UNCHANGED look
                  [] m.k = "fail"  -> Reply("err", <<>>, FALSE) /\ UNCHANGED look
          /\ UNCHANGED <<written, buf, blockedMsg, pstate>>
\* the client releases the stream between two pulls: the session leaves the table
\* (from the same connection between two pulls, or from another connection while a `next` is parked on the producer:
\* that `next` still completes, every later one is an error)
CCancel == /\ inTable /\ ~cancelled /\ wantMore > 0
           /\ inTable' = FALSE /\ cancelled' = TRUE
           /\ cancelIdx' = Len(replies) + (IF hpc = "idle" THEN 0 ELSE 1)
           /\ UNCHANGED <<written, buf, q, blockedMsg, pstate, look, cur, hpc, done, replies, wantMore>>
Core == (\E k \in WriteSizes : PWrite(k)) \/ PUnblock \/ PFinish \/ PTerm \/ CNext \/ HRecv1 \/ HRecv2 \/ HRecvClosed
Die == PDie /\ UNCHANGED <<cancelled, cancelIdx>>
Next == ((Core /\ UNCHANGED <<cancelled, cancelIdx>>) \/ CCancel \/ Die) /\ UNCHANGED params
Spec == Init /\ [][Next]_vars /\ WF_vars(Core /\ UNCHANGED <<cancelled, cancelIdx>> /\ UNCHANGED params)
SpecNoCancel == Init /\ [][(Core /\ UNCHANGED <<cancelled, cancelIdx>>) /\ UNCHANGED params]_vars /\ WF_vars(Core /\ UNCHANGED <<cancelled, cancelIdx>> /\ UNCHANGED params)
\* --- property layer
RECURSIVE Concat(_)
Concat(rs) == IF rs = <<>> THEN <<>> ELSE (IF Head(rs)[1] = "chunk" THEN Head(rs)[2] ELSE <<>>) \o Concat(Tail(rs))
Delivered == Concat(replies)
Lasts == {i \in 1..Len(replies) : replies[i][3]}
PrefixOk == Delivered = Seq1(1, Len(Delivered))          \* in order, no dup, no gap
AtMostOneLast == Cardinality(Lasts) <= 1
LastIsComplete == \A i \in Lasts : Concat(SubSeq(replies, 1, i)) = Seq1(1, N) /\ NoFail /\ pstate # "dead"
\* after a release every further pull is an error (never a chunk, never an end marker)
AfterCancelError == cancelled => \A i \in 1..Len(replies) : i > cancelIdx => replies[i][1] = "err"
NothingAfterEnd == \A i \in 1..Len(replies) : (\E j \in 1..(i-1) : replies[j][3] \/ replies[j][1] = "err") => replies[i][1] = "err"
FailNeverLast == (~NoFail \/ pstate = "dead") => Lasts = {}
EmptyIsSingle == (N = 0 /\ NoFail /\ replies # <<>> /\ ~cancelled /\ pstate # "dead") => replies[1] = <<"chunk", <<>>, TRUE>>
Finishes == <>(wantMore = 0 \/ (cancelled /\ hpc = "idle"))
\* as-built layer: the reply sequence is a function of the constants (confluence)
ExpectedChunks == LET full == N \div Chunk  rem == N % Chunk IN full + (IF rem > 0 THEN 1 ELSE 0)
AsBuilt == (NoFail /\ wantMore = 0 /\ ~cancelled /\ pstate # "dead") =>
              /\ Len(replies) = (IF N = 0 THEN 1 ELSE ExpectedChunks) + 1
              /\ \A i \in 1..ExpectedChunks : Len(replies[i][2]) = (IF i * Chunk <= N THEN Chunk ELSE N % Chunk)
=============================================================================
