SPECIFICATION Spec
CONSTANTS
  Peers = {1, 2, 3}
  Keys = {"a", "b", "c"}
  Dump = TRUE
VIEW View
INVARIANT InitDumpInv
ACTION_CONSTRAINT EdgeDump
CHECK_DEADLOCK FALSE
