SPECIFICATION Spec
CONSTANTS
  Chunks = 3
  RequireEnd = TRUE
  PreDest = "absent"
CONSTRAINT StateBound
INVARIANTS DestNeverPartial PublishedOnlyWhenComplete FailureLeavesNothing KillLeavesDest
CHECK_DEADLOCK FALSE
