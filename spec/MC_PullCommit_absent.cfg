SPECIFICATION Spec
CONSTANTS
  Chunks = 3
  PreDest = "absent"
INVARIANTS DestNeverPartial PublishedOnlyWhenComplete FailureLeavesNothing KillLeavesDest
CHECK_DEADLOCK FALSE
