--------------------------- MODULE Trace_RepeWire ---------------------------
(* Trace specification for C01 / C02.  Every line is judged on its own          *)
(* (the codec is stateless):                                                      *)
(*   parse : a buffer (first 48 bytes + total length) was given to an entry point *)
(*           of family header | slice | exact | stream; the outcome must be "ok"  *)
(*           exactly when the specification's verdict is ok, never a panic or an  *)
(*           abort, and on success the query/body must be the input bytes at the  *)
(*           offsets the specification computes.                                  *)
(*   emit  : a message with the logged fields and payload lengths was emitted on  *)
(*           every route; the 48 header bytes must be HeaderBytes of those fields *)
(*           with the length equation, all routes byte-identical, payload intact, *)
(*           and every parser returns the fields.                                 *)
(* Disagreements are collected (line, kind); the whole file is always consumed.  *)
EXTENDS Integers, Sequences, TLC, Json, IOUtils
W == INSTANCE RepeWire
Rec == ndJsonDeserialize(IOEnv.TRACE)
VARIABLE l
E == Rec[l]
ASSUME TLCSet(2, <<>>)

Pad48(hb) == hb \o [i \in 1..(48 - Len(hb)) |-> 0]
VerdictOf(e) == LET hb == IF Len(e.hb) < 48 THEN Pad48(e.hb) ELSE e.hb IN
                CASE e.entry = "header" -> W!HeaderVerdict(hb, e.buflen)
                  [] e.entry = "slice"  -> W!SliceVerdict(hb, e.buflen, FALSE)
                  [] e.entry = "exact"  -> W!SliceVerdict(hb, e.buflen, TRUE)
                  [] e.entry = "stream" -> W!StreamVerdict(hb, e.buflen)

ParseBad(e) ==
    LET v == VerdictOf(e) IN
    IF e.outcome \in {"panic", "abort"} THEN e.outcome
    ELSE IF e.outcome = "ok_wrong_bytes" THEN "wrong_bytes"
    ELSE IF (e.outcome = "ok") # (v = "ok") THEN "verdict"
    ELSE IF e.outcome = "ok" /\ e.entry # "header"
    THEN LET r == W!OkRegions(e.hb) IN
         IF e.qoff = r.qoff /\ e.qlen = r.qlen /\ e.boff = r.boff /\ e.blen = r.blen THEN "" ELSE "regions"
    ELSE ""

EmitBad(e) ==
    LET h == e.fields
        want == W!Framed(h, e.qn, e.bn) IN
    IF ~W!WellSized(h) THEN "field_width"
    ELSE IF want # h THEN "length_equation"             \* the three length fields the message carries
    ELSE IF e.hb # W!HeaderBytes(h) THEN "layout"
    ELSE IF e.total # 48 + e.qn + e.bn THEN "frame_length"
    ELSE IF Len(e.routes_differing) # 0 THEN "routes"
    ELSE IF ~e.payload_ok THEN "payload"
    ELSE IF Len(e.parsers_differing) # 0 THEN "roundtrip"
    ELSE ""

Judge(kind) == (kind # "") => TLCSet(2, Append(TLCGet(2), <<l, kind>>))
Step == /\ l <= Len(Rec) /\ l' = l + 1
        /\ CASE E.ev = "parse" -> Judge(ParseBad(E))
             [] E.ev = "emit" -> Judge(EmitBad(E))
Init == l = 1
Spec == Init /\ [][Step]_l
Accepted == /\ PrintT(<<"MISMATCHES", ToJson(TLCGet(2))>>)
            /\ IF TLCGet("stats").diameter = Len(Rec) + 1 THEN TRUE
               ELSE PrintT(<<"UNMATCHED", TLCGet("stats").diameter>>) /\ FALSE
==============================================================================
