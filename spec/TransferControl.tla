--------------------------- MODULE TransferControl ---------------------------
(***************************************************************************)
(* Credit / ack / cancel / advance / resume accounting and the replay ring *)
(* of repe::stream::TransferControl (src/stream.rs).                       *)
(*                                                                         *)
(* Every action below is the body of ONE mutex critical section of the     *)
(* implementation, i.e. one public call on a TransferControl.  The two     *)
(* blocking calls appear here in their non-blocking form ("probe": the     *)
(* call made with an already expired deadline, which evaluates the wait    *)
(* predicate exactly once); the blocking protocol itself (park / notify /  *)
(* wake) is TransferSync.tla, which reuses these action bodies.            *)
(*                                                                         *)
(* Numbers.  All offsets, lengths, the window and the ring capacity are    *)
(* u64 in the code, and TLC integers are 32 bit.  The module is therefore  *)
(* written over an abstract number domain given by operator constants:     *)
(* the exhaustive configurations instantiate it with Nat (MC_*.tla), the   *)
(* trace specification with 8-byte little-endian tuples (U64.tla).  Only   *)
(* Zero, Add (saturating), SatSub and Leq are needed.                      *)
(*                                                                         *)
(* Properties decided here: C11 (credit accounting), C13 (replay ring).    *)
(***************************************************************************)
LOCAL INSTANCE Naturals
LOCAL INSTANCE Sequences

CONSTANTS Zero,            \* the number 0 of the domain
          Add(_, _),       \* saturating addition
          SatSub(_, _),    \* saturating subtraction
          Leq(_, _)        \* total order

VARIABLES window,     \* window_bytes (fixed after construction)
          cap,        \* replay capacity in wire bytes (fixed after construction)
          sent,       \* sent_offset
          acked,      \* acked_offset
          file,       \* current_file_index (only ever compared for equality)
          cancelled,  \* <<>> or <<reason>> : first reason wins
          pending,    \* <<>> or <<resume_at_offset>> : staged resume
          peer,       \* <<>> or <<peer id>> : the peer slot (set_peer / accepted resume)
          ring,       \* Seq of [off, dlen, wlen, last, tag], oldest first
          last        \* label of the last action: [op, ..., ret]  (observation only)

tcvars == <<window, cap, sent, acked, file, cancelled, pending, peer, ring>>
vars == <<tcvars, last>>

Lt(a, b) == Leq(a, b) /\ a # b
MinN(a, b) == IF Leq(a, b) THEN a ELSE b
InFlight == SatSub(sent, acked)

--------------------------------------------------------------------------------
(* Replay ring                                                             *)

RECURSIVE SumW(_, _)
SumW(r, i) == IF i = 0 THEN Zero ELSE Add(r[i].wlen, SumW(r, i - 1))
WireHeldOf(r) == SumW(r, Len(r))
WireHeld == WireHeldOf(ring)

EndOf(c) == Add(c.off, c.dlen)
RingEnd == EndOf(ring[Len(ring)])              \* only meaningful if ring # <<>>
NextOff == IF ring = <<>> THEN Zero ELSE RingEnd  \* where the documented producer pushes next

\* evict oldest-first while over capacity, never the only chunk
RECURSIVE Evict(_, _)
Evict(r, c) == IF Lt(c, WireHeldOf(r)) /\ Len(r) > 1 THEN Evict(Tail(r), c) ELSE r

Covers(o) == IF ring = <<>> THEN o = Zero
             ELSE (\E i \in 1..Len(ring) : ring[i].off = o) \/ RingEnd = o

ReplayFrom(o) == SelectSeq(ring, LAMBDA c : Leq(o, c.off))

--------------------------------------------------------------------------------
(* Actions                                                                 *)

TCInit(w, c, f0) ==
    /\ window = w /\ cap = c /\ sent = Zero /\ acked = Zero /\ file = f0
    /\ cancelled = <<>> /\ pending = <<>> /\ peer = <<>> /\ ring = <<>>

\* constructing a fresh object (used by trace specifications between runs)
Reset(w, c, f0) ==
    /\ window' = w /\ cap' = c /\ sent' = Zero /\ acked' = Zero /\ file' = f0
    /\ cancelled' = <<>> /\ pending' = <<>> /\ peer' = <<>> /\ ring' = <<>>
    /\ last' = [op |-> "reset"]

\* set_peer
SetPeer(p) ==
    /\ peer' = <<p>>
    /\ last' = [op |-> "set_peer", p |-> p]
    /\ UNCHANGED <<window, cap, sent, acked, file, cancelled, pending, ring>>

\* push_replay(off, dlen, lastflag, body) with |body| = wlen and content tag
PushAt(off, d, w, lf, tg) ==
    /\ ring' = Evict(Append(ring, [off |-> off, dlen |-> d, wlen |-> w, last |-> lf, tag |-> tg]), cap)
    /\ last' = [op |-> "push", off |-> off, dlen |-> d, wlen |-> w, lastflag |-> lf, tag |-> tg]
    /\ UNCHANGED <<window, cap, sent, acked, file, cancelled, pending, peer>>

\* the documented producer pushes chunks that abut
Push(d, w, lf, tg) == PushAt(NextOff, d, w, lf, tg)

\* record_sent(o): monotone max
RecordSent(o) ==
    /\ sent' = IF Lt(sent, o) THEN o ELSE sent
    /\ last' = [op |-> "sent", o |-> o]
    /\ UNCHANGED <<window, cap, acked, file, cancelled, pending, peer, ring>>

\* record_ack(f, o): current file only, capped to sent, strict increase only
AckTarget(f, o) == IF f = file /\ Lt(acked, MinN(o, sent)) THEN MinN(o, sent) ELSE acked
RecordAck(f, o) ==
    /\ acked' = AckTarget(f, o)
    /\ last' = [op |-> "ack", f |-> f, o |-> o, released |-> (AckTarget(f, o) # acked)]
    /\ UNCHANGED <<window, cap, sent, file, cancelled, pending, peer, ring>>

\* cancel(r): sticky, first reason wins
Cancel(r) ==
    /\ cancelled' = IF cancelled = <<>> THEN <<r>> ELSE cancelled
    /\ last' = [op |-> "cancel", r |-> r, first |-> (cancelled = <<>>)]
    /\ UNCHANGED <<window, cap, sent, acked, file, pending, peer, ring>>

\* advance_to_file(f): zero the offsets, clear ring and pending resume
Advance(f) ==
    /\ file' = f /\ sent' = Zero /\ acked' = Zero /\ ring' = <<>> /\ pending' = <<>>
    /\ last' = [op |-> "advance", f |-> f]
    /\ UNCHANGED <<window, cap, cancelled, peer>>

\* request_resume(p, f, o)
ResumeVerdict(f, o) == IF cancelled # <<>> THEN "cancelled"
                       ELSE IF f # file THEN "wrong_file"
                       ELSE IF ~Covers(o) THEN "out_of_window" ELSE "ok"
Resume(p, f, o) ==
    LET v == ResumeVerdict(f, o) IN
    /\ last' = [op |-> "resume", p |-> p, f |-> f, o |-> o, ret |-> v,
                replay |-> IF v = "ok" THEN ReplayFrom(o) ELSE <<>>]
    /\ IF v = "ok"
       THEN /\ pending' = <<o>>
            /\ peer' = <<p>>
            /\ acked' = IF Lt(acked, o) /\ Leq(o, sent) THEN o ELSE acked
       ELSE UNCHANGED <<pending, peer, acked>>
    /\ UNCHANGED <<window, cap, sent, file, cancelled, ring>>

\* wait_for_credit(len, <expired deadline>) : the wait predicate evaluated once
CreditReady(len) == InFlight = Zero \/ Leq(Add(InFlight, len), window)
CreditRet(len) == IF cancelled # <<>> THEN <<"cancelled", cancelled[1]>>
                  ELSE IF CreditReady(len) THEN <<"ok", "">>
                  ELSE <<"timeout", "">>
CreditProbe(len) ==
    /\ last' = [op |-> "credit", len |-> len, ret |-> CreditRet(len)]
    /\ UNCHANGED tcvars

\* wait_for_reconnect(0) : consumes the staged resume
ReconnectRet == IF cancelled # <<>> THEN [kind |-> "cancelled", reason |-> cancelled[1], off |-> Zero]
                ELSE IF pending # <<>> THEN [kind |-> "resume", reason |-> "", off |-> pending[1]]
                ELSE [kind |-> "timeout", reason |-> "", off |-> Zero]
ReconnectProbe ==
    /\ last' = [op |-> "reconnect", ret |-> ReconnectRet]
    /\ pending' = IF cancelled = <<>> THEN <<>> ELSE pending
    /\ UNCHANGED <<window, cap, sent, acked, file, cancelled, peer, ring>>

\* replay_chunks_from(o) : pure observation
ReplayQuery(o) ==
    /\ last' = [op |-> "replay_from", o |-> o, replay |-> ReplayFrom(o)]
    /\ UNCHANGED tcvars

--------------------------------------------------------------------------------
(* State invariants (C11, C13)                                             *)

AckedLeSent == Leq(acked, sent)

Contiguous == \A i \in 1..(Len(ring) - 1) : ring[i + 1].off = EndOf(ring[i])

Bounded == Leq(WireHeld, cap) \/ Len(ring) <= 1

\* what the resume theorem says about an offered replay `rp` for offset o, given
\* the ring it was taken from (state before the action) and the last byte pushed
GaplessTail(rp, o) ==
    /\ (rp = <<>> => (ring = <<>> /\ o = Zero) \/ (ring # <<>> /\ o = RingEnd))
    /\ (rp # <<>> => /\ rp[1].off = o
                     /\ \A i \in 1..(Len(rp) - 1) : rp[i + 1].off = EndOf(rp[i])
                     /\ EndOf(rp[Len(rp)]) = RingEnd
                     \* byte-identical: exactly the retained chunks, in order
                     /\ \E k \in 1..Len(ring) : rp = SubSeq(ring, k, Len(ring)))

(* Action properties; they speak about last' and the pre-state, so they are  *)
(* checked as [][...]_vars in the MC modules.                                *)
CancelStickyStep == cancelled # <<>> => cancelled' = cancelled
AckNoReleaseStep == (last'.op = "ack" /\ (last'.f # file \/ Leq(last'.o, acked))) => acked' = acked
AckMonotoneStep == last'.op = "ack" => Leq(acked, acked') /\ Leq(acked', sent')
GrantSoundStep == (last'.op = "credit" /\ last'.ret[1] = "ok") =>
                      (cancelled = <<>> /\ (InFlight = Zero \/ Leq(Add(InFlight, last'.len), window)))
CancelReportedStep ==
    /\ (last'.op = "credit" /\ cancelled # <<>>) => last'.ret = <<"cancelled", cancelled[1]>>
    /\ (last'.op = "reconnect" /\ cancelled # <<>>) => (last'.ret.kind = "cancelled" /\ last'.ret.reason = cancelled[1])
    /\ (last'.op = "resume" /\ cancelled # <<>>) => last'.ret = "cancelled"
ResumeGaplessStep == (last'.op = "resume" /\ last'.ret = "ok") => GaplessTail(last'.replay, last'.o)
ResumeOnlyCurrentStep == (last'.op = "resume" /\ last'.ret = "ok") =>
                             (last'.f = file /\ cancelled = <<>> /\ Covers(last'.o))
AdvanceClearsStep == last'.op = "advance" => (ring' = <<>> /\ pending' = <<>> /\ sent' = Zero /\ acked' = Zero)
KeepsNewestStep == last'.op = "push" =>
                      /\ ring' # <<>>
                      /\ ring'[Len(ring')].off = last'.off /\ ring'[Len(ring')].tag = last'.tag
                      \* eviction removes a prefix of (old ring + new chunk): oldest first
                      /\ \E k \in 1..(Len(ring) + 1) :
                            ring' = SubSeq(Append(ring, ring'[Len(ring')]), k, Len(ring) + 1)
==============================================================================
