SPECIFICATION Spec
CONSTANTS
  Cap = 1
  Reqs <- Off6
  Limit = TRUE
INVARIANTS CapRespected ExactlyOne NeverTwo InvokedOnce InlineFIFO SaturationSound PanicContained NoOversize
PROPERTIES NoLeak AllAnswered
CHECK_DEADLOCK FALSE
