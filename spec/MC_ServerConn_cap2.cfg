SPECIFICATION Spec
CONSTANTS
  Cap = 2
  Reqs <- Mix8
  Limit = TRUE
INVARIANTS CapRespected ExactlyOne NeverTwo InvokedOnce InlineFIFO SaturationSound PanicContained NoOversize
PROPERTIES NoLeak AllAnswered
CHECK_DEADLOCK FALSE
