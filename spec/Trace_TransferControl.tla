------------------------ MODULE Trace_TransferControl ------------------------
(* Trace specification: validates ND-JSON histories recorded from the real  *)
(* repe::stream::TransferControl against TransferControl.tla instantiated    *)
(* with 64-bit arithmetic (U64.tla).  One spec step per logged call; every  *)
(* event carries the call's arguments, its result and the observable state  *)
(* after it, all of which must equal what the specification computes.       *)
EXTENDS Naturals, Sequences, TLC, Json, IOUtils

U == INSTANCE U64
Rec == ndJsonDeserialize(IOEnv.TRACE)

VARIABLES window, cap, sent, acked, file, cancelled, pending, peer, ring, last,
          taint,   \* "" or the class ("credit" = C11, "ring" = C13) of the first disagreement of this run
          l

UAdd(a, b) == U!SatAdd(a, b)
USub(a, b) == U!SatSub(a, b)
ULeq(a, b) == U!Leq(a, b)
TC == INSTANCE TransferControl WITH Zero <- U!Zero, Add <- UAdd, SatSub <- USub, Leq <- ULeq

tvars == <<window, cap, sent, acked, file, cancelled, pending, peer, ring, last, taint, l>>
E == Rec[l]

ASSUME TLCSet(2, <<>>)

Init == /\ window = U!Zero /\ cap = U!Zero /\ sent = U!Zero /\ acked = U!Zero /\ file = "f0"
        /\ cancelled = <<>> /\ pending = <<>> /\ peer = <<>> /\ ring = <<>>
        /\ last = [op |-> "init"] /\ taint = "" /\ l = 1

(* The specification always follows its OWN state; the event's logged result and  *)
(* post-state are compared with it.  The first disagreement of a run is classified *)
(* by the property it belongs to and recorded; the rest of that run is tainted     *)
(* (not judged), the next "reset" starts clean.                                     *)
Kinds(a, b) == {a, b}
Classify ==
    IF E.ev = "resume" /\ last'.ret # E.ret
    THEN (IF "cancelled" \in Kinds(last'.ret, E.ret) THEN "credit" ELSE "ring")
    ELSE IF E.ev = "credit" /\ last'.ret # E.ret THEN "credit"
    ELSE IF E.ev = "reconnect" /\ last'.ret # E.ret
    THEN (IF "cancelled" \in Kinds(last'.ret.kind, E.ret.kind) THEN "credit" ELSE "ring")
    ELSE IF sent' # E.post.sent \/ acked' # E.post.acked \/ cancelled' # E.post.cancelled THEN "credit"
    ELSE IF ring' # E.post.ring \/ peer' # E.post.peer THEN "ring"
    ELSE IF E.ev \in {"resume", "replay_from"} /\ last'.replay # E.replay THEN "ring"
    ELSE ""
Judge == /\ taint' = IF taint # "" THEN taint ELSE Classify
         /\ (taint = "" /\ taint' # "") => TLCSet(2, Append(TLCGet(2), <<l, taint'>>))

Step ==
  /\ l <= Len(Rec) /\ l' = l + 1
  /\ CASE E.ev = "reset"     -> TC!Reset(E.window, E.cap, E.file) /\ taint' = ""
       [] E.ev = "push"      -> TC!PushAt(E.off, E.dlen, E.wlen, E.lastflag, E.tag) /\ Judge
       [] E.ev = "sent"      -> TC!RecordSent(E.o) /\ Judge
       [] E.ev = "ack"       -> TC!RecordAck(E.f, E.o) /\ Judge
       [] E.ev = "cancel"    -> TC!Cancel(E.r) /\ Judge
       [] E.ev = "advance"   -> TC!Advance(E.f) /\ Judge
       [] E.ev = "set_peer"  -> TC!SetPeer(E.p) /\ Judge
       [] E.ev = "resume"    -> TC!Resume(E.p, E.f, E.o) /\ Judge
       [] E.ev = "credit"    -> TC!CreditProbe(E.len) /\ Judge
       [] E.ev = "reconnect" -> TC!ReconnectProbe /\ Judge
       [] E.ev = "replay_from" -> TC!ReplayQuery(E.o) /\ Judge
       \* the code under test panicked inside the call named by E.during
       [] E.ev = "panic"     -> /\ UNCHANGED <<window, cap, sent, acked, file, cancelled, pending, peer, ring, last>>
                                /\ taint' = IF taint # "" THEN taint
                                            ELSE IF E.during \in {"push", "resume", "replay_from", "reconnect"} THEN "ring" ELSE "credit"
                                /\ (taint = "") => TLCSet(2, Append(TLCGet(2), <<l, taint'>>))

Spec == Init /\ [][Step]_tvars

\* every invariant of the property layer is evaluated in every state of the trace
AckedLeSent == TC!AckedLeSent
Contiguous == TC!Contiguous
Bounded == TC!Bounded
StepProps == [][ /\ TC!CancelStickyStep \/ last'.op = "reset"
                 /\ TC!AckNoReleaseStep /\ TC!AckMonotoneStep /\ TC!GrantSoundStep
                 /\ TC!CancelReportedStep /\ TC!ResumeGaplessStep /\ TC!ResumeOnlyCurrentStep
                 /\ TC!AdvanceClearsStep /\ TC!KeepsNewestStep ]_tvars

\* all lines consumed; disagreements are reported as <<line, class>> pairs
Accepted == /\ PrintT(<<"MISMATCHES", ToJson(TLCGet(2))>>)
            /\ IF TLCGet("stats").diameter = Len(Rec) + 1 THEN TRUE
               ELSE PrintT(<<"UNMATCHED", TLCGet("stats").diameter>>) /\ FALSE
==============================================================================
