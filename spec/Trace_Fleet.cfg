SPECIFICATION Spec
INVARIANT AttemptBound
POSTCONDITION Accepted
CHECK_DEADLOCK FALSE
