SPECIFICATION Spec
INVARIANTS IndexConsistent LookupSound
CONSTRAINT Track
POSTCONDITION Accepted
CHECK_DEADLOCK FALSE
