SPECIFICATION Spec
CONSTANTS
  Toks = {1, 2, 3}
  MaxNote = 3
  ClearOnlyOwn = FALSE
INVARIANTS LiveSubscriberKept AtMostOnce InOrder Sound
CHECK_DEADLOCK FALSE
