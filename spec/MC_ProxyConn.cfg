SPECIFICATION GSpec
CONSTANTS
  MaxFrames = 4
  GuardOn = TRUE
INVARIANTS OneReplyEach NoOversize CloseLast Faithful
PROPERTIES Silent Terminates
CHECK_DEADLOCK FALSE
