SPECIFICATION Spec
CONSTANTS
  Callers <- C3
  MaxJunk = 2
  AllowFault = TRUE
  AllowTimeout = TRUE
  AllowCancel = TRUE
  HasNotify = TRUE
  ShutFirst = TRUE
  Forwarders = {}
  ForwardRewinds = FALSE
INVARIANTS Correlated DistinctIds NotifyOnlyToSubscriber ChanAtMostOne NoResidue WaiterHasFuture

CHECK_DEADLOCK FALSE
