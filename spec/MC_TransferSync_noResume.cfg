SPECIFICATION Spec
CONSTANTS
  Window = 4
  Cap = 8
  Sigs = {1}
  OpAlphabet <- OpsFull
  MaxOps = 1
  WaitKinds <- Both
  WaitLens = {2}
  InitSents = {4}
  Notifiers <- NoResume
  AllowSpurious = TRUE
INVARIANTS NoLostWakeup TimeoutOnlyAtDeadline ResultSound

CHECK_DEADLOCK FALSE
