------------------------------ MODULE WireStream ------------------------------
(***************************************************************************)
(* What one endpoint puts on a connection (the writer side of the three    *)
(* clients and the three servers): several writers share the connection    *)
(* through one writer lock / one writer task; a frame is written in        *)
(* pieces; a write can be interrupted part-way (write timeout, stalled     *)
(* peer deadline, the caller abandoning its call).                         *)
(* Policy constant FailOnInterrupt: an interrupted write fails the         *)
(* connection (nothing is written afterwards).  TRUE is what the property  *)
(* demands; FALSE is what three endpoints did at the pinned commit.        *)
(* Property decided here: C05.                                             *)
(***************************************************************************)
EXTENDS Naturals, Sequences, FiniteSets
CONSTANTS Writers, FrameLen, FailOnInterrupt
VARIABLES stream,     \* atoms <<writer, index>> in the order they hit the wire
          holder,     \* who holds the writer lock (0 = free)
          progress, wstate, failed
vars == <<stream, holder, progress, wstate, failed>>
Free == 0
Init == /\ stream = <<>> /\ holder = Free /\ progress = [w \in Writers |-> 0]
        /\ wstate = [w \in Writers |-> "idle"] /\ failed = FALSE
Acquire(w) == /\ wstate[w] = "idle" /\ holder = Free
              /\ IF failed THEN wstate' = [wstate EXCEPT ![w] = "refused"] /\ UNCHANGED holder
                 ELSE holder' = w /\ wstate' = [wstate EXCEPT ![w] = "writing"]
              /\ UNCHANGED <<stream, progress, failed>>
WriteSome(w) == /\ wstate[w] = "writing" /\ holder = w /\ progress[w] < FrameLen
                /\ stream' = Append(stream, <<w, progress[w] + 1>>)
                /\ progress' = [progress EXCEPT ![w] = @ + 1]
                /\ UNCHANGED <<holder, wstate, failed>>
Finish(w) == /\ wstate[w] = "writing" /\ progress[w] = FrameLen /\ holder' = Free
             /\ wstate' = [wstate EXCEPT ![w] = "done"] /\ UNCHANGED <<stream, progress, failed>>
Interrupt(w) == /\ wstate[w] = "writing" /\ progress[w] < FrameLen
                /\ holder' = Free /\ wstate' = [wstate EXCEPT ![w] = "interrupted"]
                /\ failed' = (failed \/ (FailOnInterrupt /\ progress[w] > 0))
                /\ UNCHANGED <<stream, progress>>
Next == \E w \in Writers : Acquire(w) \/ WriteSome(w) \/ Finish(w) \/ Interrupt(w)
Spec == Init /\ [][Next]_vars

\* whole frames, optionally followed by ONE proper prefix of a frame, and then nothing
RECURSIVE Whole(_)
Whole(s) == IF s = <<>> THEN TRUE
            ELSE IF Len(s) >= FrameLen /\ \A i \in 1..FrameLen : s[i] = <<s[1][1], i>>
                 THEN Whole(SubSeq(s, FrameLen + 1, Len(s)))
                 ELSE \A i \in 1..Len(s) : s[i] = <<s[1][1], i>>
WholeFrames == Whole(stream)

\* the same statement over the segment list an independent parser produces from real bytes:
\* ["whole", id]* then optionally one ["prefix", id, n]; never "foreign" / "bad_header"
SegmentsOk(segs) == /\ \A i \in 1..Len(segs) : segs[i][1] \in {"whole", "prefix"}
                    /\ \A i \in 1..Len(segs) : segs[i][1] = "prefix" => i = Len(segs)
==============================================================================
