INIT GInit
NEXT GNext
CONSTANTS
  Names = {"n1", "n2", "n3"}
  Tags = {"a", "b"}
  MaxAttempts = 1
  MatchAll = TRUE
  Invalidate = TRUE
  Depth = 30
INVARIANTS Emit
CHECK_DEADLOCK FALSE
