SPECIFICATION Spec
CONSTANTS
  MaxAttempts = 3
  ScriptLen = 5
  RetrySet <- Intended
INVARIANTS AttemptBound RetryOnlyTransport StopAtFirstReply NotWedged
CHECK_DEADLOCK FALSE
