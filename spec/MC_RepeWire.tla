----------------------------- MODULE MC_RepeWire -----------------------------
(* Generators: TLC enumerates boundary-class products and prints one VEC line  *)
(* per vector with the verdict / bytes the specification expects.  The single   *)
(* "state" exists only so that TLC has something to run.                        *)
EXTENDS RepeWire, TLC, Json, FiniteSets
CONSTANTS Mode       \* informational; both vector families are constant-level, so TLC evaluates (prints) each exactly once
VARIABLE done

Z == U!Zero
S(n) == U!FromNat(n)
P31 == <<0, 0, 0, 128, 0, 0, 0, 0>>
P32 == <<0, 0, 0, 0, 1, 0, 0, 0>>
P62 == <<0, 0, 0, 0, 0, 0, 0, 64>>
P63 == <<0, 0, 0, 0, 0, 0, 0, 128>>
MaxM(k) == <<255 - k, 255, 255, 255, 255, 255, 255, 255>>    \* u64::MAX - k, k <= 255
\* boundary classes for the two payload-length fields
LenClasses == {Z, S(1), S(5), S(6), S(10), S(47), S(48), S(49), P31, P32, P62, P63}
              \cup {MaxM(k) : k \in {0, 1, 47, 48, 49, 53}}
BufLens == {0, 47, 48, 49, 53, 54, 58, 64}

\* for a (q, b) pair the interesting totals: the exact sum, the sum +- 1, the wrapped sum, and fixed classes
Totals(q, b) == LET t == ExactTotal(q, b)
                    w == U!WrapAdd(U!WrapAdd(S(48), q), b) IN
                {w, U!WrapAdd(w, S(1)), U!SatSub(w, S(1)), S(48), S(54), Z, MaxM(0)}

Hdr(len, q, b, magicOk) == [length |-> len, spec |-> IF magicOk THEN Magic ELSE <<7, 22>>, version |-> <<1>>, notify |-> <<0>>,
                            reserved |-> <<0, 0, 0, 0>>, id |-> S(9), qlen |-> q, blen |-> b, qfmt |-> <<1, 0>>, bfmt |-> <<2, 0>>, ec |-> <<0, 0, 0, 0>>]

EmitC02 ==
    \A q \in LenClasses, b \in LenClasses :
      \A len \in Totals(q, b), buflen \in BufLens, m \in BOOLEAN :
        LET hb == HeaderBytes(Hdr(len, q, b, m)) IN
        PrintT(<<"VEC", ToJson([hb |-> hb, buflen |-> buflen,
                                 header |-> HeaderVerdict(hb, buflen),
                                 slice |-> SliceVerdict(hb, buflen, FALSE),
                                 exact |-> SliceVerdict(hb, buflen, TRUE),
                                 stream |-> StreamVerdict(hb, buflen),
                                 regions |-> IF SliceVerdict(hb, buflen, FALSE) = "ok" THEN OkRegions(hb) ELSE [qoff |-> 0, qlen |-> 0, boff |-> 0, blen |-> 0]])>>)

\* C01: boundary byte patterns per field, pairwise; payload lengths 0..2; capacity relation
Pat(n) == {[i \in 1..n |-> 0], [i \in 1..n |-> 255], [i \in 1..n |-> IF i = n THEN 128 ELSE 0],
           [i \in 1..n |-> IF i = 1 THEN 1 ELSE 0], [i \in 1..n |-> IF i = n THEN 127 ELSE 255], [i \in 1..n |-> i]}
Base == [length |-> Z, spec |-> Magic, version |-> <<1>>, notify |-> <<0>>, reserved |-> <<0, 0, 0, 0>>, id |-> Z,
         qlen |-> Z, blen |-> Z, qfmt |-> <<0, 0>>, bfmt |-> <<0, 0>>, ec |-> <<0, 0, 0, 0>>]
FreeFields == {"version", "notify", "reserved", "id", "qfmt", "bfmt", "ec"}     \* fields a message may set freely
WidthOf(f) == Widths[f]
With(h, f, v) == [h EXCEPT ![f] = v]
EmitC01 ==
    \A f1 \in FreeFields, f2 \in FreeFields :
      (f1 # f2) =>
      \A v1 \in Pat(WidthOf(f1)), v2 \in Pat(WidthOf(f2)) :
        \A qn \in 0..2, bn \in 0..2 :
          LET h == Framed(With(With(Base, f1, v1), f2, v2), qn, bn) IN
          PrintT(<<"VEC", ToJson([fields |-> h, qn |-> qn, bn |-> bn, header_bytes |-> HeaderBytes(h),
                                   consistent |-> Consistent(h), roundtrip |-> Fields(HeaderBytes(h)) = h])>>)

Init == done = FALSE
Next == /\ ~done /\ done' = TRUE
        /\ EmitC02 /\ EmitC01
Spec == Init /\ [][Next]_done

\* ---- properties of the specification itself, checked by TLC on the same class product
LayoutProps ==
    \A f \in FreeFields : \A v \in Pat(WidthOf(f)) :
        LET h == Framed(With(Base, f, v), 1, 2) IN
        /\ WellSized(h) /\ Len(HeaderBytes(h)) = 48
        /\ Fields(HeaderBytes(h)) = h                      \* decode . encode = id on every field
        /\ Consistent(h)
VerdictProps ==
    \A q \in LenClasses, b \in LenClasses : \A len \in Totals(q, b), buflen \in BufLens :
        LET hb == HeaderBytes(Hdr(len, q, b, TRUE)) IN
        \* a parse succeeds only for a consistent header whose whole frame is in the buffer
        /\ (SliceVerdict(hb, buflen, FALSE) = "ok" =>
              (Consistent(Fields(hb)) /\ U!ToNatOrBig(len) # -1 /\ U!ToNatOrBig(len) <= buflen))
        /\ (SliceVerdict(hb, buflen, TRUE) = "ok" => U!ToNatOrBig(len) = buflen)
        /\ (StreamVerdict(hb, buflen) = "ok" => SliceVerdict(hb, buflen, FALSE) = "ok")
ASSUME LayoutProps
ASSUME VerdictProps
==============================================================================
