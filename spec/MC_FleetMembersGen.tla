------------------------- MODULE MC_FleetMembersGen -------------------------
(* Generator for the spec -> impl replay of FleetMembers (C19): TLC in simulation   *)
(* mode samples behaviours; a history variable records, for every step, the          *)
(* operation with its arguments, what it returns, which nodes saw a request, and     *)
(* the state afterwards.  The harness performs the same calls on a real Fleet /      *)
(* AsyncFleet in front of three scripted nodes and compares all of it.               *)
EXTENDS FleetMembers, Json
CONSTANT Depth
VARIABLE hist
GInit == Init /\ hist = <<>>
Rec(n, ts) == hist' = Append(hist, [n |-> n, ts |-> ts, ret |-> ret', seen |-> seen', members |-> members',
                                    conn |-> conn', stale |-> stale', up |-> up',
                                    tags |-> [m \in Names |-> tags'[m]]])
\* a duplicate add_node is sampled with the two extreme tag sets only (it must change nothing)
GNext == \/ \E n \in Names, ts \in TagSets : (n \in members => ts \in {{}, Tags}) /\ AddNode(n, ts) /\ Rec(n, ts)
         \/ \E n \in Names : (RemoveNode(n) \/ Call(n) \/ NodeDown(n) \/ NodeUp(n)) /\ Rec(n, {})
         \/ (ConnectAll \/ DisconnectAll \/ ReconnectDisconnected \/ HealthCheck) /\ Rec("", {})
         \/ \E k \in {"broadcast_json", "map_reduce_json"}, ts \in TagSets : Broadcast(k, ts) /\ Rec("", ts)
GSpec == GInit /\ [][GNext]_<<vars, hist>>
Emit == Len(hist) = Depth => PrintT(<<"BEH", ToJson([max_attempts |-> MaxAttempts, steps |-> hist])>>)
Stop == Len(hist) < Depth
==============================================================================
