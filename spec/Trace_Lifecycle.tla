---------------------------- MODULE Trace_Lifecycle ----------------------------
(* Trace specification for C15: one line per finished scenario (exit cause x      *)
(* phase x serving entry point x number of concurrent connections), judged with   *)
(* ConnLifecycle!Outcome:                                                         *)
(*   handshake succeeded -> connect hooks ran once and disconnect hooks exactly    *)
(*   once per connection, the peer and its alias were in the registry while the   *)
(*   connection was up and are gone afterwards; failed handshake -> neither hook;  *)
(*   notifications queued by connect callbacks precede every response on the wire;*)
(*   a handler still parked when the connection ended observed cancellation.      *)
EXTENDS Integers, Sequences, TLC, Json, IOUtils
Rec == ndJsonDeserialize(IOEnv.TRACE)
VARIABLES phase, guard, hook, connects, disconnects, inRegistry, tokenCancelled, offParked, offSawCancel, wire, l
L == INSTANCE ConnLifecycle WITH GuardFirst <- TRUE, Hooks <- 2
E == Rec[l]
ASSUME TLCSet(2, <<>>)
Bad(e) ==
    IF e.disconnect_before_connect THEN "disconnect_before_connect"
    ELSE IF e.handshake_ok /\ e.disconnects > e.conns THEN "disconnect_hooks_ran_twice"
    ELSE IF e.handshake_ok /\ e.disconnects < e.conns THEN "disconnect_hooks_missing"
    ELSE IF ~e.handshake_ok /\ (e.connects # 0 \/ e.disconnects # 0) THEN "hooks_for_failed_handshake"
    ELSE IF e.handshake_ok /\ e.connects # e.conns THEN "connect_hooks_count"
    \* embedder cancellation while the peer has stopped reading: the connection ends (hooks run) without waiting for the peer
    ELSE IF e.handshake_ok /\ e.phase = "outbound_stuck" /\ e.prompt_disconnects < e.conns THEN "disconnect_hooks_wait_for_stalled_peer"
    ELSE IF e.handshake_ok /\ ~e.present_during THEN "peer_missing_while_connected"
    ELSE IF ~e.present_in_disconnect_hook THEN "peer_gone_before_disconnect_callbacks"
    ELSE IF e.present_after THEN "peer_left_in_registry"
    ELSE IF e.alias_after THEN "alias_left_in_registry"
    ELSE IF ~L!Outcome(e.handshake_ok, IF e.conns = 0 THEN 0 ELSE e.connects \div e.conns, IF e.conns = 0 THEN 0 ELSE e.disconnects \div e.conns,
                       e.present_during, e.present_after, e.alias_after) THEN "outcome"
    ELSE IF ~e.hello_first THEN "response_before_connect_notify"
    ELSE IF e.off_started /\ ~e.stubborn /\ ~e.off_saw_cancel THEN "parked_handler_never_saw_cancel"
    ELSE IF e.inline_started /\ ~e.inline_saw_cancel THEN "inline_handler_never_saw_cancel"
    ELSE ""
Step == /\ l <= Len(Rec) /\ l' = l + 1
        /\ LET k == Bad(E) IN (k # "") => TLCSet(2, Append(TLCGet(2), <<l, k>>))
        /\ UNCHANGED <<phase, guard, hook, connects, disconnects, inRegistry, tokenCancelled, offParked, offSawCancel, wire>>
Init == L!Init /\ l = 1
Spec == Init /\ [][Step]_<<phase, guard, hook, connects, disconnects, inRegistry, tokenCancelled, offParked, offSawCancel, wire, l>>
Accepted == /\ PrintT(<<"MISMATCHES", ToJson(TLCGet(2))>>)
            /\ IF TLCGet("stats").diameter = Len(Rec) + 1 THEN TRUE
               ELSE PrintT(<<"UNMATCHED", TLCGet("stats").diameter>>) /\ FALSE
==============================================================================
