------------------------- MODULE Trace_TransferSync -------------------------
(* Trace specification for C12: real-thread schedules of wait_for_credit /   *)
(* wait_for_reconnect, recorded by the verif-hooks events under the mutex,   *)
(* are validated against the waiter protocol of TransferSync.tla (the very   *)
(* actions WEnter / WWake / Expire that TLC model-checked).                  *)
(*                                                                           *)
(* The protected state (sent, acked, cancelled, pending, window) is ADOPTED  *)
(* from the events: what each call does to it is C11/C13's business; C12 is  *)
(* about whether the waiter parks, wakes and returns correctly GIVEN that    *)
(* state.  Judged here:                                                      *)
(*   w_park    only when the wait condition is false (WEnter chooses "park") *)
(*   w_return  ok / resume / cancelled only when the condition holds,        *)
(*             timeout only after the deadline (Expire)                      *)
(*   quiesce   all signallers done and the harness waited (10 s if the       *)
(*             condition holds): a waiter that has not returned although    *)
(*             the condition holds is a LOST WAKE-UP                         *)
(*   w_done    a timeout result must not have been observed before the       *)
(*             deadline; a deadline run must have returned by deadline + 5 s *)
EXTENDS Integers, Sequences, TLC, Json, IOUtils

Rec == ndJsonDeserialize(IOEnv.TRACE)

VARIABLES window, cap, sent, acked, file, cancelled, pending, peer, ring, last,
          wkind, wlen, wpc, notified, expired, wret, ops, spc,
          deadlineRun, wtid, l

TS == INSTANCE TransferSync WITH Window <- 0, Cap <- 0, Sigs <- {}, OpAlphabet <- {}, MaxOps <- 0,
                                 WaitKinds <- {}, WaitLens <- {}, InitSents <- {},
                                 Notifiers <- {"ack", "cancel", "advance", "resume"}, AllowSpurious <- TRUE

tvars == <<window, cap, sent, acked, file, cancelled, pending, peer, ring, last,
           wkind, wlen, wpc, notified, expired, wret, ops, spc, deadlineRun, wtid, l>>
E == Rec[l]

Init == /\ window = 0 /\ cap = 0 /\ sent = 0 /\ acked = 0 /\ file = 0 /\ cancelled = <<>> /\ pending = <<>>
        /\ peer = <<>> /\ ring = <<>> /\ last = [op |-> "init"]
        /\ wkind = "credit" /\ wlen = 0 /\ wpc = "returned" /\ notified = FALSE /\ expired = FALSE /\ wret = "none"
        /\ ops = <<>> /\ spc = <<>> /\ deadlineRun = FALSE /\ wtid = 0 /\ l = 1

CancelOf(e) == IF e.cancelled THEN <<"x">> ELSE <<>>
PendingOf(e) == IF e.pending = -1 THEN <<>> ELSE <<e.pending>>
Same(e) == sent = e.sent /\ acked = e.acked /\ cancelled = CancelOf(e) /\ window = e.window

Reset ==
    /\ E.ev = "reset"
    /\ window' = E.window /\ sent' = 0 /\ acked' = 0 /\ file' = 0 /\ cancelled' = <<>> /\ pending' = <<>>
    /\ wkind' = E.kind /\ wlen' = E.len /\ wpc' = "out" /\ notified' = FALSE /\ expired' = FALSE /\ wret' = "none"
    /\ deadlineRun' = E.deadline /\ wtid' = E.wtid
    /\ UNCHANGED <<cap, peer, ring, last, ops, spc>>

\* a signalling call (any thread): adopt the protected state logged under the mutex; a notification is
\* pending for a parked waiter iff the code's rule says this call notifies
OpEvents == {"sent", "ack", "cancel", "advance", "resume", "push", "set_peer"}
TraceOp ==
    /\ E.ev \in OpEvents
    /\ sent' = E.sent /\ acked' = E.acked /\ file' = E.file /\ cancelled' = CancelOf(E) /\ pending' = PendingOf(E)
    /\ window' = E.window
    /\ notified' = (notified \/ (wpc = "parked" /\
                       CASE E.ev = "ack" -> E.acked # acked
                         [] E.ev = "cancel" -> cancelled = <<>>
                         [] E.ev = "advance" -> TRUE
                         [] E.ev = "resume" -> E.ok
                         [] OTHER -> FALSE))
    /\ UNCHANGED <<cap, peer, ring, last, wkind, wlen, wpc, expired, wret, ops, spc, deadlineRun, wtid>>

TracePark == /\ E.ev = "w_park" /\ E.t = wtid /\ Same(E)
             /\ TS!WEnter /\ wpc' = "parked"
             /\ UNCHANGED <<deadlineRun, wtid>>
TraceWake == /\ E.ev = "w_wake" /\ E.t = wtid
             /\ TS!WWake(TRUE)
             /\ UNCHANGED <<deadlineRun, wtid>>
TraceReturn == /\ E.ev = "w_return" /\ E.t = wtid /\ Same(E)
               /\ TS!WEnter /\ wpc' = "returned" /\ wret' = E.res /\ pending' = PendingOf(E)
               /\ UNCHANGED <<deadlineRun, wtid>>
\* time passing is an environment step; only a run with a near deadline has one
TraceExpire == /\ E.ev = "expire" /\ deadlineRun
               /\ TS!Expire
               /\ UNCHANGED <<deadlineRun, wtid>>
\* the harness' own record of the call's result, written after the call returned (outside the mutex).
\* A timeout is acceptable only in a run with a near deadline and only if the instant read after the
\* return is not before that deadline.  If the code returned through a path that carries no hook
\* (wpc is not "returned" yet) only this state-independent judgement is made.
TraceDone == /\ E.ev = "w_done"
             /\ (E.res = "timeout" => (deadlineRun /\ ~E.early))
             /\ IF wpc = "returned"
                THEN /\ wret = E.res
                     /\ UNCHANGED <<wpc, wret, expired>>
                ELSE /\ wpc' = "returned" /\ wret' = E.res /\ expired' = (expired \/ E.res = "timeout")
             /\ UNCHANGED <<window, cap, sent, acked, file, cancelled, pending, peer, ring, last,
                            wkind, wlen, notified, ops, spc, deadlineRun, wtid>>
TraceQuiesce == /\ E.ev = "quiesce"
                /\ (E.returned => wpc = "returned")
                /\ (~E.returned => (~TS!Ready /\ ~E.past_deadline))   \* not never: no lost wake-up, no missed deadline
                /\ UNCHANGED <<window, cap, sent, acked, file, cancelled, pending, peer, ring, last,
                               wkind, wlen, wpc, notified, expired, wret, ops, spc, deadlineRun, wtid>>

Step == /\ l <= Len(Rec) /\ l' = l + 1
        /\ (Reset \/ TraceOp \/ TracePark \/ TraceWake \/ TraceReturn \/ TraceExpire \/ TraceDone \/ TraceQuiesce)
Spec == Init /\ [][Step]_tvars

NoLostWakeup == TS!NoLostWakeup
TimeoutOnlyAtDeadline == TS!TimeoutOnlyAtDeadline

Accepted == IF TLCGet("stats").diameter = Len(Rec) + 1 THEN TRUE
            ELSE PrintT(<<"UNMATCHED", TLCGet("stats").diameter>>) /\ FALSE
==============================================================================
