SPECIFICATION Spec
CONSTANTS
  MaxAttempts = 1
  ScriptLen = 3
  RetrySet <- Intended
INVARIANTS AttemptBound RetryOnlyTransport StopAtFirstReply NotWedged
CHECK_DEADLOCK FALSE
