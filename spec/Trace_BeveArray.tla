--------------------------- MODULE Trace_BeveArray ---------------------------
(* Trace specification for C08 (random arrays, n up to 2^20): each line is       *)
(* judged on its own against BeveArray.tla's closed forms:                        *)
(*   array  : bulk length and header bytes, generic length and equality with the  *)
(*            bulk bytes (n >= 1), streaming writer = builder, the cross-decode    *)
(*            matrix (every decoder reads every encoder, bit for bit, n = 0       *)
(*            included), rejection of a wrong element type / format, the routes,  *)
(*            the aligned body length for the query it was built for;            *)
(*   complex: length, header bytes, streaming writer, decode, rejection.          *)
EXTENDS Integers, Sequences, TLC, Json, IOUtils
B == INSTANCE BeveArray
Rec == ndJsonDeserialize(IOEnv.TRACE)
VARIABLE l
E == Rec[l]
ASSUME TLCSet(2, <<>>)

Head6(class, code, n) == SubSeq(<<B!TypedHeader(class, code)>> \o B!Size(n) \o <<0, 0, 0, 0, 0, 0>>, 1, 1 + B!SizeLen(n))
ArrayBad(e) ==
    IF e.bulk_len # B!TypedLen(e.class, e.code, e.n) THEN "bulk_len"
    ELSE IF SubSeq(e.bulk_head, 1, 1 + B!SizeLen(e.n)) # Head6(e.class, e.code, e.n) THEN "bulk_header"
    ELSE IF e.n >= 1 /\ ~e.generic_equal THEN "bulk_ne_generic"
    ELSE IF e.generic_len # (IF e.n = 0 THEN 2 ELSE B!TypedLen(e.class, e.code, e.n)) THEN "generic_len"
    ELSE IF ~e.stream_equal THEN "stream_ne_builder"
    ELSE IF ~e.bulk_dec_bulk THEN "bulk_dec_bulk"
    ELSE IF ~e.bulk_dec_generic THEN (IF e.n = 0 THEN "bulk_dec_generic_empty" ELSE "bulk_dec_generic")
    ELSE IF ~e.generic_dec_bulk THEN (IF e.n = 0 THEN "generic_dec_bulk_empty" ELSE "generic_dec_bulk")
    ELSE IF ~e.wrong_type_rejected THEN "wrong_type_accepted"
    ELSE IF ~e.wrong_format_rejected THEN "wrong_format_accepted"
    ELSE IF Len(e.route_wrong_format_accepted) > 0 THEN "route_wrong_format_accepted"
    ELSE IF ~e.route_bulk_bulk THEN "route_bulk_bulk"
    ELSE IF ~e.route_bulk_generic THEN (IF e.n = 0 THEN "route_bulk_generic_empty" ELSE "route_bulk_generic")
    ELSE IF ~e.route_ref_bulk THEN "route_ref_bulk"
    ELSE IF ~e.route_ref_aligned THEN "route_ref_aligned"
    ELSE IF ~e.route_ref_generic THEN (IF e.n = 0 THEN "route_ref_generic_empty" ELSE "route_ref_generic")
    ELSE IF e.aligned_len # B!AlignedLen(e.class, e.code, e.n, e.aligned_base) THEN "aligned_len"
    ELSE ""
ComplexBad(e) ==
    IF e.len # B!ComplexLen(e.class, e.code, e.n) THEN "complex_len"
    ELSE IF SubSeq(e.head, 1, 2 + B!SizeLen(e.n)) # (<<B!ComplexExt, B!ComplexHeader(e.class, e.code)>> \o B!Size(e.n)) THEN "complex_header"
    ELSE IF ~e.stream_equal THEN "complex_stream_ne_builder"
    ELSE IF ~e.dec THEN "complex_decode"
    ELSE IF ~e.wrong_type_rejected THEN "complex_wrong_type_accepted"
    ELSE ""
Judge(kind) == (kind # "") => TLCSet(2, Append(TLCGet(2), <<l, kind>>))
Step == /\ l <= Len(Rec) /\ l' = l + 1
        /\ CASE E.ev = "array" -> Judge(ArrayBad(E))
             [] E.ev = "complex" -> Judge(ComplexBad(E))
             [] E.ev = "panic" -> Judge("panic")
Init == l = 1
Spec == Init /\ [][Step]_l
Accepted == /\ PrintT(<<"MISMATCHES", ToJson(TLCGet(2))>>)
            /\ IF TLCGet("stats").diameter = Len(Rec) + 1 THEN TRUE
               ELSE PrintT(<<"UNMATCHED", TLCGet("stats").diameter>>) /\ FALSE
==============================================================================
