SPECIFICATION Spec
CONSTANTS
  MaxLen = 5
CHECK_DEADLOCK FALSE
