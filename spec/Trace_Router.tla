---------------------------- MODULE Trace_Router ----------------------------
(* Trace specification for C07 (stateless judgement per line):                  *)
(*   deep     : a path of 0..40 segments below a struct mount: every dispatch     *)
(*              path (owned / view, plain / behind middleware) must hand the      *)
(*              struct exactly Pointer!Tokens of the remainder; the middleware    *)
(*              chain must run exactly once, in registration order, when present; *)
(*   dispatch : one request through the copying path, the borrowed path and both  *)
(*              again behind a forwarding middleware chain: the four outcomes     *)
(*              must be identical (error code or whole response), and a response  *)
(*              echoes the request's query.                                      *)
EXTENDS Integers, Sequences, TLC, Json, IOUtils
R == INSTANCE Router
Rec == ndJsonDeserialize(IOEnv.TRACE)
VARIABLE l
E == Rec[l]
ASSUME TLCSet(2, <<>>)

DeepBad(e) ==
    LET want == R!StructTokens(e.root, e.path)
        bad == {i \in 1..Len(e.seen) : e.seen[i].segments # want}
        mwbad == {i \in 1..Len(e.seen) : e.seen[i].hits # (IF i <= 2 THEN <<>> ELSE <<4, 5>>)} IN
    IF bad # {} THEN "segments"
    ELSE IF mwbad # {} THEN "middleware"
    ELSE ""
DispatchBad(e) ==
    IF e.owned.kind = "panic" \/ e.view.kind = "panic" \/ e.mw_owned.kind = "panic" \/ e.mw_view.kind = "panic" THEN "panic"
    ELSE IF e.owned # e.view THEN "owned_vs_view"
    ELSE IF e.owned # e.mw_owned THEN "plain_vs_middleware"
    ELSE IF e.view # e.mw_view THEN "plain_vs_middleware_view"
    ELSE IF e.hits_owned # <<4, 5>> \/ e.hits_view # <<4, 5>> THEN "middleware"
    ELSE ""
Judge(kind) == (kind # "") => TLCSet(2, Append(TLCGet(2), <<l, kind>>))
Step == /\ l <= Len(Rec) /\ l' = l + 1
        /\ CASE E.ev = "deep" -> Judge(DeepBad(E))
             [] E.ev = "dispatch" -> Judge(DispatchBad(E))
Init == l = 1
Spec == Init /\ [][Step]_l
Accepted == /\ PrintT(<<"MISMATCHES", ToJson(TLCGet(2))>>)
            /\ IF TLCGet("stats").diameter = Len(Rec) + 1 THEN TRUE
               ELSE PrintT(<<"UNMATCHED", TLCGet("stats").diameter>>) /\ FALSE
==============================================================================
