------------------------------ MODULE NotifySub ------------------------------
(***************************************************************************)
(* The one-live-subscriber notify slot of the WebSocket client              *)
(* (src/websocket_client.rs subscribe_notifies / unsubscribe_notifies / the *)
(* response loop's Notify arm; src/notify_slot.rs states the same rules for *)
(* the wasm client).  Frames with the notify flag never reach a caller      *)
(* (C04): they go to the one subscriber, or are dropped.                    *)
(*                                                                          *)
(* slot   the installed subscription token, 0 when empty                     *)
(* alive  tokens whose receiver has not been dropped                        *)
(* queue  what each receiver holds (notes are numbered in wire order)       *)
(* rd     the response loop between taking a clone of the installed sender  *)
(*        (under the lock) and sending on it (outside the lock)             *)
(* A send to a dropped receiver fails; the loop then empties the slot ONLY  *)
(* if it still holds that same channel (a concurrent subscribe may have     *)
(* installed a fresh one in between).                                       *)
(***************************************************************************)
EXTENDS Integers, Sequences, FiniteSets, TLC
CONSTANTS Toks, MaxNote, ClearOnlyOwn     \* ClearOnlyOwn = TRUE as implemented; FALSE: clear unconditionally (must-violate)
VARIABLES slot, alive, queue, pushed, readIdx, rd, everInstalled, removed
vars == <<slot, alive, queue, pushed, readIdx, rd, everInstalled, removed>>
Init == /\ slot = 0 /\ alive = {} /\ queue = [t \in Toks |-> <<>>] /\ pushed = 0 /\ readIdx = 0 /\ rd = <<>>
        /\ everInstalled = {} /\ removed = {}
\* --- API calls (each is one critical section on the slot's mutex)
SubscribeOk(t) == /\ t \notin everInstalled /\ (slot = 0 \/ slot \notin alive)
                  /\ slot' = t /\ alive' = alive \cup {t} /\ everInstalled' = everInstalled \cup {t}
                  /\ removed' = removed \cup (IF slot = 0 THEN {} ELSE {slot})      \* a corpse is replaced silently
                  /\ UNCHANGED <<queue, pushed, readIdx, rd>>
SubscribeRefused == slot # 0 /\ slot \in alive /\ UNCHANGED vars
Unsubscribe == /\ slot' = 0 /\ removed' = removed \cup (IF slot = 0 THEN {} ELSE {slot})
               /\ UNCHANGED <<alive, queue, pushed, readIdx, rd, everInstalled>>
DropReceiver(t) == /\ t \in alive /\ alive' = alive \ {t} /\ queue' = [queue EXCEPT ![t] = <<>>]
                   /\ UNCHANGED <<slot, pushed, readIdx, rd, everInstalled, removed>>
Drain(t) == /\ t \in alive /\ queue' = [queue EXCEPT ![t] = <<>>]
            /\ UNCHANGED <<slot, alive, pushed, readIdx, rd, everInstalled, removed>>
\* --- the peer pushes the next notify; the response loop handles them in order
Push == pushed < MaxNote /\ pushed' = pushed + 1 /\ UNCHANGED <<slot, alive, queue, readIdx, rd, everInstalled, removed>>
ReaderSnap == /\ rd = <<>> /\ readIdx < pushed /\ readIdx' = readIdx + 1
              /\ rd' = IF slot = 0 THEN <<>> ELSE <<readIdx + 1, slot>>          \* no subscriber: dropped silently
              /\ UNCHANGED <<slot, alive, queue, pushed, everInstalled, removed>>
ReaderSend == /\ rd # <<>>
              /\ LET n == rd[1]  t == rd[2] IN
                 IF t \in alive
                 THEN queue' = [queue EXCEPT ![t] = Append(@, n)] /\ UNCHANGED <<slot, removed>>
                 ELSE /\ UNCHANGED queue
                      /\ IF slot = t \/ (~ClearOnlyOwn /\ slot # 0)
                         THEN slot' = 0 /\ UNCHANGED removed      \* with ~ClearOnlyOwn this may empty a fresh subscription: the bug
                         ELSE UNCHANGED <<slot, removed>>
              /\ rd' = <<>> /\ UNCHANGED <<alive, pushed, readIdx, everInstalled>>
Next == (\E t \in Toks : SubscribeOk(t) \/ DropReceiver(t) \/ Drain(t)) \/ SubscribeRefused \/ Unsubscribe \/ Push \/ ReaderSnap \/ ReaderSend
Spec == Init /\ [][Next]_vars
\* --- properties
\* a live subscriber that nobody unsubscribed is still the installed one: nobody stole or lost its subscription
LiveSubscriberKept == \A t \in everInstalled : (t \in alive /\ t \notin removed) => slot = t
\* each note reaches at most one receiver, each receiver sees wire order
Held(t) == {queue[t][i] : i \in 1..Len(queue[t])}
AtMostOnce == \A a, b \in everInstalled : a # b => Held(a) \cap Held(b) = {}
InOrder == \A t \in Toks : \A i, j \in 1..Len(queue[t]) : i < j => queue[t][i] < queue[t][j]
\* only notes the peer pushed, only to tokens that were installed
Sound == \A t \in Toks : Held(t) \subseteq 1..readIdx /\ (queue[t] # <<>> => t \in everInstalled)
StateBound == TRUE
=============================================================================
