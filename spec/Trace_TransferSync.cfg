SPECIFICATION Spec
INVARIANTS NoLostWakeup TimeoutOnlyAtDeadline
POSTCONDITION Accepted
CHECK_DEADLOCK FALSE
