SPECIFICATION Spec
CONSTANTS
  GuardFirst = FALSE
  Hooks = 2
INVARIANTS DisconnectOnce NeverForFailedHandshake RegistryScoped HelloFirst
PROPERTIES ParkedSeeCancel
CHECK_DEADLOCK FALSE
