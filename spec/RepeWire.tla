------------------------------ MODULE RepeWire ------------------------------
(***************************************************************************)
(* The REPE v1 wire frame (src/header.rs, src/message.rs, src/io.rs,       *)
(* src/async_io.rs): a 48-byte little-endian header followed by the query  *)
(* and the body.  Every field is carried as the tuple of its bytes as they *)
(* appear on the wire (U64.tla for the 8-byte ones), so this module needs  *)
(* no 64-bit integers and no byte-order conversion of its own.             *)
(*                                                                         *)
(*   offset  size  field                                                   *)
(*        0     8  length   (= 48 + query_length + body_length)            *)
(*        8     2  spec     (magic 0x1507 -> bytes 07 15)                  *)
(*       10     1  version                                                 *)
(*       11     1  notify                                                  *)
(*       12     4  reserved                                                *)
(*       16     8  id                                                      *)
(*       24     8  query_length                                            *)
(*       32     8  body_length                                             *)
(*       40     2  query_format                                            *)
(*       42     2  body_format                                             *)
(*       44     4  ec                                                      *)
(* Properties decided here: C01 (layout, length equation, one encoding)    *)
(* and C02 (parse / read verdicts on hostile input).                       *)
(***************************************************************************)
EXTENDS Integers, Sequences
U == INSTANCE U64

HEADER == 48
Magic == <<7, 21>>                 \* 0x1507 little endian

\* a header is a record of byte tuples
Widths == [length |-> 8, spec |-> 2, version |-> 1, notify |-> 1, reserved |-> 4, id |-> 8,
           qlen |-> 8, blen |-> 8, qfmt |-> 2, bfmt |-> 2, ec |-> 4]
WellSized(h) == /\ Len(h.length) = 8 /\ Len(h.spec) = 2 /\ Len(h.version) = 1 /\ Len(h.notify) = 1
                /\ Len(h.reserved) = 4 /\ Len(h.id) = 8 /\ Len(h.qlen) = 8 /\ Len(h.blen) = 8
                /\ Len(h.qfmt) = 2 /\ Len(h.bfmt) = 2 /\ Len(h.ec) = 4

\* the 48 header bytes in REPE v1 field order
HeaderBytes(h) == h.length \o h.spec \o h.version \o h.notify \o h.reserved \o h.id
                  \o h.qlen \o h.blen \o h.qfmt \o h.bfmt \o h.ec

\* the inverse: fields of 48 (or more) bytes
Fields(b) == [length |-> SubSeq(b, 1, 8), spec |-> SubSeq(b, 9, 10), version |-> SubSeq(b, 11, 11),
              notify |-> SubSeq(b, 12, 12), reserved |-> SubSeq(b, 13, 16), id |-> SubSeq(b, 17, 24),
              qlen |-> SubSeq(b, 25, 32), blen |-> SubSeq(b, 33, 40), qfmt |-> SubSeq(b, 41, 42),
              bfmt |-> SubSeq(b, 43, 44), ec |-> SubSeq(b, 45, 48)]

\* the length equation in exact 64-bit arithmetic: a carry is a mismatch
ExactTotal(q, b) == LET s1 == U!Add(U!FromNat(HEADER), q)
                        s2 == U!Add(s1[1], b) IN
                    <<s2[1], s1[2] = 1 \/ s2[2] = 1>>          \* <<sum, overflowed>>
Consistent(h) == LET t == ExactTotal(h.qlen, h.blen) IN ~t[2] /\ t[1] = h.length

\* Frame(h, q, b): what is put on the wire for header fields h, query bytes q, body bytes b
Frame(h, q, b) == HeaderBytes(h) \o q \o b
\* the header a well-formed message carries for payloads of these lengths (lengths < 2^31 here)
Framed(h, qn, bn) == [h EXCEPT !.qlen = U!FromNat(qn), !.blen = U!FromNat(bn), !.length = U!FromNat(HEADER + qn + bn)]

--------------------------------------------------------------------------------
(* C02: verdicts.  hb = the first 48 bytes (if that many), buflen = bytes supplied *)
SliceVerdict(hb, buflen, exact) ==
    IF buflen < HEADER THEN "short_header"
    ELSE LET h == Fields(hb) IN
         IF h.spec # Magic THEN "bad_magic"
         ELSE IF ~Consistent(h) THEN "length_mismatch"
         ELSE LET need == U!ToNatOrBig(h.length) IN
              IF need = -1 THEN "buffer_too_small"             \* >= 2^31: no buffer here is that long
              ELSE IF need > buflen THEN "buffer_too_small"
              ELSE IF exact /\ need # buflen THEN "trailing"
              ELSE "ok"
\* Header::decode looks at the 48 header bytes only
HeaderVerdict(hb, buflen) ==
    IF buflen < HEADER THEN "short_header"
    ELSE LET h == Fields(hb) IN
         IF h.spec # Magic THEN "bad_magic" ELSE IF ~Consistent(h) THEN "length_mismatch" ELSE "ok"
\* stream readers: the stream holds `avail` bytes then ends
StreamVerdict(hb, avail) ==
    IF avail < HEADER THEN "truncated"
    ELSE LET h == Fields(hb) IN
         IF h.spec # Magic THEN "bad_magic"
         ELSE IF ~Consistent(h) THEN "length_mismatch"
         ELSE LET need == U!ToNatOrBig(h.length) IN
              IF need = -1 THEN "unallocatable_or_truncated"   \* declared size >= 2^31: an error, never a value
              ELSE IF need > avail THEN "truncated"
              ELSE "ok"
IsOk(v) == v = "ok"
\* on success the query is bytes 49 .. 48+q and the body the next b bytes (as offsets into the input)
OkRegions(hb) == LET h == Fields(hb) IN
                 [qoff |-> HEADER, qlen |-> U!ToNatOrBig(h.qlen), boff |-> HEADER + U!ToNatOrBig(h.qlen), blen |-> U!ToNatOrBig(h.blen)]
==============================================================================
