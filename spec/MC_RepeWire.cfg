SPECIFICATION Spec
CONSTANTS
  Mode = "both"
CHECK_DEADLOCK FALSE
