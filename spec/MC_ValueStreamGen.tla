-------------------------- MODULE MC_ValueStreamGen --------------------------
(* Generator for C09's spec -> impl replay: every terminal state of ValueStream     *)
(* (no cancel, no producer death) prints its parameters and the reply sequence the  *)
(* client saw, including the one pull past the end.  ValueStream is confluent       *)
(* (AsBuilt), so each parameter choice has exactly one reply sequence; the harness   *)
(* performs the same raw /_svs/ exchange on a real server and must see that sequence.*)
EXTENDS ValueStream, Json
SpecGen == Init /\ [][(Core /\ UNCHANGED <<cancelled, cancelIdx>>) /\ UNCHANGED params]_vars
Terminal == wantMore = 0 /\ hpc = "idle"
Emit == Terminal => PrintT(<<"VEC", ToJson([n |-> N, chunk |-> Chunk, depth |-> Depth, fail |-> (IF NoFail THEN -1 ELSE FailAt),
                                             replies |-> [i \in 1..Len(replies) |-> <<replies[i][1], Len(replies[i][2]), replies[i][3]>>]])>>)
==============================================================================
