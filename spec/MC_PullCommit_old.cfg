SPECIFICATION Spec
CONSTANTS
  Chunks = 3
  PreDest = "old"
INVARIANTS DestNeverPartial PublishedOnlyWhenComplete FailureLeavesNothing KillLeavesDest
CHECK_DEADLOCK FALSE
