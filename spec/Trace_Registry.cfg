SPECIFICATION Spec
INVARIANTS TreeShaped OneTagPerPath HasRoot
CONSTRAINT Track
POSTCONDITION Accepted
CHECK_DEADLOCK FALSE
