SPECIFICATION Spec
CONSTANTS
  Cap = 3
  Reqs <- Mix8
  Limit = FALSE
INVARIANTS CapRespected ExactlyOne NeverTwo InvokedOnce InlineFIFO SaturationSound PanicContained NoOversize
PROPERTIES NoLeak AllAnswered
CHECK_DEADLOCK FALSE
