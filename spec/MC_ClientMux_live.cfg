SPECIFICATION FairSpec
CONSTANTS
  Callers <- C2
  MaxJunk = 1
  AllowFault = TRUE
  AllowTimeout = FALSE
  AllowCancel = FALSE
  HasNotify = FALSE
  ShutFirst = TRUE
  Forwarders = {}
  ForwardRewinds = FALSE
INVARIANTS Correlated DistinctIds NotifyOnlyToSubscriber ChanAtMostOne NoResidue WaiterHasFuture
PROPERTIES AllFinish
CHECK_DEADLOCK FALSE
