----------------------------- MODULE Trace_PullSys -----------------------------
(* Trace specification for C10 at system-call grain.  A child process performs one   *)
(* pull-to-file under `strace -f -y -P <dest>.svspart -P <dest>`; every completed    *)
(* system call touching the temp or destination path is one "sys" line, bracketed    *)
(* by "begin" (scenario, destination pre-state) and "end" (exit status, whether a    *)
(* SIGKILL injected at one of those calls killed it, and what the filesystem holds   *)
(* afterwards).  Each line must be a PullCommit action; what no system call shows    *)
(* (end marker seen, fill loop returning, the verifier's verdict, an in-process      *)
(* failure, the kill) is a silent PullCommit step.  A run is accepted only if the    *)
(* model's destination and temp file equal the observed ones at the end.             *)
EXTENDS Integers, Sequences, TLC, Json, IOUtils
Rec == ndJsonDeserialize(IOEnv.TRACE)
VARIABLES dest, tmp, got, lastSeen, synced, verified, phase, mode, l, pre, open
P == INSTANCE PullCommit WITH Chunks <- 0, RequireEnd <- TRUE, PreDest <- "absent"
pvars == <<dest, tmp, got, lastSeen, synced, verified, phase, mode>>
E == Rec[l]
ASSUME TLCSet(1, 0)
Init == P!Init /\ mode = "blocking" /\ l = 1 /\ pre = "absent" /\ open = FALSE
Has == l <= Len(Rec)
Begin == /\ Has /\ E.ev = "begin" /\ ~open
         /\ dest' = E.pre /\ tmp' = "absent" /\ got' = 0 /\ lastSeen' = FALSE /\ synced' = FALSE /\ verified' = FALSE /\ phase' = "start"
         /\ mode' = IF E.puller \in {"pull_to_file", "trailer"} THEN "blocking" ELSE "async"
         /\ pre' = E.pre /\ open' = TRUE /\ l' = l + 1
Sys == /\ Has /\ E.ev = "sys" /\ open
       /\ IF E.what = "create_tmp" THEN P!CreateTmp
          ELSE IF E.what = "write_tmp" THEN ~E.over /\ P!WriteChunk(E.full)
          ELSE IF E.what = "sync_tmp" THEN P!Sync
          ELSE IF E.what = "close_tmp" THEN tmp # "absent" /\ UNCHANGED pvars     \* not modelled: stutter
          ELSE IF E.what = "rename" THEN P!Rename
          ELSE IF E.what = "unlink_tmp" THEN tmp # "absent" /\ P!GuardDrop
          ELSE IF E.what = "io_failed" THEN P!LocalIoFail                          \* an injected ENOSPC / EIO / EXDEV: no effect, the pull fails
          ELSE FALSE                                                              \* any other call on those paths
       /\ l' = l + 1 /\ UNCHANGED <<pre, open>>
Silent == /\ open /\ Has
          /\ \/ P!SeeEnd \/ P!EndFill \/ P!Verify(TRUE) \/ P!Verify(FALSE) \/ P!FailInProcess \/ P!FailAtEnd \/ P!PullErrorSurfaces
             \/ (tmp = "absent" /\ P!GuardDrop)          \* failed before the temp file existed: nothing to remove
             \/ P!Kill
          /\ UNCHANGED <<l, pre, open>>
End == /\ Has /\ E.ev = "end" /\ open
       /\ E.killed <=> (phase = "killed")
       /\ ~E.killed => (phase \in {"committed", "cleaned"} /\ (E.ok <=> phase = "committed"))
       /\ E.must = "fail" => ~E.ok
       /\ (E.must = "succeed" /\ ~E.killed) => E.ok
       /\ dest = E.dest /\ tmp = E.tmp
       /\ open' = FALSE /\ l' = l + 1 /\ UNCHANGED <<pvars, pre>>
Other == Has /\ E.ev \notin {"begin", "sys", "end"} /\ ~open /\ l' = l + 1 /\ UNCHANGED <<pvars, pre, open>>
Next == Begin \/ Sys \/ Silent \/ End \/ Other
Spec == Init /\ [][Next]_<<pvars, l, pre, open>>
DestNeverPartial == dest \in {pre, "complete"}
PublishedOnlyWhenComplete == P!PublishedOnlyWhenComplete
Track == TLCSet(1, IF TLCGet(1) < l THEN l ELSE TLCGet(1))
Accepted == IF TLCGet(1) = Len(Rec) + 1 THEN TRUE
            ELSE PrintT(<<"UNMATCHED", TLCGet(1)>>) /\ FALSE
==============================================================================
