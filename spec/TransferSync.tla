---------------------------- MODULE TransferSync ----------------------------
(***************************************************************************)
(* The mutex / condition-variable protocol of TransferControl's two        *)
(* blocking calls (src/stream.rs: wait_for_credit, wait_for_reconnect) in  *)
(* lock step with the signalling calls.  The protected state and what each *)
(* call does to it are TransferControl.tla's action bodies (one source of  *)
(* truth); this module adds                                                *)
(*   - the waiter: Enter (lock, test cancel, test predicate, test deadline,*)
(*     else park -- parking releases the mutex atomically, as a condvar    *)
(*     does), Wake (by notification, by the deadline, or spuriously),      *)
(*   - for every signalling call whether it calls notify_all (as built:    *)
(*     accepted resume, an ack that advanced, the first cancel, advance),  *)
(*   - the deadline (Expire).                                              *)
(* Every action is a whole critical section, so the mutex is implicit.     *)
(*                                                                         *)
(* Property decided here: C12.                                             *)
(***************************************************************************)
EXTENDS Naturals, Sequences, FiniteSets, TLC

CONSTANTS Window, Cap,
          Sigs,            \* signaller thread ids
          OpAlphabet,      \* set of op records a signaller may perform
          MaxOps,          \* each signaller performs 1..MaxOps operations
          WaitKinds,       \* subset of {"credit", "reconnect"}
          WaitLens,        \* chunk lengths for a credit wait
          InitSents,       \* initial sent offsets (e.g. window full)
          Notifiers,       \* op names that call notify_all (as built: {"ack","cancel","advance","resume"})
          AllowSpurious    \* BOOLEAN: condvar may wake spuriously

NAdd(a, b) == a + b
NSub(a, b) == IF a >= b THEN a - b ELSE 0
NLeq(a, b) == a <= b

VARIABLES window, cap, sent, acked, file, cancelled, pending, peer, ring, last,  \* protected state (TransferControl)
          wkind, wlen,          \* what the waiter waits for
          wpc,                  \* "out" | "parked" | "returned"
          notified,             \* a notify_all happened while parked and has not been consumed
          expired,              \* the deadline has passed
          wret,                 \* result: "none" | "ok" | "resume" | "cancelled" | "timeout"
          ops, spc              \* per signaller: its operation list and program counter

TC == INSTANCE TransferControl WITH Zero <- 0, Add <- NAdd, SatSub <- NSub, Leq <- NLeq

tcvars == <<window, cap, sent, acked, file, cancelled, pending, peer, ring>>
vars == <<tcvars, last, wkind, wlen, wpc, notified, expired, wret, ops, spc>>

\* the wait predicate (what makes the blocked call return without a timeout)
Ready == IF wkind = "credit" THEN cancelled # <<>> \/ TC!CreditReady(wlen)
         ELSE cancelled # <<>> \/ pending # <<>>

SeqsUpTo(S, n) == UNION {[1..k -> S] : k \in 1..n}

Init == /\ \E s0 \in InitSents :
             /\ window = Window /\ cap = Cap /\ acked = 0 /\ file = 0
             /\ cancelled = <<>> /\ pending = <<>> /\ peer = <<>>
             /\ sent = s0
             \* everything sent so far is one retained chunk, so resume at 0 and at s0 is covered
             /\ ring = IF s0 = 0 THEN <<>> ELSE <<[off |-> 0, dlen |-> s0, wlen |-> s0, last |-> FALSE, tag |-> "x"]>>
        /\ last = [op |-> "init"]
        /\ wkind \in WaitKinds /\ wlen \in WaitLens
        /\ wpc = "out" /\ notified = FALSE /\ expired = FALSE /\ wret = "none"
        /\ ops \in [Sigs -> SeqsUpTo(OpAlphabet, MaxOps)]
        /\ spc = [s \in Sigs |-> 1]

\* ---- waiter
WResult == IF cancelled # <<>> THEN "cancelled" ELSE IF wkind = "credit" THEN "ok" ELSE "resume"
WEnter ==
    /\ wpc = "out"
    /\ IF Ready
       THEN /\ wpc' = "returned" /\ wret' = WResult
            /\ pending' = IF wkind = "reconnect" /\ cancelled = <<>> THEN <<>> ELSE pending
       ELSE IF expired
       THEN wpc' = "returned" /\ wret' = "timeout" /\ UNCHANGED pending
       ELSE wpc' = "parked" /\ UNCHANGED <<wret, pending>>
    /\ notified' = FALSE
    /\ UNCHANGED <<window, cap, sent, acked, file, cancelled, peer, ring, last, wkind, wlen, expired, ops, spc>>

\* a parked waiter resumes: notified, deadline reached (wait_timeout), or spuriously
WWake(spurious) ==
    /\ wpc = "parked" /\ (notified \/ expired \/ (spurious /\ AllowSpurious))
    /\ wpc' = "out"
    /\ UNCHANGED <<tcvars, last, wkind, wlen, notified, expired, wret, ops, spc>>

Expire == /\ ~expired /\ expired' = TRUE
          /\ UNCHANGED <<tcvars, last, wkind, wlen, wpc, notified, wret, ops, spc>>

\* ---- signallers: one TransferControl call = one critical section, then notify_all iff the code does
Notifies(op) ==     \* evaluated on the pre-state and the post-state of the call
    /\ op.name \in Notifiers
    /\ CASE op.name = "ack" -> acked' # acked
         [] op.name = "cancel" -> cancelled = <<>>
         [] op.name = "advance" -> TRUE
         [] op.name = "resume" -> last'.ret = "ok"
         [] OTHER -> FALSE

Apply(op) ==
    CASE op.name = "ack"     -> TC!RecordAck(op.f, op.o)
      [] op.name = "cancel"  -> TC!Cancel(op.r)
      [] op.name = "advance" -> TC!Advance(op.f)
      [] op.name = "resume"  -> TC!Resume(1, op.f, op.o)
      [] op.name = "sent"    -> TC!RecordSent(op.o)

SStep(s) ==
    /\ spc[s] <= Len(ops[s])
    /\ LET op == ops[s][spc[s]] IN
         /\ Apply(op)
         /\ notified' = (notified \/ (wpc = "parked" /\ Notifies(op)))
    /\ spc' = [spc EXCEPT ![s] = @ + 1]
    /\ UNCHANGED <<wkind, wlen, wpc, expired, wret, ops>>

Next == WEnter \/ WWake(FALSE) \/ WWake(TRUE) \/ Expire \/ (\E s \in Sigs : SStep(s))

Spec == Init /\ [][Next]_vars /\ WF_vars(WEnter) /\ WF_vars(WWake(FALSE))
\* the deadline is far in the future: it never fires
NextNoExpire == WEnter \/ WWake(FALSE) \/ WWake(TRUE) \/ (\E s \in Sigs : SStep(s))     \* Next without Expire (named, so that TLC reports per-action coverage)
SpecNoExpire == Init /\ [][NextNoExpire]_vars /\ WF_vars(WEnter) /\ WF_vars(WWake(FALSE))

--------------------------------------------------------------------------------
\* C12: no lost wake-up. A parked waiter whose predicate holds has a notification pending
\* (or its deadline has passed): it will not sleep on.
NoLostWakeup == (wpc = "parked" /\ ~notified /\ ~expired) => ~Ready
TimeoutOnlyAtDeadline == wret = "timeout" => expired
ResultSound == /\ wret = "ok" => wkind = "credit"
               /\ wret = "resume" => wkind = "reconnect"
\* liveness (weak fairness of the waiter's own steps): once the predicate stays true the call returns;
\* a wait whose deadline passed returns
WokenWhenReady == (<>[]Ready) => <>(wpc = "returned")
ExpiredReturns == expired ~> (wpc = "returned")
AllDone == \A s \in Sigs : spc[s] > Len(ops[s])
==============================================================================
