------------------------------ MODULE MC_Router ------------------------------
EXTENDS Router, TLC, Json
CONSTANTS MaxLen
VARIABLE done

Alphabet == {"/", "~", "0", "1", "a", "b"}
RECURSIVE Paths(_)
Paths(n) == IF n = 0 THEN {<<>>}
            ELSE LET prev == Paths(n - 1) IN prev \cup {Append(p, c) : p \in {q \in prev : Len(q) = n - 1}, c \in Alphabet}
All == Paths(MaxLen)
Good == {p \in All : P!WellFormed(p)}                        \* "" or "/"-prefixed with well-formed escapes

\* escape . unescape = id on every well-formed pointer
ASSUME \A p \in Good : P!Canon(P!Tokens(p)) = p
ASSUME P!Tokens(<<"/", "a", "~", "1", "b", "/", "m", "~", "0", "n">>) = << <<"a", "/", "b">>, <<"m", "~", "n">> >>
ASSUME P!Tokens(<<"/", "~", "0", "1">>) = << <<"~", "1">> >>     \* "~01" is the literal key "~1", not "/"
ASSUME P!Tokens(<<"/">>) = << <<>> >> /\ P!Tokens(<<>>) = <<>> /\ P!Tokens(<<"/", "a", "/">>) = << <<"a">>, <<>> >>

Items == { [kind |-> "exact", at |-> <<"/", "a">>, name |-> 1],
           [kind |-> "registry", at |-> <<"/", "a">>, name |-> 2],
           [kind |-> "struct", at |-> <<"/", "a", "b">>, name |-> 3],
           [kind |-> "exact", at |-> <<"/", "a", "/", "x">>, name |-> 6],       \* an exact route inside the registry's mount
           [kind |-> "mw", at |-> <<>>, name |-> 4],
           [kind |-> "mw", at |-> <<>>, name |-> 5] }
Perms == {s \in [1..Cardinality(Items) -> Items] : \A i, j \in 1..Cardinality(Items) : i # j => s[i] # s[j]}
TestPaths == { <<"/", "a">>, <<"/", "a", "/", "x">>, <<"/", "a", "/">>, <<"/", "a", "b">>, <<"/", "a", "b", "/", "c">>, <<"/", "a", "b", "c">>,
               <<"/", "a", "x">>, <<"/", "z">>, <<>>, <<"/">>, <<"/", "a", "b", "/", "c", "~", "1", "d">>,
               \* escapes are part of the path as routed: "~1" is not a "/" boundary, whatever it decodes to later
               <<"/", "a", "~", "1", "x">>, <<"/", "a", "b", "~", "1", "c">>, <<"/", "a", "~", "0">>, <<"/", "a", "/", "~", "1", "x">> }
ASSUME \A o \in Perms :
         /\ Lookup(o, <<"/", "a">>).name = 1                  \* exact beats the mount with the same prefix
         /\ Lookup(o, <<"/", "a", "/", "x">>).name = 6         \* an exact route beats the mount it lies in
         /\ Lookup(o, <<"/", "a", "/">>).name = 2               \* extends at a "/" boundary
         /\ Lookup(o, <<"/", "a", "b">>).name = 3              \* "/ab" shares a string prefix with "/a" but no boundary
         /\ Lookup(o, <<"/", "a", "b", "/", "c">>).name = 3
         /\ Lookup(o, <<"/", "a", "b", "c">>).name = 0
         /\ Lookup(o, <<"/", "a", "x">>).name = 0
         /\ Lookup(o, <<"/", "z">>).name = 0
         /\ Lookup(o, <<"/", "a", "~", "1", "x">>).name = 0    \* decodes to "/a/x", but is not below the mount "/a"
         /\ Lookup(o, <<"/", "a", "b", "~", "1", "c">>).name = 0
         /\ Lookup(o, <<"/", "a", "/", "~", "1", "x">>).name = 2

EmitTokens == \A p \in Good : PrintT(<<"VEC", ToJson([kind |-> "tokens", path |-> p, tokens |-> P!Tokens(p)])>>)
EmitLookup == \A o \in Perms : \A p \in TestPaths :
                 LET w == Lookup(o, p) IN
                 PrintT(<<"VEC", ToJson([kind |-> "lookup", order |-> o, path |-> p, winner |-> w.name, winner_kind |-> w.kind,
                                          remainder |-> IF w.kind \in {"registry", "struct"} THEN Remainder(w.at, p) ELSE <<>>,
                                          tokens |-> IF w.kind = "struct" THEN StructTokens(w.at, p) ELSE <<>>,
                                          mw |-> MwNames(o)])>>)
Init == done = FALSE
Next == ~done /\ done' = TRUE /\ EmitTokens /\ EmitLookup
Spec == Init /\ [][Next]_done
==============================================================================
