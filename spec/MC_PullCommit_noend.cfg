SPECIFICATION Spec
CONSTANTS
  Chunks = 3
  RequireEnd = FALSE
  PreDest = "old"
CONSTRAINT StateBound
INVARIANTS DestNeverPartial PublishedOnlyWhenComplete FailureLeavesNothing KillLeavesDest
CHECK_DEADLOCK FALSE
