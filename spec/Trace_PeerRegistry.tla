------------------------- MODULE Trace_PeerRegistry -------------------------
(* Linearizability of recorded PeerRegistry histories (sequential ones are the *)
(* one-thread case) against PeerRegistry.tla: every call is logged as an       *)
(* "inv" event before it starts and a "res" event (with its result) after it   *)
(* returned; between them the specification takes one silent Linearize step    *)
(* for that call, applying Effect(op) and fixing Ret(op).  The history is      *)
(* accepted iff some placement of the Linearize steps consumes every line.     *)
EXTENDS Integers, Sequences, FiniteSets, SequencesExt, TLC, Json, IOUtils

Rec == ndJsonDeserialize(IOEnv.TRACE)

Peers == 1..6
Keys == {"a", "b", "c", "d", "e", "f"}
Threads == 1..4

VARIABLES present, owner, order, pend, l
PR == INSTANCE PeerRegistry
tvars == <<present, owner, order, pend, l>>
E == Rec[l]

NoOp == [name |-> "", p |-> 0, k |-> ""]
Idle == [st |-> "idle", op |-> NoOp, ret |-> <<>>]

ASSUME TLCSet(1, 0)

Init == PR!PRInit /\ pend = [t \in Threads |-> Idle] /\ l = 1

Reset == /\ l <= Len(Rec) /\ E.ev = "reset"
         /\ \A t \in Threads : pend[t].st = "idle"
         /\ present' = {} /\ owner' = [k \in Keys |-> PR!NoPeer] /\ order' = [p \in Peers |-> <<>>]
         /\ UNCHANGED pend /\ l' = l + 1
Invoke == /\ l <= Len(Rec) /\ E.ev = "inv"
          /\ pend[E.t].st = "idle"
          /\ pend' = [pend EXCEPT ![E.t] = [st |-> "inv", op |-> E.op, ret |-> <<>>]]
          /\ l' = l + 1 /\ UNCHANGED <<present, owner, order>>
\* the silent linearization point of thread t's pending call
Linearize(t) == /\ pend[t].st = "inv"
                /\ PR!Effect(pend[t].op)
                /\ pend' = [pend EXCEPT ![t].st = "lin", ![t].ret = PR!Ret(pend[t].op)]
                /\ UNCHANGED l
Respond == /\ l <= Len(Rec) /\ E.ev = "res"
           /\ pend[E.t].st = "lin"
           /\ pend[E.t].ret = E.ret
           \* broadcast: exactly one delivery (right path, body, format) to each peer in the result, none elsewhere
           /\ (pend[E.t].op.name = "broadcast" => (E.deliv = E.ret /\ E.bad = 0))
           /\ pend' = [pend EXCEPT ![E.t] = Idle]
           /\ l' = l + 1 /\ UNCHANGED <<present, owner, order>>
Next == Reset \/ Invoke \/ Respond \/ \E t \in Threads : Linearize(t)
Spec == Init /\ [][Next]_tvars

IndexConsistent == PR!IndexConsistent
LookupSound == PR!LookupSound

Track == TLCSet(1, IF TLCGet(1) < l THEN l ELSE TLCGet(1))
Accepted == IF TLCGet(1) = Len(Rec) + 1 THEN TRUE
            ELSE PrintT(<<"UNMATCHED", TLCGet(1)>>) /\ FALSE
==============================================================================
