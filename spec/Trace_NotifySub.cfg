SPECIFICATION Spec
INVARIANTS LiveSubscriberKept AtMostOnce
CONSTRAINT Track
POSTCONDITION Accepted
CHECK_DEADLOCK FALSE
