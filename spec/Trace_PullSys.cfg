SPECIFICATION Spec
INVARIANTS DestNeverPartial PublishedOnlyWhenComplete
CONSTRAINT Track
POSTCONDITION Accepted
CHECK_DEADLOCK FALSE
