------------------------------- MODULE Fleet -------------------------------
(***************************************************************************)
(* Fleet / AsyncFleet retry loop against one node (src/fleet.rs,           *)
(* src/async_fleet.rs): call_*_with_retry, ensure_connected, the cached    *)
(* client, is_retryable_error, invalidate_client.                          *)
(*                                                                         *)
(* The node is a script: one outcome per connection use.                   *)
(*   refused              nothing listens, existing connections are gone   *)
(*   closed_after_accept  the request is read, the connection closed       *)
(*   closed_idle          the request is answered, then the node closes    *)
(*                        the connection while it sits idle                *)
(*   silent               the request is read and never answered           *)
(*   malformed            the reply is not a REPE frame                    *)
(*   app_error            an error response                                *)
(*   success              a response                                       *)
(* After the script the node is healthy (success forever).                 *)
(*                                                                         *)
(* As-built layer: the cached client (none / live / dead) and which error  *)
(* classes the loop retries (constant RetrySet: the intended set contains  *)
(* "brokenpipe", the set at the pinned commit did not).                    *)
(* Property decided here: C19.                                             *)
(***************************************************************************)
EXTENDS Naturals, Sequences, FiniteSets

CONSTANTS MaxAttempts,   \* retry_policy.max_attempts
          ScriptLen,     \* scripts of length 0..ScriptLen are drawn in Init
          RetrySet       \* error classes the loop treats as retryable

Outcomes == {"refused", "closed_after_accept", "closed_idle", "silent", "malformed", "app_error", "success"}
Replies == {"app_error", "success", "closed_idle"}        \* outcomes in which the node answers the request
\* error classes a call attempt can end in
Transport == {"refused", "eof", "timeout", "brokenpipe"}

VARIABLES script,       \* remaining node behaviour
          cached,       \* "none" | "live" | "dead" (a cached client whose connection is gone / writer shut)
          inCall, attempt, lastCls, attemptsThisCall, retriedAfter, stoppedAtReply,
          healthyCalls, recovered

vars == <<script, cached, inCall, attempt, lastCls, attemptsThisCall, retriedAfter, stoppedAtReply, healthyCalls, recovered>>

Scripts == UNION {[1..n -> Outcomes] : n \in 0..ScriptLen}
Healthy == script = <<>>

Init == /\ script \in Scripts /\ cached = "none" /\ inCall = FALSE /\ attempt = 0 /\ lastCls = "none"
        /\ attemptsThisCall = 0 /\ retriedAfter = {} /\ stoppedAtReply = TRUE /\ healthyCalls = 0 /\ recovered = FALSE

\* What one attempt observes: <<class, cached', scriptConsumed>>.
\* A dead cached client fails its write locally (the node never sees the attempt).
Observe ==
    IF cached = "dead" THEN <<"brokenpipe", "dead", FALSE>>
    ELSE LET o == IF Healthy THEN "success" ELSE Head(script) IN
         CASE o = "refused" -> IF cached = "none" THEN <<"refused", "none", TRUE>> ELSE <<"eof", "dead", TRUE>>
           [] o = "closed_after_accept" -> <<"eof", "dead", TRUE>>
           [] o = "closed_idle" -> <<"ok", "dead", TRUE>>
           [] o = "silent" -> <<"timeout", "live", TRUE>>
           [] o = "malformed" -> <<"invalid", "dead", TRUE>>
           [] o = "app_error" -> <<"app", "live", TRUE>>
           [] o = "success" -> <<"ok", "live", TRUE>>

StartCall == /\ ~inCall /\ healthyCalls < 2
             /\ inCall' = TRUE /\ attempt' = 0 /\ attemptsThisCall' = 0 /\ lastCls' = "none"
             /\ retriedAfter' = {} /\ stoppedAtReply' = TRUE
             /\ UNCHANGED <<script, cached, healthyCalls, recovered>>

DoAttempt ==
    /\ inCall /\ attempt < MaxAttempts
    /\ LET a == Observe
           e == a[1]
           wasHealthy == Healthy
           done == e = "ok" \/ e \notin RetrySet \/ attempt + 1 >= MaxAttempts IN
       /\ script' = IF a[3] /\ ~Healthy THEN Tail(script) ELSE script
       /\ attemptsThisCall' = attemptsThisCall + 1
       /\ lastCls' = e
       \* an attempt after a reply would be a second delivery of the request
       /\ stoppedAtReply' = (stoppedAtReply /\ lastCls \notin {"ok", "app"})
       /\ cached' = IF e \in RetrySet THEN "none" ELSE a[2]          \* invalidate_client on retryable errors only
       /\ retriedAfter' = IF e \in RetrySet /\ ~done THEN retriedAfter \cup {e} ELSE retriedAfter
       /\ attempt' = attempt + 1
       /\ inCall' = ~done
       /\ healthyCalls' = IF done /\ wasHealthy THEN healthyCalls + 1 ELSE healthyCalls
       /\ recovered' = (recovered \/ (wasHealthy /\ e = "ok"))
    /\ TRUE

Next == StartCall \/ DoAttempt
Spec == Init /\ [][Next]_vars

\* ---- property layer (C19)
AttemptBound == attemptsThisCall <= MaxAttempts
RetryOnlyTransport == retriedAfter \subseteq Transport \cup {"invalid"}    \* a malformed reply may or may not be retried
StopAtFirstReply == stoppedAtReply
\* once the node is reachable again one of the next two calls succeeds
NotWedged == (healthyCalls = 2 /\ ~inCall) => recovered
==============================================================================
