--------------------------- MODULE MC_TransferSync ---------------------------
EXTENDS TransferSync
Ack(f, o) == [name |-> "ack", f |-> f, o |-> o]
Cnl(r) == [name |-> "cancel", r |-> r]
Adv(f) == [name |-> "advance", f |-> f]
Res(f, o) == [name |-> "resume", f |-> f, o |-> o]
Snt(o) == [name |-> "sent", o |-> o]
\* window 4, initially sent = 4, acked = 0: a credit waiter for 2 bytes is blocked;
\* ack(0,1) releases too little, ack(0,4) enough, ack(1,4) is for another file;
\* resume(0,4) is at the trailing edge (frees credit), resume(0,0) re-stages the start
OpsFull == {Ack(0, 1), Ack(0, 4), Ack(1, 4), Cnl("a"), Adv(1), Adv(0), Res(0, 0), Res(0, 4), Snt(6), Snt(8)}
OpsSmall == {Ack(0, 1), Ack(0, 4), Cnl("a"), Adv(1), Res(0, 4), Snt(6)}
AllNotifiers == {"ack", "cancel", "advance", "resume"}
NoAck == AllNotifiers \ {"ack"}
NoCancel == AllNotifiers \ {"cancel"}
NoAdvance == AllNotifiers \ {"advance"}
NoResume == AllNotifiers \ {"resume"}
Both == {"credit", "reconnect"}
==============================================================================
