SPECIFICATION Spec
CONSTANTS
  Writers = {1, 2, 3}
  FrameLen = 3
  FailOnInterrupt = FALSE
INVARIANT WholeFrames
CHECK_DEADLOCK FALSE
