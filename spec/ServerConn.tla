------------------------------ MODULE ServerConn ------------------------------
(***************************************************************************)
(* One server connection (src/server_request.rs route / dispatch,          *)
(* src/server.rs, src/async_server.rs, src/websocket_server.rs             *)
(* reader_task / spawn_off_reader / writer_task / frame_outbound).         *)
(*                                                                         *)
(* Requests arrive in order.  The reader handles each in one step:         *)
(*   bad      rejected before dispatch (version, query format, UTF-8,      *)
(*            unknown path): an error response, or nothing for a notify    *)
(*   inline   the handler runs on the reader; its response is queued       *)
(*   off      (WebSocket _blocking routes) try to take a permit: none left *)
(*            -> ResourceExhausted at once (a notify is dropped), the      *)
(*            reader goes on; else the handler runs on a blocking thread:  *)
(*            HandlerExit -> Enqueue (response queued) -> Release (permit  *)
(*            back) are three separate steps, in that order                *)
(* The writer drains the outbound FIFO; every outbound message passes the  *)
(* size guard (Guard): over the assumed peer limit a response becomes an   *)
(* InternalError response with the same id, a notify is dropped.           *)
(* The TCP and async servers are the special case without "off" requests.  *)
(* Properties decided here: C03, C16, C17.                                 *)
(***************************************************************************)
EXTENDS Naturals, Sequences, FiniteSets

CONSTANTS Cap,      \* off-reader permits per connection (0 = unlimited)
          Reqs,     \* sequence of [kind: "bad"|"inline"|"off", notify: BOOLEAN, exit: "ret"|"err"|"panic", big: BOOLEAN]
          Limit     \* TRUE: an assumed peer frame limit is configured (big responses exceed it)

VARIABLES next,             \* index of the next request to read
          permits, running, \* off-reader permits left; handlers running
          exited,           \* handlers that returned, response not yet queued
          queued,           \* responses queued, permit not yet released
          outQ, wire,       \* outbound FIFO; what reached the wire: sequences of <<request index, code>>
          invoked           \* how often each request's handler ran

vars == <<next, permits, running, exited, queued, outQ, wire, invoked>>
N == Len(Reqs)
Req(i) == Reqs[i]
Unlimited == Cap = 0
Code(r) == IF r.exit = "ret" THEN "ok" ELSE IF r.exit = "err" THEN "app" ELSE "internal"

Init == /\ next = 1 /\ permits = Cap /\ running = {} /\ exited = {} /\ queued = {}
        /\ outQ = <<>> /\ wire = <<>> /\ invoked = [i \in 1..N |-> 0]

Push(q, i, c) == IF Req(i).notify THEN q ELSE Append(q, <<i, c>>)
ReadBad == /\ next <= N /\ Req(next).kind = "bad"
           /\ outQ' = Push(outQ, next, "reject") /\ next' = next + 1
           /\ UNCHANGED <<permits, running, exited, queued, wire, invoked>>
\* an inline handler that panics is NOT contained: the connection ends (C15 covers that exit);
\* inline requests here return or fail with an error
ReadInline == /\ next <= N /\ Req(next).kind = "inline"
              /\ invoked' = [invoked EXCEPT ![next] = @ + 1]
              /\ outQ' = Push(outQ, next, Code(Req(next))) /\ next' = next + 1
              /\ UNCHANGED <<permits, running, exited, queued, wire>>
ReadOff == /\ next <= N /\ Req(next).kind = "off"
           /\ IF Unlimited \/ permits > 0
              THEN /\ permits' = IF Unlimited THEN permits ELSE permits - 1
                   /\ running' = running \cup {next}
                   /\ invoked' = [invoked EXCEPT ![next] = @ + 1] /\ UNCHANGED outQ
              ELSE /\ outQ' = Push(outQ, next, "exhausted") /\ UNCHANGED <<permits, running, invoked>>
           /\ next' = next + 1 /\ UNCHANGED <<exited, queued, wire>>
HandlerExit(i) == /\ i \in running /\ running' = running \ {i} /\ exited' = exited \cup {i}
                  /\ UNCHANGED <<next, permits, queued, outQ, wire, invoked>>
Enqueue(i) == /\ i \in exited /\ exited' = exited \ {i} /\ queued' = queued \cup {i}
              /\ outQ' = Push(outQ, i, Code(Req(i)))
              /\ UNCHANGED <<next, permits, running, wire, invoked>>
Release(i) == /\ i \in queued /\ queued' = queued \ {i}
              /\ permits' = IF Unlimited THEN permits ELSE permits + 1
              /\ UNCHANGED <<next, running, exited, outQ, wire, invoked>>
\* the outbound size guard: a big ok-response over the limit is replaced by an internal error with the same id
Guard(m) == IF Limit /\ Req(m[1]).big /\ m[2] = "ok" THEN <<m[1], "too_large">> ELSE m
Writer == /\ outQ # <<>> /\ wire' = Append(wire, Guard(Head(outQ))) /\ outQ' = Tail(outQ)
          /\ UNCHANGED <<next, permits, running, exited, queued, invoked>>
Next == ReadBad \/ ReadInline \/ ReadOff \/ Writer \/ \E i \in 1..N : HandlerExit(i) \/ Enqueue(i) \/ Release(i)
Spec == Init /\ [][Next]_vars /\ WF_vars(Next)

--------------------------------------------------------------------------------
CapRespected == Unlimited \/ (Cardinality(running) <= Cap /\ Cardinality(running) + Cardinality(exited) + Cardinality(queued) + permits = Cap)
Quiescent == next > N /\ running = {} /\ exited = {} /\ queued = {} /\ outQ = <<>>
Resp(i) == {k \in 1..Len(wire) : wire[k][1] = i}
\* C03: exactly one response per request, none per notify
ExactlyOne == Quiescent => \A i \in 1..N : Cardinality(Resp(i)) = (IF Req(i).notify THEN 0 ELSE 1)
NeverTwo == \A i \in 1..N : Cardinality(Resp(i)) <= 1
Exhausted(i) == \E k \in Resp(i) : wire[k][2] = "exhausted"
\* a dispatched request's handler runs exactly once, a rejected request's never
InvokedOnce == Quiescent => \A i \in 1..N :
    invoked[i] = (IF Req(i).kind = "bad" THEN 0
                  ELSE IF Req(i).kind = "off" /\ Exhausted(i) THEN 0
                  ELSE IF Req(i).kind = "off" /\ Req(i).notify THEN invoked[i]          \* dropped at saturation or run: both allowed
                  ELSE 1)
InlineFIFO == \A a, b \in 1..Len(wire) :
    (a < b /\ Req(wire[a][1]).kind \in {"inline", "bad"} /\ Req(wire[b][1]).kind \in {"inline", "bad"}) => wire[a][1] < wire[b][1]
\* C16: a saturation reply only ever answers an off-reader request, and only while the cap is really taken
SaturationSound == \A k \in 1..Len(wire) : wire[k][2] = "exhausted" => Req(wire[k][1]).kind = "off"
PanicContained == \A k \in 1..Len(wire) : (Req(wire[k][1]).kind = "off" /\ Req(wire[k][1]).exit = "panic" /\ wire[k][2] # "exhausted") => wire[k][2] \in {"internal"}
\* C17: nothing over the limit reaches the wire
NoOversize == Limit => \A k \in 1..Len(wire) : ~(Req(wire[k][1]).big /\ wire[k][2] = "ok")
\* liveness: every slot comes back, every request is answered
NoLeak == <>[](permits = Cap)
AllAnswered == <>[]Quiescent
==============================================================================
