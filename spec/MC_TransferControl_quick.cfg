SPECIFICATION Spec
CONSTANTS
  Windows = {3}
  Caps = {3}
  ChunkLens = {1, 2, 4}
  Overheads = {0, 1}
  Offsets = {0, 1, 2, 3, 4, 9}
  Files = {0, 1}
  Reasons = {"", "b"}
  Peers = {1}
  Tags = {"x"}
  LastFlags = {FALSE}
  MaxOff = 5
  EnableProducer = FALSE
  AdversarySent = TRUE
  Dump = FALSE
CONSTRAINT StateConstraint
VIEW View
INVARIANTS AckedLeSent Contiguous Bounded
PROPERTIES StepProps
CHECK_DEADLOCK FALSE
