---------------------------- MODULE FleetMembers ----------------------------
(* Fleet membership, cached connections and fan-out (C19, second half):            *)
(* "a transport failure never leaves the node wedged, so a later attempt or call   *)
(*  reconnects and succeeds once the node is reachable again.  A broadcast          *)
(*  addresses exactly the nodes carrying all requested tags and returns exactly     *)
(*  one result per addressed node."                                                 *)
(*                                                                                  *)
(* Fleet.tla models ONE call's retry loop against one scripted node.  This module   *)
(* models the fleet around it: the node map (add_node / remove_node), the cached    *)
(* client per node (connect_all / disconnect_all / reconnect_disconnected,          *)
(* ensure_connected inside calls and health checks, invalidate_client on failure),  *)
(* the environment (a node goes down, taking its connections with it, and comes     *)
(* back on the same address), and the fan-out operations broadcast_json /           *)
(* map_reduce_json / health_check.  Every operation is one atomic step at the       *)
(* granularity of the public call (the harness issues them sequentially).           *)
(*                                                                                  *)
(* One action per public entry point; `ret` is what that call returns, `seen` the   *)
(* set of nodes that received exactly one request during the step.                  *)
EXTENDS Naturals, FiniteSets, Sequences, TLC

CONSTANTS Names,        \* node names
          Tags,         \* tag universe
          MaxAttempts,  \* retry_policy.max_attempts (>= 1)
          MatchAll,     \* TRUE as built: a target carries ALL requested tags (FALSE = any of them: must violate)
          Invalidate    \* TRUE as built: a transport failure drops the cached client (FALSE: must violate NotWedged)

VARIABLES members,      \* names currently in the fleet
          tags,         \* [Names -> SUBSET Tags]; meaningful for members
          conn,         \* names with a cached client (is_connected)
          stale,        \* cached clients whose socket the node has dropped (subset of conn)
          up,           \* names whose real node is listening
          ret,          \* return value of the last operation
          seen          \* nodes that received one request in the last operation
vars == <<members, tags, conn, stale, up, ret, seen>>

TagSets == SUBSET Tags
NoRet == [op |-> "init"]

Init == /\ members = {} /\ tags = [n \in Names |-> {}] /\ conn = {} /\ stale = {}
        /\ up = Names /\ ret = NoRet /\ seen = {}

(* ------------------------------------------------------------------ helpers *)
(* ensure_connected: a cached client is returned as it is, even a stale one.     *)
ConnectOk(n) == n \in conn \/ n \in up

(* one call with the retry loop (call_json_with_retry): the first attempt on a     *)
(* stale client fails with a transport error and invalidates it; each further       *)
(* attempt reconnects.  It succeeds iff the node is up and there is an attempt      *)
(* left after the stale one.                                                        *)
CallOk(n) == /\ n \in up
             /\ (n \in stale => (MaxAttempts >= 2 /\ Invalidate))
(* after the call: connected iff it succeeded; a failed call invalidates *)
AfterCalls(T) == IF Invalidate
                   THEN /\ conn' = (conn \ T) \cup {n \in T : CallOk(n)}
                        /\ stale' = stale \ T
                   ELSE /\ conn' = conn \cup {n \in T : CallOk(n)}
                        /\ stale' = stale
Wanted(ts) == {n \in members : ts \subseteq tags[n]}
Targets(ts) == IF MatchAll THEN Wanted(ts) ELSE {n \in members : ts = {} \/ ts \cap tags[n] # {}}

(* ------------------------------------------------------------------ actions *)
AddNode(n, ts) ==
  /\ IF n \in members
       THEN /\ ret' = [op |-> "add_node", ok |-> FALSE] /\ UNCHANGED <<members, tags>>
       ELSE /\ ret' = [op |-> "add_node", ok |-> TRUE]
            /\ members' = members \cup {n} /\ tags' = [tags EXCEPT ![n] = ts]
  /\ seen' = {} /\ UNCHANGED <<conn, stale, up>>

RemoveNode(n) ==
  /\ ret' = [op |-> "remove_node", ok |-> n \in members]
  /\ members' = members \ {n} /\ conn' = conn \ {n} /\ stale' = stale \ {n}
  /\ seen' = {} /\ UNCHANGED <<tags, up>>

ConnectAll ==
  /\ ret' = [op |-> "connect_all", connected |-> {n \in members : ConnectOk(n)}, failed |-> {n \in members : ~ConnectOk(n)}]
  /\ conn' = conn \cup {n \in members : n \in up}
  /\ seen' = {} /\ UNCHANGED <<members, tags, stale, up>>

DisconnectAll ==
  /\ ret' = [op |-> "disconnect_all", disconnected |-> members]
  /\ conn' = {} /\ stale' = {}
  /\ seen' = {} /\ UNCHANGED <<members, tags, up>>

ReconnectDisconnected ==
  /\ ret' = [op |-> "reconnect_disconnected", reconnected |-> {n \in members \ conn : n \in up}, failed |-> {n \in members \ conn : n \notin up}]
  /\ conn' = conn \cup {n \in members : n \in up}
  /\ seen' = {} /\ UNCHANGED <<members, tags, stale, up>>

(* call_json / call_message on one node *)
Call(n) ==
  /\ IF n \notin members
       THEN /\ ret' = [op |-> "call", found |-> FALSE, ok |-> FALSE] /\ seen' = {} /\ UNCHANGED <<conn, stale>>
       ELSE /\ ret' = [op |-> "call", found |-> TRUE, ok |-> CallOk(n)]
            /\ seen' = {m \in {n} : CallOk(m)} /\ AfterCalls({n})
  /\ UNCHANGED <<members, tags, up>>

(* broadcast_json and map_reduce_json (kind tells the harness which to use): one     *)
(* result per node carrying all requested tags, nobody else contacted.  `ts` is a    *)
(* set: the order and multiplicity in which the caller lists tags do not matter.     *)
Broadcast(kind, ts) ==
  LET T == Targets(ts) IN
  /\ ret' = [op |-> kind, req |-> ts, results |-> T, ok |-> {n \in T : CallOk(n)}]
  /\ seen' = {n \in T : CallOk(n)} /\ AfterCalls(T)
  /\ UNCHANGED <<members, tags, up>>

(* health_check: every member, ONE attempt and no retry: a stale cached client    *)
(* makes the node look unhealthy once (and is invalidated), even if it is back up. *)
HealthOk(n) == IF n \in conn THEN n \notin stale ELSE n \in up
HealthCheck ==
  /\ ret' = [op |-> "health_check", results |-> members, healthy |-> {n \in members : HealthOk(n)}]
  /\ seen' = {n \in members : HealthOk(n)}
  /\ conn' = (conn \ members) \cup {n \in members : HealthOk(n)}
  /\ stale' = stale \ members
  /\ UNCHANGED <<members, tags, up>>

(* filter_nodes / keys / connected_nodes are pure observers; the harness compares     *)
(* them after every step against Targets(ts), members and conn.                       *)

(* environment *)
NodeDown(n) == /\ n \in up /\ up' = up \ {n} /\ stale' = stale \cup ({n} \cap conn)
               /\ ret' = [op |-> "node_down"] /\ seen' = {} /\ UNCHANGED <<members, tags, conn>>
NodeUp(n)   == /\ n \notin up /\ up' = up \cup {n}
               /\ ret' = [op |-> "node_up"] /\ seen' = {} /\ UNCHANGED <<members, tags, conn, stale>>

Next == \/ \E n \in Names, ts \in TagSets : AddNode(n, ts)
        \/ \E n \in Names : RemoveNode(n) \/ Call(n) \/ NodeDown(n) \/ NodeUp(n)
        \/ ConnectAll \/ DisconnectAll \/ ReconnectDisconnected \/ HealthCheck
        \/ \E k \in {"broadcast_json", "map_reduce_json"}, ts \in TagSets : Broadcast(k, ts)
Spec == Init /\ [][Next]_vars

(* ------------------------------------------------------------------ properties *)
TypeOK == /\ members \subseteq Names /\ conn \subseteq members /\ stale \subseteq conn /\ up \subseteq Names
(* a fresh (non-stale) cached client implies its node is up: stale is exactly "dropped by the node" *)
FreshImpliesUp == \A n \in conn \ stale : n \in up
(* exactly one result per addressed node, nobody else contacted *)
BroadcastExact == ret.op \in {"broadcast_json", "map_reduce_json"} =>
                    /\ ret.ok \subseteq ret.results /\ seen = ret.ok /\ ret.results \subseteq members
                    /\ ret.results = Wanted(ret.req)
(* never wedged: with two attempts a call to a reachable member always succeeds, whatever came before,
   and after ANY call or fan-out no addressed node is left with a stale client *)
NotWedged == /\ (ret.op = "call" /\ ret.found) => \A n \in seen : n \in conn /\ n \notin stale
             /\ (MaxAttempts >= 2 /\ ret.op \in {"call", "broadcast_json", "map_reduce_json"}) =>
                   \A n \in (IF ret.op = "call" THEN seen ELSE ret.results) : (n \in up) => n \in conn
NoStaleAfterFanOut == ret.op \in {"broadcast_json", "map_reduce_json"} => stale \cap ret.results = {}
(* a second health check right after one sees every reachable member healthy: the first one repaired it *)
HealedAfterHealth == ret.op = "health_check" => \A n \in members : (n \in conn) => n \notin stale
==============================================================================
