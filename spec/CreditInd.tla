------------------------------ MODULE CreditInd ------------------------------
(***************************************************************************)
(* The integer fragment of TransferControl's credit accounting (C11), with *)
(* the loop-following producer, written so that Apalache can prove its     *)
(* invariant INDUCTIVELY, i.e. for every window size, every offset and     *)
(* every chunk length (the exhaustive TLC configurations fix window = 3).  *)
(*                                                                         *)
(* TransferControl.tla (instantiated over Nat, with the replay ring) is    *)
(* checked by TLC to REFINE this module: MC_TransferControl!RefinesCredit. *)
(* Saturating u64 arithmetic is not modelled here: below 2^64 the two      *)
(* agree, and the saturation corner is covered by the 64-bit traces.       *)
(***************************************************************************)
EXTENDS Integers

VARIABLES
    \* @type: Int;
    window,
    \* @type: Int;
    sent,
    \* @type: Int;
    acked,
    \* @type: Int;
    file,
    \* @type: Bool;
    cancelled,
    \* @type: Str;
    ppc,
    \* @type: Int;
    plen

vars == <<window, sent, acked, file, cancelled, ppc, plen>>

InFlight == sent - acked
Max(a, b) == IF a >= b THEN a ELSE b
Min(a, b) == IF a <= b THEN a ELSE b

Init == /\ window \in Nat /\ sent = 0 /\ acked = 0 /\ file = 0 /\ cancelled = FALSE /\ ppc = "idle" /\ plen = 0

\* record_ack(f, o): current file only, capped to sent, strict increase only
Ack(f, o) == /\ acked' = IF f = file /\ acked < Min(o, sent) THEN Min(o, sent) ELSE acked
             /\ UNCHANGED <<window, sent, file, cancelled, ppc, plen>>
\* an accepted request_resume(f, o) moves the acknowledged offset up to o, never past sent
ResumeAck(o) == /\ ~cancelled
                /\ acked' = IF acked < o /\ o <= sent THEN o ELSE acked
                /\ UNCHANGED <<window, sent, file, cancelled, ppc, plen>>
Cancel == cancelled' = TRUE /\ UNCHANGED <<window, sent, acked, file, ppc, plen>>
\* advance_to_file: both offsets restart; the producer loop restarts with it
Advance(f) == /\ file' = f /\ sent' = 0 /\ acked' = 0 /\ ppc' = "idle" /\ plen' = 0
              /\ UNCHANGED <<window, cancelled>>
\* the documented loop: wait_for_credit(len) = Ok ; push_replay ; send ; record_sent(end of the chunk)
CreditReady(len) == InFlight = 0 \/ InFlight + len <= window
ProdCredit(len) == /\ ppc = "idle" /\ ~cancelled /\ CreditReady(len)
                   /\ ppc' = "granted" /\ plen' = len
                   /\ UNCHANGED <<window, sent, acked, file, cancelled>>
ProdPush == ppc = "granted" /\ ppc' = "pushed" /\ UNCHANGED <<window, sent, acked, file, cancelled, plen>>
ProdSent == /\ ppc = "pushed" /\ sent' = sent + plen /\ ppc' = "idle"
            /\ UNCHANGED <<window, acked, file, cancelled, plen>>

\* Fs, Os, Ls: where file indices, offsets and chunk lengths are drawn from (Int for the proof, small sets for TLC)
NextIn(Fs, Os, Ls) ==
        \/ \E f \in Fs, o \in Os : o >= 0 /\ Ack(f, o)
        \/ \E o \in Os : o >= 0 /\ ResumeAck(o)
        \/ Cancel
        \/ \E f \in Fs : Advance(f)
        \/ \E len \in Ls : len >= 0 /\ ProdCredit(len)
        \/ ProdPush \/ ProdSent
Next == NextIn(Int, Int, Int)
Spec == Init /\ [][Next]_vars

TypeOK == /\ window \in Nat /\ sent \in Nat /\ acked \in Nat /\ file \in Int /\ cancelled \in BOOLEAN
          /\ ppc \in {"idle", "granted", "pushed"} /\ plen \in Nat

\* C11: never more than one window unacknowledged, except one oversized chunk sent while nothing was outstanding
AckedLeSent == acked <= sent
ProducerBound == InFlight <= Max(window, plen)
\* inductive strengthening: a granted chunk still fits (acks only shrink what is in flight), or nothing is in flight
GrantStillFits == ppc \in {"granted", "pushed"} => (InFlight = 0 \/ InFlight + plen <= window)
IndInv == TypeOK /\ AckedLeSent /\ ProducerBound /\ GrantStillFits
\* for `apalache-mc check --init=IndInit --inv=IndInv --length=1`
IndInit == IndInv
=============================================================================
