-------------------------- MODULE Trace_ValueStream --------------------------
(* Trace specification for C09: one line per pull.                               *)
(*   raw  : a raw /_svs/open, next ..., (cancel), next exchange: the reply        *)
(*          sequence [(length, last)], how it ended, what one more `next` got,     *)
(*          and whether the concatenated bytes are (after decompression) the       *)
(*          producer's logical bytes / a prefix of them.                           *)
(*   pull : one of the library's pullers: did it return, and the exact bytes.      *)
(* Property layer (a violation): ValueStream's Delivered / Lasts / EmptyIsSingle / *)
(* NothingAfterEnd / FailNeverLast, stated over the observed reply sequence.       *)
(* As-built layer (spec_drift only): the exact chunk sizes ValueStream!AsBuilt     *)
(* predicts for an uncompressed stream.                                            *)
EXTENDS Integers, Sequences, FiniteSets, TLC, Json, IOUtils
Rec == ndJsonDeserialize(IOEnv.TRACE)
VARIABLE l
E == Rec[l]
ASSUME TLCSet(2, <<>>)
ASSUME TLCSet(3, <<>>)

Lasts(rs) == {i \in 1..Len(rs) : rs[i][2]}
RawBad(e) ==
    IF e.open # "ok" THEN "open_failed"
    ELSE IF e.after # "err" THEN "pull_past_end_not_an_error"           \* past the end / after release
    ELSE IF e.cancelled THEN (IF Lasts(e.replies) # {} THEN "end_marker_before_the_end" ELSE IF ~e.concat_ok THEN "bytes_differ" ELSE "")
    ELSE IF e.fail >= 0 THEN
         (IF e.ended # "error" THEN "producer_failure_not_reported"
          ELSE IF Lasts(e.replies) # {} THEN "end_marker_after_failure"
          ELSE IF ~e.concat_ok THEN "bytes_differ" ELSE "")
    ELSE (IF e.ended # "last" THEN "stream_did_not_end"
          ELSE IF Lasts(e.replies) # {Len(e.replies)} THEN "end_marker_misplaced"      \* exactly one, the final chunk
          ELSE IF ~e.concat_ok THEN "bytes_differ"
          ELSE IF e.concat_len # e.n THEN "length_differs"
          ELSE IF e.n = 0 /\ e.comp = 0 /\ e.producer \in {"writer", "reader"} /\ e.replies # << <<0, TRUE>> >> THEN "empty_payload_not_single_empty_chunk"
          ELSE "")
\* release from another connection while a next is parked (ValueStream!CCancel with hpc # "idle", AfterCancelError)
CCBad(e) == IF e.open # "ok" THEN "open_failed"
            ELSE IF ~e.cancel_acked THEN "release_not_acknowledged"
            ELSE IF e.third # "err" THEN "pull_after_release_not_an_error"
            ELSE ""
\* two connections pulling one stream (ValueStream!AtMostOneLast, NothingAfterEnd, FailNeverLast hold of the stream, however
\* many connections its pulls arrive on)
CNBad(e) == IF e.open # "ok" THEN "open_failed"
            ELSE IF e.lasts > 1 THEN "second_end_marker"
            ELSE IF e.fail >= 0 /\ e.lasts # 0 THEN "end_marker_after_producer_failure"
            ELSE IF e.fail < 0 /\ e.lasts # 1 THEN "no_end_marker"
            ELSE IF ~e.after_last_only_errors THEN "reply_after_end_marker"
            ELSE ""
\* a library pull whose stream was released from another connection half-way (ValueStream!CCancel, AfterCancelError): an
\* error, or - the release having lost the race - the complete content; never a prefix returned as the value
RelBad(e) == IF e.open # "ok" THEN "open_failed" ELSE IF e.ok /\ ~e.equal THEN "prefix_returned_after_release" ELSE ""
PullBad(e) == IF e.fail >= 0 /\ e.fail < e.n THEN (IF e.ok THEN "value_from_failed_stream" ELSE "")
              ELSE IF e.fail >= 0 THEN "" \* failure exactly at the end: either outcome
              ELSE IF ~e.ok THEN "pull_failed" ELSE IF ~e.equal THEN "bytes_differ" ELSE ""
\* as built: uncompressed chunks are exactly chunk bytes, the last one the remainder
ExpectedSizes(n, c) == [i \in 1..((n + c - 1) \div c) |-> IF i * c <= n THEN c ELSE n % c]
Drift(e) == IF e.ev = "raw" /\ e.open = "ok" /\ e.comp = 0 /\ e.fail < 0 /\ ~e.cancelled /\ e.n > 0 /\ e.producer \in {"writer", "reader"}
               /\ [i \in 1..Len(e.replies) |-> e.replies[i][1]] # ExpectedSizes(e.n, e.chunk) THEN "chunk_sizes" ELSE ""
Step == /\ l <= Len(Rec) /\ l' = l + 1
        /\ LET k == IF E.ev = "raw" THEN RawBad(E) ELSE IF E.ev = "raw_cc" THEN CCBad(E) ELSE IF E.ev = "raw_cn" THEN CNBad(E) ELSE IF E.ev = "pull_released" THEN RelBad(E) ELSE PullBad(E) IN (k # "") => TLCSet(2, Append(TLCGet(2), <<l, k>>))
        /\ (Drift(E) # "") => TLCSet(3, Append(TLCGet(3), <<l, Drift(E)>>))
Init == l = 1
Spec == Init /\ [][Step]_l
Accepted == /\ PrintT(<<"MISMATCHES", ToJson(TLCGet(2))>>)
            /\ PrintT(<<"DRIFT", ToJson(TLCGet(3))>>)
            /\ IF TLCGet("stats").diameter = Len(Rec) + 1 THEN TRUE
               ELSE PrintT(<<"UNMATCHED", TLCGet("stats").diameter>>) /\ FALSE
==============================================================================
