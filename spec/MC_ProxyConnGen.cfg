SPECIFICATION GSpec
CONSTANTS
  MaxFrames = 4
  GuardOn = TRUE
INVARIANTS Emit
CHECK_DEADLOCK FALSE
