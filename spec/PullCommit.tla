------------------------------ MODULE PullCommit ------------------------------
(***************************************************************************)
(* Pull-to-file commit protocol (src/value_stream.rs write_file, TempFile,  *)
(* pull_to_file(_async), pull_to_file_verified_async,                      *)
(* pull_to_file_trailer_verified): chunks are written to <dest>.svspart;   *)
(* only after the end marker was seen, the file flushed and synced and the *)
(* caller's verification passed is it renamed over the destination.  An    *)
(* in-process failure (producer failure, connection cut, short stream,     *)
(* rejecting verifier, trailer longer than the stream) drops the guard,    *)
(* which removes the temp file; a killed process runs no guard.            *)
(* Property decided here: C10.                                             *)
(***************************************************************************)
EXTENDS Integers, Sequences, FiniteSets, TLC
CONSTANTS PreDest,               \* what the destination path holds beforehand: "absent" or "old"
          RequireEnd,            \* TRUE: as implemented; FALSE: the fill loop's end-marker demand dropped (must-violate configuration)
          Chunks                 \* model-checking bound on the number of writes (used only by StateBound)
VARIABLES dest, tmp, got, lastSeen, synced, verified, phase, mode
vars == <<dest, tmp, got, lastSeen, synced, verified, phase, mode>>
\* dest : "absent" | "old" | "partial" | "complete"        tmp : "absent" | "empty" | "partial" | "complete"
\* mode : "blocking" (write_file / pull_consume: the reader itself reports a missing end marker or a failed request)
\*        "async"    (run_pull: the consuming thread reads a channel and sees plain EOF when the pull loop stops for
\*                    any reason; the pull loop's error is surfaced afterwards, before the consumer's result is used)
\* phase: "start" | "filling" | "filled" | "synced" | "verifiedOk" | "committed" | "failed" | "cleaned" | "killed"
Init == dest = PreDest /\ tmp = "absent" /\ got = 0 /\ lastSeen = FALSE /\ synced = FALSE /\ verified = FALSE /\ phase = "start" /\ mode \in {"blocking", "async"}
\* File::create(<dest>.svspart)
CreateTmp == phase = "start" /\ tmp' = "empty" /\ phase' = "filling" /\ UNCHANGED <<dest, got, lastSeen, synced, verified, mode>>
\* one write() of received content to the temp file; `full` says whether the temp file now holds the whole content
WriteChunk(full) == /\ phase = "filling" /\ ~lastSeen /\ tmp # "complete" /\ got' = got + 1
                    /\ tmp' = IF full THEN "complete" ELSE "partial"
                    /\ UNCHANGED <<dest, lastSeen, synced, verified, phase, mode>>
\* the response carrying the end marker arrived (only a producer that emitted everything sends it)
SeeEnd == phase = "filling" /\ ~lastSeen /\ tmp = "complete" /\ lastSeen' = TRUE /\ UNCHANGED <<dest, tmp, got, synced, verified, phase, mode>>
\* the fill loop returns Ok.  blocking: only after the end marker (ChunkReader errors otherwise, write_file re-checks
\* last_seen).  async: the channel reader returns EOF as soon as the pull loop stops, end marker or not.
EndFill == phase = "filling" /\ ((mode = "blocking" /\ RequireEnd) => lastSeen) /\ phase' = "filled" /\ UNCHANGED <<dest, tmp, got, lastSeen, synced, verified, mode>>
\* flush + sync_all
Sync == phase = "filled" /\ synced' = TRUE /\ phase' = "synced" /\ UNCHANGED <<dest, tmp, got, lastSeen, verified, mode>>
\* the caller's verifier (plain pulls: trivially ok)
Verify(ok) == /\ phase = "synced" /\ (RequireEnd => lastSeen)      \* async: `pull_res?` passed before the consumer's value is used
              /\ IF ok THEN verified' = TRUE /\ phase' = "verifiedOk" ELSE phase' = "failed" /\ UNCHANGED verified
              /\ UNCHANGED <<dest, tmp, got, lastSeen, synced, mode>>
\* TempFile::commit: rename(tmp, dest)
Rename == phase = "verifiedOk" /\ dest' = tmp /\ tmp' = "absent" /\ phase' = "committed" /\ UNCHANGED <<got, lastSeen, synced, verified, mode>>
\* producer failure / connection cut / short stream / trailer longer than the stream: any time before the fill completes
FailInProcess == phase \in {"start", "filling"} /\ ~lastSeen /\ phase' = "failed" /\ UNCHANGED <<dest, tmp, got, lastSeen, synced, verified, mode>>
\* a trailer-verified pull learns only at the end that the stream is shorter than the trailer
FailAtEnd == phase = "filling" /\ lastSeen /\ phase' = "failed" /\ UNCHANGED <<dest, tmp, got, lastSeen, synced, verified, mode>>
\* async only: the pull loop's error is surfaced after the consumer finished with a short file
PullErrorSurfaces == mode = "async" /\ phase \in {"filled", "synced"} /\ ~lastSeen /\ phase' = "failed" /\ UNCHANGED <<dest, tmp, got, lastSeen, synced, verified, mode>>
\* a local I/O failure (write, flush, sync or rename returns an error: disk full, I/O error): the call had no effect
\* and the pull fails, whatever it had reached
LocalIoFail == phase \in {"start", "filling", "filled", "synced", "verifiedOk"} /\ phase' = "failed" /\ UNCHANGED <<dest, tmp, got, lastSeen, synced, verified, mode>>
\* TempFile::drop: remove the temp file
GuardDrop == phase = "failed" /\ tmp' = "absent" /\ phase' = "cleaned" /\ UNCHANGED <<dest, got, lastSeen, synced, verified, mode>>
\* the process dies: nothing more happens
Kill == phase \notin {"committed", "cleaned", "killed"} /\ phase' = "killed" /\ UNCHANGED <<dest, tmp, got, lastSeen, synced, verified, mode>>
Next == CreateTmp \/ (\E full \in BOOLEAN : WriteChunk(full)) \/ SeeEnd \/ EndFill \/ Sync \/ (\E ok \in BOOLEAN : Verify(ok)) \/ Rename
        \/ FailInProcess \/ FailAtEnd \/ PullErrorSurfaces \/ LocalIoFail \/ GuardDrop \/ Kill
Spec == Init /\ [][Next]_vars
StateBound == got <= Chunks
DestNeverPartial == dest \in {PreDest, "complete"}
PublishedOnlyWhenComplete == dest = "complete" => (lastSeen /\ synced /\ verified)
FailureLeavesNothing == phase = "cleaned" => (dest = PreDest /\ tmp = "absent")
KillLeavesDest == phase = "killed" => dest = PreDest
\* what the filesystem may look like after a run, as a predicate the trace specification uses:
\*   result ok                  -> destination complete, no temp file
\*   in-process failure         -> destination as before, no temp file
\*   killed before the rename   -> destination as before (the temp file may remain)
\*   killed after / not at all  -> as for result ok
Allowed(pre, ok, killed, d, tmpExists) ==
    IF killed THEN d = pre                                  \* the kill landed before the rename took effect
    ELSE IF ok THEN d = "complete" /\ ~tmpExists
    ELSE d = pre /\ ~tmpExists
==============================================================================
