------------------------------ MODULE PullCommit ------------------------------
(***************************************************************************)
(* Pull-to-file commit protocol (src/value_stream.rs write_file, TempFile,  *)
(* pull_to_file(_async), pull_to_file_verified_async,                      *)
(* pull_to_file_trailer_verified): chunks are written to <dest>.svspart;   *)
(* only after the end marker was seen, the file flushed and synced and the *)
(* caller's verification passed is it renamed over the destination.  An    *)
(* in-process failure (producer failure, connection cut, short stream,     *)
(* rejecting verifier, trailer longer than the stream) drops the guard,    *)
(* which removes the temp file; a killed process runs no guard.            *)
(* Property decided here: C10.                                             *)
(***************************************************************************)
EXTENDS Integers, Sequences, FiniteSets, TLC
CONSTANTS Chunks, PreDest        \* number of chunks in the stream; PreDest \in {"absent","old"}
VARIABLES dest, tmp, got, lastSeen, synced, verified, phase
vars == <<dest, tmp, got, lastSeen, synced, verified, phase>>
\* phase: "start" | "filling" | "filled" | "synced" | "verifiedOk" | "committed" | "failed" | "cleaned" | "killed"
Init == dest = PreDest /\ tmp = "absent" /\ got = 0 /\ lastSeen = FALSE /\ synced = FALSE /\ verified = FALSE /\ phase = "start"
CreateTmp == phase = "start" /\ tmp' = "empty" /\ phase' = "filling" /\ UNCHANGED <<dest, got, lastSeen, synced, verified>>
WriteChunk == /\ phase = "filling" /\ got < Chunks /\ got' = got + 1
              /\ tmp' = IF got + 1 = Chunks THEN "complete" ELSE "partial"
              /\ lastSeen' = (got + 1 = Chunks) /\ UNCHANGED <<dest, synced, verified, phase>>
EndFill == phase = "filling" /\ lastSeen /\ phase' = "filled" /\ UNCHANGED <<dest, tmp, got, lastSeen, synced, verified>>
\* a stream of zero chunks never happens: an empty payload is one empty final chunk (Chunks >= 1)
Sync == phase = "filled" /\ synced' = TRUE /\ phase' = "synced" /\ UNCHANGED <<dest, tmp, got, lastSeen, verified>>
Verify(ok) == /\ phase = "synced"
              /\ IF ok THEN verified' = TRUE /\ phase' = "verifiedOk" ELSE phase' = "failed" /\ UNCHANGED verified
              /\ UNCHANGED <<dest, tmp, got, lastSeen, synced>>
Rename == phase = "verifiedOk" /\ dest' = "complete" /\ tmp' = "absent" /\ phase' = "committed" /\ UNCHANGED <<got, lastSeen, synced, verified>>
\* producer failure / connection cut / short stream: any time before the fill completes
FailInProcess == phase \in {"start", "filling"} /\ ~lastSeen /\ phase' = "failed" /\ UNCHANGED <<dest, tmp, got, lastSeen, synced, verified>>
GuardDrop == phase = "failed" /\ tmp' = "absent" /\ phase' = "cleaned" /\ UNCHANGED <<dest, got, lastSeen, synced, verified>>
Kill == phase \notin {"committed", "cleaned", "killed"} /\ phase' = "killed" /\ UNCHANGED <<dest, tmp, got, lastSeen, synced, verified>>
Next == CreateTmp \/ WriteChunk \/ EndFill \/ Sync \/ (\E ok \in BOOLEAN : Verify(ok)) \/ Rename \/ FailInProcess \/ GuardDrop \/ Kill
Spec == Init /\ [][Next]_vars
DestNeverPartial == dest \in {PreDest, "complete"}
PublishedOnlyWhenComplete == dest = "complete" => (lastSeen /\ synced /\ verified)
FailureLeavesNothing == phase = "cleaned" => (dest = PreDest /\ tmp = "absent")
KillLeavesDest == phase = "killed" => dest = PreDest
\* what the filesystem may look like after a run, as a predicate the trace specification uses:
\*   result ok                  -> destination complete, no temp file
\*   in-process failure         -> destination as before, no temp file
\*   killed before the rename   -> destination as before (the temp file may remain)
\*   killed after / not at all  -> as for result ok
Allowed(pre, ok, killed, d, tmpExists) ==
    IF killed THEN d = pre                                  \* the kill landed before the rename took effect
    ELSE IF ok THEN d = "complete" /\ ~tmpExists
    ELSE d = pre /\ ~tmpExists
==============================================================================
