------------------------- MODULE MC_TransferControl -------------------------
(* Exhaustive configuration of TransferControl over Nat, with:             *)
(*  - an adversary that may call every operation with every small value,   *)
(*  - the documented producer loop as a process (credit -> push -> sent),  *)
(*  - an edge dump (one JSON line per explored transition) for replay on   *)
(*    the real object.                                                     *)
EXTENDS Naturals, Sequences, FiniteSets, TLC, Json

CONSTANTS Windows, Caps,  \* sets: the constructor arguments are drawn in Init
          ChunkLens,      \* logical chunk lengths
          Overheads,      \* wire_len - data_len
          Offsets,        \* offsets an adversary may name in sent / ack / resume
          Files, Reasons, Peers, Tags, LastFlags,
          MaxOff,         \* state constraint: ring end <= MaxOff
          EnableProducer, \* BOOLEAN: include the loop-following producer process
          AdversarySent,  \* BOOLEAN: may the adversary call record_sent (FALSE: only the producer loop)
          Dump            \* BOOLEAN: print EDGE lines

NAdd(a, b) == a + b
NSub(a, b) == IF a >= b THEN a - b ELSE 0
NLeq(a, b) == a <= b

VARIABLES window, cap, sent, acked, file, cancelled, pending, peer, ring, last,
          ppc,      \* producer loop: "idle" | "granted" | "pushed"
          plen      \* chunk length the producer was granted / last sent

TC == INSTANCE TransferControl WITH Zero <- 0, Add <- NAdd, SatSub <- NSub, Leq <- NLeq

tcvars == <<window, cap, sent, acked, file, cancelled, pending, peer, ring>>
vars == <<tcvars, last, ppc, plen>>
View == <<tcvars, ppc, plen>>

Init == /\ \E w \in Windows, c \in Caps : TC!TCInit(w, c, 0)
        /\ last = [op |-> "init"] /\ ppc = "idle" /\ plen = 0

\* bookkeeping of the producer-loop variables for an adversary step
Book == IF last'.op = "advance" THEN ppc' = "idle" /\ plen' = 0 ELSE UNCHANGED <<ppc, plen>>

\* while the loop-following producer exists the adversary does not push (single producer)
APush == /\ ~EnableProducer
         /\ \E d \in ChunkLens, ov \in Overheads, lf \in LastFlags, tg \in Tags : TC!Push(d, d + ov, lf, tg)
         /\ Book
ASent == AdversarySent /\ (\E o \in Offsets : TC!RecordSent(o)) /\ Book
AAck == (\E f \in Files, o \in Offsets : TC!RecordAck(f, o)) /\ Book
ACancel == (\E r \in Reasons : TC!Cancel(r)) /\ Book
AAdvance == (\E f \in Files : TC!Advance(f)) /\ Book
AResume == (\E p \in Peers, f \in Files, o \in Offsets : TC!Resume(p, f, o)) /\ Book
ACredit == (\E l \in ChunkLens : TC!CreditProbe(l)) /\ Book
AReconnect == TC!ReconnectProbe /\ Book
ASetPeer == (\E p \in Peers : TC!SetPeer(p)) /\ Book
AReplay == (\E o \in Offsets : TC!ReplayQuery(o)) /\ Book

(* The documented producer loop (module doc of src/stream.rs, step 3):     *)
(* wait_for_credit(len) = Ok ; push_replay ; send ; record_sent(new end).   *)
ProdCredit == /\ EnableProducer /\ ppc = "idle"
              /\ \E l \in ChunkLens : /\ TC!CreditProbe(l) /\ TC!CreditRet(l)[1] = "ok"
                                      /\ ppc' = "granted" /\ plen' = l
ProdPush == /\ ppc = "granted" /\ \E ov \in Overheads, tg \in Tags : TC!Push(plen, plen + ov, FALSE, tg)
            /\ ppc' = "pushed" /\ UNCHANGED plen
ProdSent == /\ ppc = "pushed" /\ TC!RecordSent(TC!NextOff)
            /\ ppc' = "idle" /\ UNCHANGED plen

Next == \/ APush \/ ASent \/ AAck \/ ACancel \/ AAdvance \/ AResume \/ ACredit \/ AReconnect \/ ASetPeer
        \/ ProdCredit \/ ProdPush \/ ProdSent
NextObs == Next \/ AReplay

Spec == Init /\ [][Next]_vars

StateConstraint == (ring # <<>> => TC!RingEnd <= MaxOff) /\ Len(ring) <= 4

\* ---- invariants
AckedLeSent == TC!AckedLeSent
Contiguous == TC!Contiguous
Bounded == TC!Bounded
\* C11: a producer following the loop never has more than one window (or one oversized chunk) unacknowledged.
\* Only meaningful when record_sent is called by the producer alone.
ProducerBound == AdversarySent \/ (TC!InFlight <= window \/ TC!InFlight <= plen)

\* refinement: the credit fragment of every step is a step of CreditInd.tla, whose invariant Apalache proves
\* inductively for all integers (meaningful in the producer configurations: the adversary does not call record_sent)
CI == INSTANCE CreditInd WITH cancelled <- (cancelled # <<>>)
RefinesCredit == [][CI!NextIn(Files, Offsets, ChunkLens)]_(CI!vars)

StepProps == [][ /\ TC!CancelStickyStep /\ TC!AckNoReleaseStep /\ TC!AckMonotoneStep /\ TC!GrantSoundStep
                 /\ TC!CancelReportedStep /\ TC!ResumeGaplessStep /\ TC!ResumeOnlyCurrentStep
                 /\ TC!AdvanceClearsStep /\ TC!KeepsNewestStep ]_vars

\* ---- edge dump: one line per explored transition (run with -workers 1)
\* state array: [window, cap, sent, acked, file, cancelled, pending, peer, ring]; chunk: [off, dlen, wlen, last, tag]
RingArr(rg) == [i \in 1..Len(rg) |-> <<rg[i].off, rg[i].dlen, rg[i].wlen, rg[i].last, rg[i].tag>>]
EdgeDump == Dump => PrintT(<<"EDGE", ToJson(<< <<window, cap, sent, acked, file, cancelled, pending, peer, RingArr(ring)>>,
                                                last',
                                                <<window', cap', sent', acked', file', cancelled', pending', peer', RingArr(ring')>> >>)>>)
InitDumpInv == (Dump /\ last.op = "init") =>
                  PrintT(<<"INIT", ToJson(<<window, cap, sent, acked, file, cancelled, pending, peer, RingArr(ring)>>)>>)
==============================================================================
