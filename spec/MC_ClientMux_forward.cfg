SPECIFICATION Spec
CONSTANTS
  Callers <- C3
  MaxJunk = 0
  AllowFault = FALSE
  AllowTimeout = TRUE
  AllowCancel = FALSE
  HasNotify = FALSE
  ShutFirst = TRUE
  Forwarders <- F3
  ForwardRewinds = FALSE
INVARIANTS Correlated DistinctIds NotifyOnlyToSubscriber ChanAtMostOne NoResidue WaiterHasFuture RefusedForwardHarmless

CHECK_DEADLOCK FALSE
