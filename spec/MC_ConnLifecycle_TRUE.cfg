SPECIFICATION Spec
CONSTANTS
  GuardFirst = TRUE
  Hooks = 2
INVARIANTS DisconnectOnce NeverForFailedHandshake RegistryScoped HelloFirst
PROPERTIES ParkedSeeCancel
CHECK_DEADLOCK FALSE
