---------------------------- MODULE ConnLifecycle ----------------------------
(***************************************************************************)
(* Lifecycle of one accepted WebSocket connection                          *)
(* (src/websocket_server.rs handle_connection_with_config, DisconnectGuard,*)
(* the accept loops, graceful drain; src/peer.rs registry hooks).          *)
(*   handshake -> (rejected | guard armed) -> connect hooks (registry      *)
(*   insert first, then the embedder's, each may panic) -> serving (idle,  *)
(*   inline handler running, off-reader handler parked, outbound queue     *)
(*   non-empty) -> exit by any cause -> the guard drops: disconnect hooks  *)
(*   run, the connection token is cancelled -> closed.                     *)
(* The guard is armed BEFORE the connect hooks (constant GuardFirst; the   *)
(* other order leaks the registry entry when a connect hook panics).       *)
(* A drain-deadline abort drops the connection task at an await point:     *)
(* still the guard's Drop runs.  Property decided here: C15.               *)
(***************************************************************************)
EXTENDS Naturals, Sequences, FiniteSets
CONSTANTS GuardFirst,     \* as built: TRUE
          Hooks           \* number of connect hooks (the first is the registry insert)
Causes == {"clean_close", "socket_loss", "text_frame", "malformed_frame", "inline_panic", "cancel", "drain_abort"}
VARIABLES phase, guard, hook, connects, disconnects, inRegistry, tokenCancelled, offParked, offSawCancel, wire
vars == <<phase, guard, hook, connects, disconnects, inRegistry, tokenCancelled, offParked, offSawCancel, wire>>

Init == /\ phase = "handshaking" /\ guard = FALSE /\ hook = 0 /\ connects = 0 /\ disconnects = 0
        /\ inRegistry = FALSE /\ tokenCancelled = FALSE /\ offParked = FALSE /\ offSawCancel = FALSE /\ wire = <<>>

HandshakeFail == /\ phase = "handshaking" /\ phase' = "rejected"
                 /\ UNCHANGED <<guard, hook, connects, disconnects, inRegistry, tokenCancelled, offParked, offSawCancel, wire>>
HandshakeOk == /\ phase = "handshaking" /\ phase' = "hooks" /\ guard' = GuardFirst
               /\ UNCHANGED <<hook, connects, disconnects, inRegistry, tokenCancelled, offParked, offSawCancel, wire>>
\* a connect hook runs: the first inserts the peer (and its alias), each queues its greeting
RunHook == /\ phase = "hooks" /\ hook < Hooks
           /\ hook' = hook + 1 /\ connects' = IF hook = 0 THEN 1 ELSE connects
           /\ inRegistry' = TRUE /\ wire' = Append(wire, "hello")
           /\ UNCHANGED <<phase, guard, disconnects, tokenCancelled, offParked, offSawCancel>>
HookPanics == /\ phase = "hooks" /\ hook >= 1 /\ hook < Hooks        \* a later hook panics after the insert landed
              /\ phase' = "unwinding"
              /\ UNCHANGED <<guard, hook, connects, disconnects, inRegistry, tokenCancelled, offParked, offSawCancel, wire>>
HooksDone == /\ phase = "hooks" /\ hook = Hooks /\ phase' = "serving" /\ guard' = TRUE
             /\ UNCHANGED <<hook, connects, disconnects, inRegistry, tokenCancelled, offParked, offSawCancel, wire>>
Respond == /\ phase = "serving" /\ Len(wire) < Hooks + 2 /\ wire' = Append(wire, "response")
           /\ UNCHANGED <<phase, guard, hook, connects, disconnects, inRegistry, tokenCancelled, offParked, offSawCancel>>
ParkOff == /\ phase = "serving" /\ ~offParked /\ offParked' = TRUE
           /\ UNCHANGED <<phase, guard, hook, connects, disconnects, inRegistry, tokenCancelled, offSawCancel, wire>>
Exit(c) == /\ phase = "serving" /\ phase' = "unwinding"
           /\ UNCHANGED <<guard, hook, connects, disconnects, inRegistry, tokenCancelled, offParked, offSawCancel, wire>>
\* the guard's Drop: disconnect hooks (registry removal drops the aliases too), then the token
DropGuard == /\ phase = "unwinding"
             /\ IF guard THEN /\ disconnects' = disconnects + 1 /\ inRegistry' = FALSE /\ tokenCancelled' = TRUE
                         ELSE UNCHANGED <<disconnects, inRegistry, tokenCancelled>>
             /\ guard' = FALSE /\ phase' = "closed"
             /\ UNCHANGED <<hook, connects, offParked, offSawCancel, wire>>
OffObserves == /\ offParked /\ tokenCancelled /\ ~offSawCancel /\ offSawCancel' = TRUE
               /\ UNCHANGED <<phase, guard, hook, connects, disconnects, inRegistry, tokenCancelled, offParked, wire>>
Next == HandshakeFail \/ HandshakeOk \/ RunHook \/ HookPanics \/ HooksDone \/ Respond \/ ParkOff \/ (\E c \in Causes : Exit(c)) \/ DropGuard \/ OffObserves
Spec == Init /\ [][Next]_vars /\ WF_vars(Next)

DisconnectOnce == disconnects <= 1 /\ (phase = "closed" => disconnects = connects)
NeverForFailedHandshake == phase = "rejected" => (connects = 0 /\ disconnects = 0)
RegistryScoped == /\ (phase = "serving" => inRegistry)
                  /\ (phase = "closed" => ~inRegistry)
HelloFirst == \A i, j \in 1..Len(wire) : (wire[i] = "response" /\ wire[j] = "hello") => j < i
ParkedSeeCancel == (phase = "closed" /\ offParked) ~> offSawCancel
\* what a finished connection must look like from outside (used by the trace specification)
Outcome(handshakeOk, c, d, presentDuring, presentAfter, aliasAfter) ==
    IF handshakeOk THEN c = 1 /\ d = 1 /\ presentDuring /\ ~presentAfter /\ ~aliasAfter
    ELSE c = 0 /\ d = 0 /\ ~presentAfter /\ ~aliasAfter
==============================================================================
