-------------------------- MODULE MC_ClientMuxGen --------------------------
(* Behaviour generator for C04's spec -> impl replay: ClientMux without faults,  *)
(* timeouts or cancellation, with a history variable holding the action labels.  *)
(* TLC in simulation mode prints one line per behaviour that reaches the end     *)
(* (every caller done, every frame consumed); the harness single-steps the real  *)
(* clients through the same actions with the probes cm_allocated:<id>,           *)
(* cm_registered:<id> (callers) and cm_reader_read (reader), comparing the size  *)
(* of the pending map after every step and every caller's result.                *)
EXTENDS ClientMux, Json, TLC
VARIABLE hist
C3 == {1, 2, 3}
F3 == {3}
GInit == Init /\ hist = <<>>
L(a, x) == hist' = Append(hist, <<a, x, Cardinality(pending'), 0>>)    \* label, argument, size of the pending map afterwards, (id)
LF(a, x, id) == hist' = Append(hist, <<a, x, Cardinality(pending'), id>>)  \* forwarded requests also carry the id their caller chose
JunkId(f) == IF f.id \in answered THEN f.id ELSE 0        \* a duplicate of an answered id, else "an id never issued"
GNext == \/ \E c \in Callers : \/ (Alloc(c) /\ L("Alloc", c))
                               \* sampled forwards always reuse an id one of the client's own calls has (had): the interesting case
                               \/ (AllocF(c) /\ (\E d \in Callers \ {c} : cid[d] # 0 /\ cid'[c] = cid[d]) /\ LF("AllocF", c, cid'[c]))
                               \/ (Register(c) /\ c \notin Forwarders /\ L("Register", c))
                               \/ (Register(c) /\ c \in Forwarders /\ LF(IF pc'[c] = "done" THEN "RegisterFRefused" ELSE "RegisterF", c, cid[c]))
                               \* replay only the writes whose outcome the specification fixes: none while a fault is in flight
                               \/ (Write(c) /\ (Faulted => writerShut) /\ L(IF writerShut THEN "WriteFail" ELSE "Write", c))
                               \/ (Take(c) /\ L("Take", c))
         \/ (SrvRead /\ L("SrvRead", Head(c2s).id))                        \* the request the server reads: FIFO
         \/ \E id \in seen : SrvReply(id) /\ L("SrvReply", id)
         \/ \E f \in JunkFrames : f.kind = "resp" /\ SrvJunk(f) /\ L("SrvJunk", JunkId(f))
         \/ (Recv /\ L("Recv", IF Head(s2c).kind \in {"close", "malformed"} THEN 1 ELSE 0))     \* 1: the frame is the fault
         \/ (Dispatch /\ L("Dispatch", IF cur.kind \in {"close", "malformed"} THEN 1 ELSE 0))
         \/ \E k \in {"close", "malformed"} : SrvFault(k) /\ s2c'[Len(s2c')].tag = 0 /\ L(IF k = "close" THEN "SrvClose" ELSE "SrvMalformed", 0)
         \/ (Fail1 /\ L("Fail1", 0))
         \/ (Fail2 /\ L("Fail2", 0))
GSpec == GInit /\ [][GNext]_<<vars, hist>>
Finished == (\A c \in Callers : pc[c] = "done") /\ (reader = "dead" \/ (reader = "alive" /\ s2c = <<>> /\ cur = NoFrame))
Emit == Finished => PrintT(<<"BEH", ToJson([steps |-> hist,
                                              results |-> [c \in Callers |-> <<result[c].cls, result[c].id, result[c].tag>>]])>>)
\* stop extending a behaviour once it is finished (simulation mode would otherwise keep adding junk)
StopWhenFinished == ~Finished
==============================================================================
