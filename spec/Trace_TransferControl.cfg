SPECIFICATION Spec
INVARIANTS AckedLeSent Contiguous Bounded
PROPERTIES StepProps
POSTCONDITION Accepted
CHECK_DEADLOCK FALSE
