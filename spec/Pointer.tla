------------------------------ MODULE Pointer ------------------------------
(***************************************************************************)
(* RFC 6901 JSON Pointer over sequences of one-character strings (TLC      *)
(* strings are atoms, so every pointer the specifications look inside is   *)
(* a sequence of characters).  Used by Registry (C14) and Router (C07).    *)
(***************************************************************************)
EXTENDS Naturals, Sequences

RECURSIVE SplitAt(_, _, _)
\* split s (from position i) on "/" ; cur accumulates the current token
SplitAt(s, i, cur) == IF i > Len(s) THEN <<cur>>
                      ELSE IF s[i] = "/" THEN <<cur>> \o SplitAt(s, i + 1, <<>>)
                      ELSE SplitAt(s, i + 1, Append(cur, s[i]))

\* raw (still escaped) reference tokens of a pointer that starts with "/"; "" has none
RawTokens(p) == IF Len(p) = 0 THEN <<>> ELSE SplitAt(p, 2, <<>>)

RECURSIVE Unesc(_, _)
\* <<ok, unescaped token>> : "~1" -> "/", "~0" -> "~", any other "~" is malformed
Unesc(t, i) == IF i > Len(t) THEN <<TRUE, <<>>>>
               ELSE IF t[i] # "~" THEN LET r == Unesc(t, i + 1) IN <<r[1], <<t[i]>> \o r[2]>>
               ELSE IF i = Len(t) THEN <<FALSE, <<>>>>
               ELSE IF t[i + 1] = "0" THEN LET r == Unesc(t, i + 2) IN <<r[1], <<"~">> \o r[2]>>
               ELSE IF t[i + 1] = "1" THEN LET r == Unesc(t, i + 2) IN <<r[1], <<"/">> \o r[2]>>
               ELSE <<FALSE, <<>>>>

\* a pointer is well formed iff it is empty or starts with "/" and every "~" is followed by 0 or 1
\* (IF, not \/ : inside an action TLC evaluates both disjuncts, so a guard must not rely on short circuit)
WellFormed(p) == IF Len(p) = 0 THEN TRUE
                 ELSE p[1] = "/" /\ \A k \in 1..Len(RawTokens(p)) : Unesc(RawTokens(p)[k], 1)[1]
Tokens(p) == [k \in 1..Len(RawTokens(p)) |-> Unesc(RawTokens(p)[k], 1)[2]]

RECURSIVE Esc(_)
Esc(t) == IF t = <<>> THEN <<>>
          ELSE (IF Head(t) = "~" THEN <<"~", "0">> ELSE IF Head(t) = "/" THEN <<"~", "1">> ELSE <<Head(t)>>) \o Esc(Tail(t))
RECURSIVE Canon(_)
\* canonical pointer of a token sequence: escape . unescape = id on well-formed pointers
Canon(ts) == IF ts = <<>> THEN <<>> ELSE <<"/">> \o Esc(Head(ts)) \o Canon(Tail(ts))

(* As built (src/registry.rs parse_pointer, server.rs pointer_for): the one-character pointer "/" *)
(* denotes the ROOT, not the single empty token RFC 6901 assigns to it.  Named deviation.         *)
RegistryTokens(p) == IF p = <<"/">> THEN <<>> ELSE Tokens(p)
\* registration paths may omit the leading "/"
Normalized(p) == IF Len(p) > 0 /\ p[1] # "/" THEN <<"/">> \o p ELSE p
==============================================================================
