--------------------------- MODULE Trace_ServerConn ---------------------------
(* Trace specification for C03: one pipelined request sequence per run, the same   *)
(* sequence on four dispatch paths (tcp, async, ws_inline, ws_offreader).  At the  *)
(* end of each run the specification judges:                                       *)
(*   - every non-notify request has exactly one response with its id, every        *)
(*     notify none (response_count / missing_response);                            *)
(*   - the error code is the one the request class prescribes (error_code);        *)
(*   - the response echoes the request's query unless the handler set its own      *)
(*     (echo_query);                                                               *)
(*   - a dispatched request's handler ran exactly once, a rejected request's never *)
(*     (invocations: in request order on the inline paths, as a bag off-reader);   *)
(*   - inline responses leave in arrival order (fifo);                             *)
(*   - the same request yields the same response fields on every transport         *)
(*     (cross_transport, against the tcp run of the same sequence).                *)
EXTENDS Integers, Sequences, FiniteSets, TLC, Json, IOUtils
Rec == ndJsonDeserialize(IOEnv.TRACE)
VARIABLES transport, reqs, resps, invs, ref, l
tvars == <<transport, reqs, resps, invs, ref, l>>
E == Rec[l]
ASSUME TLCSet(2, <<>>)

\* the error code each request class must be answered with (ErrorCode values of src/constants.rs)
Expect(c) ==
    CASE c \in {"json_ok", "json_beve_ok", "json_utf8_ok", "typed_ok", "ctx_ok", "slice_ok", "sliceref_ok", "registry_read", "struct_read", "registry2_read", "struct2_read", "custom"} -> 0
      [] c \in {"bad_version", "bad_version0", "bad_version255", "bad_version3"} -> 1     \* VersionMismatch: every version but 1
      [] c \in {"raw_query_format", "unknown_query_format", "non_utf8_query"} -> 3      \* InvalidQuery
      [] c \in {"json_rawfmt", "json_unknownfmt", "slice_json", "struct_rawfmt"} -> 4   \* InvalidBody
      [] c \in {"json_undecodable", "json_emptybody", "typed_shape", "slice_wrongtype", "sliceref_wrongtype",
                 "typed_trailing", "typed_trailing_utf8", "json_trailing", "json_utf8_badbyte", "ctx_utf8_badbyte"} -> 5      \* ParseError (a complete JSON value followed by more bytes is not a JSON body)
      [] c \in {"unknown_path", "registry_missing", "mount_sibling_missing"} -> 6                                \* MethodNotFound
      [] c = "handler_error" -> 4096                                                    \* the handler's own code
      [] c = "custom_err" -> 4100                                                       \* an error frame the custom handler built itself
\* the handler tag that must run exactly once ("" = no user handler runs: rejected before dispatch, or its body is never decoded)
Invokes(c) ==
    CASE c \in {"json_ok", "json_beve_ok", "json_utf8_ok"} -> "json"
      [] c = "handler_error" -> "jsonerr"
      [] c = "typed_ok" -> "typed"
      [] c = "ctx_ok" -> "ctx"
      [] c = "slice_ok" -> "slice"
      [] c = "sliceref_ok" -> "sliceref"
      [] c = "custom" -> "custom"
      [] c = "custom_err" -> "customerr"
      [] OTHER -> ""
OwnQuery == "2f6f776e2d7175657279"          \* "/own-query": the custom handler sets its own response query

Init == transport = "none" /\ reqs = <<>> /\ resps = <<>> /\ invs = <<>> /\ ref = <<>> /\ l = 1

RespsOf(id) == SelectSeq(resps, LAMBDA r : r.id = id)
Summary(r) == <<r.ec, r.qfmt, r.bfmt, r.body>>
Ids(s) == [i \in 1..Len(s) |-> s[i].id]
Inline(rq) == ~(transport = "ws_offreader" /\ rq.offreader)
Count(s, x) == Cardinality({i \in 1..Len(s) : s[i] = x})
Tags == {"json", "jsonerr", "typed", "ctx", "slice", "sliceref", "custom", "customerr"}

Verdict(idle) ==
    LET wantInv == SelectSeq([i \in 1..Len(reqs) |-> Invokes(reqs[i].class)], LAMBDA t : t # "")
        nonNotify == SelectSeq(reqs, LAMBDA rq : ~rq.notify)
        inlineReqIds == Ids(SelectSeq(nonNotify, Inline))
        inlineRespIds == SelectSeq(Ids(resps), LAMBDA id : \E i \in 1..Len(reqs) : reqs[i].id = id /\ Inline(reqs[i]))
    IN
    IF idle THEN "missing_response"
    ELSE IF \E i \in 1..Len(reqs) : Len(RespsOf(reqs[i].id)) # (IF reqs[i].notify THEN 0 ELSE 1) THEN "response_count"
    ELSE IF \E k \in 1..Len(resps) : ~\E i \in 1..Len(reqs) : reqs[i].id = resps[k].id THEN "response_for_unknown_id"
    ELSE IF \E i \in 1..Len(reqs) : ~reqs[i].notify /\ RespsOf(reqs[i].id)[1].ec # Expect(reqs[i].class) THEN "error_code"
    ELSE IF \E i \in 1..Len(reqs) : ~reqs[i].notify /\
              RespsOf(reqs[i].id)[1].query # (IF reqs[i].class \in {"custom", "custom_err"} THEN OwnQuery ELSE reqs[i].query) THEN "echo_query"
    ELSE IF \E k \in 1..Len(resps) : resps[k].notify # 0 THEN "response_marked_notify"
    ELSE IF transport # "ws_offreader" /\ invs # wantInv THEN "invocations"
    ELSE IF transport = "ws_offreader" /\ \E t \in Tags : Count(invs, t) # Count(wantInv, t) THEN "invocations"
    ELSE IF inlineRespIds # inlineReqIds THEN "fifo"
    ELSE IF transport # "tcp" /\ Len(ref) = Len(reqs) /\
            \E i \in 1..Len(reqs) : ~reqs[i].notify /\ ref[i] # <<>> /\ ref[i] # Summary(RespsOf(reqs[i].id)[1]) THEN "cross_transport"
    ELSE ""

Step ==
  /\ l <= Len(Rec) /\ l' = l + 1
  /\ CASE E.ev = "reset" -> /\ transport' = E.transport /\ reqs' = <<>> /\ resps' = <<>> /\ invs' = <<>>
                            /\ ref' = IF E.transport = "tcp" THEN <<>> ELSE ref
       [] E.ev = "req" -> reqs' = Append(reqs, E) /\ UNCHANGED <<transport, resps, invs, ref>>
       [] E.ev = "resp" -> resps' = Append(resps, E) /\ UNCHANGED <<transport, reqs, invs, ref>>
       [] E.ev = "invoked" -> invs' = (IF E.tag = "mw" THEN invs ELSE Append(invs, E.tag)) /\ UNCHANGED <<transport, reqs, resps, ref>>
       \* the peer met a header that does not frame itself and stopped reading: the run ends idle (missing responses)
       [] E.ev = "garbled" -> UNCHANGED <<transport, reqs, resps, invs, ref>>
       [] E.ev = "end" ->
            LET v == Verdict(E.idle) IN
            /\ (v # "" => TLCSet(2, Append(TLCGet(2), <<l, v>>)))
            \* the tcp run is the reference the other transports are compared with
            /\ ref' = IF transport = "tcp" /\ v = ""
                      THEN [i \in 1..Len(reqs) |-> IF reqs[i].notify THEN <<>> ELSE Summary(RespsOf(reqs[i].id)[1])]
                      ELSE ref
            /\ UNCHANGED <<transport, reqs, resps, invs>>
Spec == Init /\ [][Step]_tvars
Accepted == /\ PrintT(<<"MISMATCHES", ToJson(TLCGet(2))>>)
            /\ IF TLCGet("stats").diameter = Len(Rec) + 1 THEN TRUE
               ELSE PrintT(<<"UNMATCHED", TLCGet("stats").diameter>>) /\ FALSE
==============================================================================
