------------------------ MODULE MC_FleetMembersEdges ------------------------
(* Edge cover for the spec -> impl replay of FleetMembers (C19): breadth-first    *)
(* exploration with the history hidden from the fingerprint (VIEW), so that every  *)
(* distinct state keeps ONE shortest path; every transition out of every distinct  *)
(* state prints that path extended by the transition.  The harness replays each    *)
(* printed behaviour, so every (state, operation, arguments) of the small model is *)
(* executed on the real fleets at least once, from a state reached the short way.  *)
EXTENDS MC_FleetMembersGen
View == <<members, [n \in members |-> tags[n]], conn, stale, up>>
ENext == GNext /\ PrintT(<<"BEH", ToJson([max_attempts |-> MaxAttempts, steps |-> hist'])>>)
==============================================================================
