------------------------------ MODULE MC_Fleet ------------------------------
EXTENDS Fleet
Intended == {"refused", "eof", "timeout", "brokenpipe"}
AsPinned == {"refused", "eof", "timeout"}          \* is_retryable_error at the pinned commit: no BrokenPipe
RetriesApp == {"refused", "eof", "timeout", "brokenpipe", "app"}
==============================================================================
