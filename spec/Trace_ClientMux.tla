--------------------------- MODULE Trace_ClientMux ---------------------------
(* Trace specification for C04 / C06: caller-granularity events recorded by an    *)
(* adversarial scripted server and the callers are validated against ClientMux.   *)
(* The reader's steps (Recv, Dispatch, ShutWriter, Drain) are SILENT: TLC places  *)
(* them between the events, so a trace is accepted iff some schedule of the       *)
(* reader explains what every caller got.                                         *)
(*   start(c)   the caller begins: it allocates an id, registers, writes (the id   *)
(*              is not known yet: a placeholder stands in the pending map)         *)
(*   sent(c,id) the server read c's request: ids must be distinct                  *)
(*   srv(f)     the server writes frame f; a close with tag 1 is a reset (requests *)
(*              unread / still arriving, or SO_LINGER 0): frames the client has    *)
(*              not read yet may be discarded (silent ClientMux!NetReset)          *)
(*   ret(c,..)  ok: the response delivered to c must be c's own (Correlated);      *)
(*              err: only if the connection failed / the writer is shut;           *)
(*              timeout / cancelled: the caller gave up (its entry is removed);    *)
(*              "hung" matches nothing: a call that does not return is rejected    *)
(*   fsent(c,id) the server read a forwarded request: the id is the caller's own    *)
(*   dupreg     a forward_message reused the id of a call in flight: refused       *)
(*   note(f)    a notify frame reached the subscriber (never a caller)             *)
(*   after      all done: the pending map must be empty; after a failure the       *)
(*              subscriber stream must have ended (ws)                             *)
EXTENDS Integers, Sequences, FiniteSets, TLC, Json, IOUtils

Rec == ndJsonDeserialize(IOEnv.TRACE)
Callers == 1..70
MaxJunk == 0  AllowFault == TRUE  AllowTimeout == TRUE  AllowCancel == TRUE  HasNotify == TRUE  ShutFirst == TRUE
Forwarders == {}  ForwardRewinds == FALSE     \* forwarded requests appear as explicit events (fsent), see below

VARIABLES nextId, pending, pc, cid, chan, result, c2s, s2c, seen, answered, junk, cur, writerShut, reader, notes, subEnded,
          used, l
M == INSTANCE ClientMux
tvars == <<nextId, pending, pc, cid, chan, result, c2s, s2c, seen, answered, junk, cur, writerShut, reader, notes, subEnded, used, l>>
E == Rec[l]
ASSUME TLCSet(1, 0)
Placeholder(c) == 1000000 + c

Init == M!Init /\ used = {} /\ l = 1

Fresh == /\ nextId' = 1 /\ pending' = {} /\ pc' = [c \in Callers |-> "idle"] /\ cid' = [c \in Callers |-> 0]
         /\ chan' = [c \in Callers |-> <<>>] /\ result' = [c \in Callers |-> [cls |-> "none", id |-> 0, tag |-> 0]]
         /\ c2s' = <<>> /\ s2c' = <<>> /\ seen' = {} /\ answered' = {} /\ junk' = 0 /\ cur' = M!NoFrame
         /\ writerShut' = FALSE /\ reader' = "alive" /\ notes' = <<>> /\ subEnded' = FALSE /\ used' = {}
TReset == l <= Len(Rec) /\ E.ev = "reset" /\ Fresh /\ l' = l + 1

Keep == UNCHANGED <<nextId, c2s, seen, answered, junk, result>>
TStart == /\ l <= Len(Rec) /\ E.ev = "start" /\ pc[E.c] = "idle"
          /\ pc' = [pc EXCEPT ![E.c] = "registered"] /\ cid' = [cid EXCEPT ![E.c] = Placeholder(E.c)]
          /\ pending' = pending \cup {Placeholder(E.c)}
          /\ Keep /\ UNCHANGED <<chan, s2c, cur, writerShut, reader, notes, subEnded, used>> /\ l' = l + 1
\* the server read the request: the id the caller allocated becomes known; request ids are distinct
TSent == /\ l <= Len(Rec) /\ E.ev = "sent" /\ pc[E.c] \in {"registered", "done"}
         /\ E.id \notin used /\ used' = used \cup {E.id}
         /\ IF pc[E.c] = "registered"
            THEN /\ pc' = [pc EXCEPT ![E.c] = "waiting"] /\ cid' = [cid EXCEPT ![E.c] = E.id]
                 /\ pending' = (pending \ {Placeholder(E.c)}) \cup (IF Placeholder(E.c) \in pending THEN {E.id} ELSE {})
            ELSE UNCHANGED <<pc, cid, pending>>            \* the caller already gave up (cancelled / timed out before the server looked)
         /\ Keep /\ UNCHANGED <<chan, s2c, cur, writerShut, reader, notes, subEnded>> /\ l' = l + 1
\* the server read a FORWARDED request (forward_message): the id is the forwarding caller's own choice - it may repeat
\* an id a finished call used, and it is not drawn from the client's counter (`used` is neither consulted nor extended)
TFSent == /\ l <= Len(Rec) /\ E.ev = "fsent" /\ pc[E.c] \in {"registered", "done"}
          /\ IF pc[E.c] = "registered"
             THEN /\ pc' = [pc EXCEPT ![E.c] = "waiting"] /\ cid' = [cid EXCEPT ![E.c] = E.id]
                  /\ pending' = (pending \ {Placeholder(E.c)}) \cup (IF Placeholder(E.c) \in pending THEN {E.id} ELSE {})
             ELSE UNCHANGED <<pc, cid, pending>>
          /\ Keep /\ UNCHANGED <<chan, s2c, cur, writerShut, reader, notes, subEnded, used>> /\ l' = l + 1
\* the server read one of the client's own notifies: it drew its id from the same counter as the calls
TNSent == /\ l <= Len(Rec) /\ E.ev = "nsent" /\ E.id \notin used /\ used' = used \cup {E.id}
          /\ Keep /\ UNCHANGED <<pending, pc, cid, chan, s2c, cur, writerShut, reader, notes, subEnded>> /\ l' = l + 1
\* a request write was interrupted (write timeout): the client itself fails the connection - the writer is shut and its
\* reader will see the connection end
TWFail == /\ l <= Len(Rec) /\ E.ev = "wfail"
          /\ writerShut' = TRUE /\ s2c' = Append(s2c, M!Frame("close", 0, 0))
          /\ Keep /\ UNCHANGED <<pending, pc, cid, chan, cur, reader, notes, subEnded, used>> /\ l' = l + 1
TSrv == /\ l <= Len(Rec) /\ E.ev = "srv"
        /\ s2c' = Append(s2c, M!Frame(E.kind, E.id, E.tag))
        /\ Keep /\ UNCHANGED <<pending, pc, cid, chan, cur, writerShut, reader, notes, subEnded, used>> /\ l' = l + 1
Finish(c) == pc' = [pc EXCEPT ![c] = "done"]
TRet == /\ l <= Len(Rec) /\ E.ev = "ret" /\ pc[E.c] \in {"registered", "waiting"}
        /\ CASE E.cls = "ok" ->
                  \* what was delivered to c is its own response: id and content tag
                  /\ chan[E.c] # <<>> /\ Head(chan[E.c]).cls = "ok"
                  /\ Head(chan[E.c]).id = E.rid /\ Head(chan[E.c]).tag = E.rtag
                  /\ E.rid = cid[E.c] /\ E.rtag = E.c
                  /\ chan' = [chan EXCEPT ![E.c] = Tail(@)] /\ UNCHANGED pending
             [] E.cls = "err" ->
                  \* drained by the failing reader, or its own write failed on the shut writer
                  /\ \/ (chan[E.c] # <<>> /\ Head(chan[E.c]).cls = "err" /\ chan' = [chan EXCEPT ![E.c] = Tail(@)] /\ UNCHANGED pending)
                     \/ ((writerShut \/ M!Faulted) /\ pc[E.c] = "registered" /\ pending' = pending \ {cid[E.c]} /\ UNCHANGED chan)
             [] E.cls \in {"timeout", "cancelled"} ->
                  /\ pending' = pending \ {cid[E.c]} /\ chan' = [chan EXCEPT ![E.c] = <<>>]
             [] OTHER -> FALSE                                  \* "hung"
        /\ Finish(E.c)
        /\ Keep /\ UNCHANGED <<cid, s2c, cur, writerShut, reader, notes, subEnded, used>> /\ l' = l + 1
\* a caller-supplied id (forward_message) equal to an id in flight: the registration is refused and nothing changes
\* (ClientMux!DistinctIds: ids issued on one connection are distinct)
TDupReg == /\ l <= Len(Rec) /\ E.ev = "dupreg" /\ E.id \in pending /\ E.cls = "err"
           /\ UNCHANGED <<nextId, pending, pc, cid, chan, result, c2s, s2c, seen, answered, junk, cur, writerShut, reader, notes, subEnded, used>> /\ l' = l + 1
TNote == /\ l <= Len(Rec) /\ E.ev = "note"
         /\ notes # <<>> /\ Head(notes).id = E.id /\ Head(notes).tag = E.tag /\ notes' = Tail(notes)
         /\ Keep /\ UNCHANGED <<pending, pc, cid, chan, s2c, cur, writerShut, reader, subEnded, used>> /\ l' = l + 1
TSubEnd == /\ l <= Len(Rec) /\ E.ev \in {"sub_end", "serfail"}     \* serfail: a call failed locally before it was registered
           /\ UNCHANGED <<nextId, pending, pc, cid, chan, result, c2s, s2c, seen, answered, junk, cur, writerShut, reader, notes, subEnded, used>> /\ l' = l + 1
\* quiescence: nothing may be left behind; every frame the server wrote has been consumed by then
TAfter == /\ l <= Len(Rec) /\ E.ev = "after"
          /\ \A c \in Callers : pc[c] \in {"idle", "done"}
          /\ E.pending = Cardinality({x \in pending : x < 1000000})
          /\ E.pending = 0
          /\ ((E.ws /\ reader = "dead") => E.sub_ended)
          /\ UNCHANGED <<nextId, pending, pc, cid, chan, result, c2s, s2c, seen, answered, junk, cur, writerShut, reader, notes, subEnded, used>> /\ l' = l + 1

\* silent reader steps (ClientMux's own actions)
Silent == (M!Recv \/ M!Dispatch \/ M!Fail1 \/ M!Fail2 \/ M!NetReset) /\ UNCHANGED <<used, l>>
Next == TReset \/ TStart \/ TSent \/ TFSent \/ TNSent \/ TWFail \/ TSrv \/ TRet \/ TDupReg \/ TNote \/ TSubEnd \/ TAfter \/ Silent
Spec == Init /\ [][Next]_tvars

NoResidue == M!NoResidue
ChanAtMostOne == M!ChanAtMostOne
Track == TLCSet(1, IF TLCGet(1) < l THEN l ELSE TLCGet(1))
Accepted == IF TLCGet(1) = Len(Rec) + 1 THEN TRUE
            ELSE PrintT(<<"UNMATCHED", TLCGet(1)>>) /\ FALSE
==============================================================================
