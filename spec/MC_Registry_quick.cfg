SPECIFICATION Spec
CONSTANTS
  Dump = FALSE
  MaxNodes = 10
  Small = FALSE
VIEW View
CONSTRAINT StateConstraint
INVARIANTS TreeShaped OneTagPerPath HasRoot
PROPERTIES StepProps
CHECK_DEADLOCK FALSE
