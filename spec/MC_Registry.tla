----------------------------- MODULE MC_Registry -----------------------------
(* Small-scope exhaustive configuration of Registry.tla: 5 pointers, 3 values.  *)
EXTENDS Registry, TLC, Json, SequencesExt
CONSTANTS Dump, MaxNodes, Small   \* Small = TRUE: the reduced scope used for the graph walk
VARIABLES last
vars == <<doc, funcs, last>>
View == <<doc, funcs>>

\* pointers /a, /a/b, /c~1d (one token "c/d"), /a/0, /x/y and the root
Ptrs == {<<>>, <<"a">>, <<"a", "b">>, <<"c/d">>, <<"a", "0">>, <<"x", "y">>}
N(p, t) == [p |-> p, t |-> t]
VAtom == {N(<<>>, "n:1")}
VObj == {N(<<>>, "obj"), N(<<"b">>, "n:2")}
VArr == {N(<<>>, "arr"), N(<<"0">>, "n:7"), N(<<"1">>, "n:8")}
Vals == {VAtom, VObj, VArr}
Objs == {VObj, {N(<<>>, "obj"), N(<<"a">>, "s:m")}}

Op(n, p, v, f, bad) == [name |-> n, p |-> p, v |-> v, f |-> f, bad |-> bad]
WPtrs == IF Small THEN {<<>>, <<"a">>, <<"a", "b">>, <<"a", "0">>, <<"c/d">>} ELSE Ptrs
RegPtrs == IF Small THEN {<<"x", "y">>} ELSE Ptrs \ {<<>>}
FnPtrs == IF Small THEN {<<"a", "b">>, <<>>} ELSE {<<"a">>, <<"a", "b">>, <<"x", "y">>, <<>>}
MergePtrs == IF Small THEN {<<"a">>} ELSE {<<>>, <<"a">>, <<"x">>}
Ops == {Op("read", p, {}, "", FALSE) : p \in Ptrs}
       \cup {Op("read", <<>>, {}, "", TRUE)}                           \* a malformed pointer
       \cup {Op("write", p, v, "", FALSE) : p \in WPtrs, v \in Vals}
       \cup {Op("write", <<>>, VAtom, "", TRUE)}
       \cup {Op("register_value", p, v, "", FALSE) : p \in RegPtrs, v \in (IF Small THEN {VArr} ELSE Vals)}
       \cup {Op("register_function", p, {}, "fn", FALSE) : p \in FnPtrs}
       \cup {Op("merge_at", p, v, "", FALSE) : p \in MergePtrs, v \in (IF Small THEN {VObj} ELSE Objs)}

Init == RInit /\ last = [op |-> Op("init", <<>>, {}, "", FALSE), ret |-> Ok({}, <<>>)]
Do(op) == Effect(op) /\ last' = [op |-> op, ret |-> Ret(op)]
DoRead == \E op \in {o \in Ops : o.name = "read"} : Do(op)
DoWrite == \E op \in {o \in Ops : o.name = "write"} : Do(op)
DoRegisterValue == \E op \in {o \in Ops : o.name = "register_value"} : Do(op)
DoRegisterFunction == \E op \in {o \in Ops : o.name = "register_function"} : Do(op)
DoMerge == \E op \in {o \in Ops : o.name = "merge_at"} : Do(op)
Next == DoRead \/ DoWrite \/ DoRegisterValue \/ DoRegisterFunction \/ DoMerge
Spec == Init /\ [][Next]_vars
StateConstraint == Cardinality(doc) <= MaxNodes

StepProps == [][ /\ ReadYourWriteStep(last'.op) /\ FrameStep(last'.op, Ptrs) /\ RootMergeStep(last'.op)
                 /\ ReadPureStep(last'.op) /\ CallStep(last'.op) ]_vars

\* ---- dump for the graph walk: nodes as sorted-independent arrays; the harness compares as sets
NodesArr(d) == SetToSeq(d)
SetToSeqOf(S) == SetToSeq(S)
StateJson(d, fs) == [doc |-> SetToSeq(d), funcs |-> SetToSeq(fs)]
RetJson(r) == [cls |-> r.cls, v |-> SetToSeq(r.v), calls |-> [i \in 1..Len(r.calls) |-> [f |-> r.calls[i].f, arg |-> SetToSeq(r.calls[i].arg)]]]
OpJson(o) == [name |-> o.name, p |-> o.p, v |-> SetToSeq(o.v), f |-> o.f, bad |-> o.bad]
ReadAll(d) == [i \in 1..Len(SetToSeq(Ptrs)) |->
                 LET p == SetToSeq(Ptrs)[i] IN [p |-> p, ok |-> Resolves(d, p), v |-> IF Resolves(d, p) THEN SetToSeq(Sub(d, p)) ELSE <<>>]]
EdgeDump == Dump => PrintT(<<"EDGE", ToJson(<<StateJson(doc, funcs), [op |-> OpJson(last'.op), ret |-> RetJson(last'.ret)],
                                               StateJson(doc', funcs'), ReadAll(doc')>>)>>)
InitDumpInv == (Dump /\ last.op.name = "init") => PrintT(<<"INIT", ToJson(<<StateJson(doc, funcs), ReadAll(doc)>>)>>)
==============================================================================
