---------------------------- MODULE Trace_OffReader ----------------------------
(* Trace specification for C16: gate-controlled off-reader handlers on one        *)
(* WebSocket connection (the off-reader part of ServerConn.tla, data driven).     *)
(* Events: reset(cap) ; arrive(n, id, kind, notify, exit) ; invoked(n, gauge) ;   *)
(* resp(id, ec) ; silence ; release(n) ; probe(after, accepted) ; not_started(n) ;*)
(* on_error(kind) ; other_conn(ec) ; end.                                         *)
(* Judged:                                                                        *)
(*   cap        never more handlers running than the cap (invoked needs a free    *)
(*              permit among the handlers the harness still holds parked)         *)
(*   saturation ResourceExhausted (8) only for an off-reader request, never for   *)
(*              one whose handler ran, and only when the cap can be taken; it     *)
(*              must ARRIVE (no silence) while the others are parked; a notify    *)
(*              at saturation is dropped: never invoked, never answered           *)
(*   reader     an inline request is answered while handlers are parked           *)
(*   exits      return -> 0, error -> the handler's code, panic -> InternalError  *)
(*              (9) with the request's id; each released handler is answered      *)
(*              exactly once                                                      *)
(*   slots      after every exit a new off-reader request is accepted again       *)
EXTENDS Integers, Sequences, FiniteSets, TLC, Json, IOUtils
Rec == ndJsonDeserialize(IOEnv.TRACE)
VARIABLES cap, reqs, running, released, lingering, answered, startedSet, l
tvars == <<cap, reqs, running, released, lingering, answered, startedSet, l>>
E == Rec[l]
ASSUME TLCSet(2, <<>>)
Flag(kind) == TLCSet(2, Append(TLCGet(2), <<l, kind>>))

Init == cap = 0 /\ reqs = <<>> /\ running = {} /\ released = {} /\ lingering = {} /\ answered = {} /\ startedSet = {} /\ l = 1
ReqOfId(id) == SelectSeq(reqs, LAMBDA r : r.id = id)
ReqOfN(n) == SelectSeq(reqs, LAMBDA r : r.n = n)
ExitCode(x) == CASE x = "ret" -> 0 [] x = "err" -> 4096 [] x = "panic" -> 9

Keep == UNCHANGED <<cap, reqs, running, released, lingering, answered, startedSet>>
Step ==
  /\ l <= Len(Rec) /\ l' = l + 1
  /\ CASE E.ev = "reset" ->
            /\ cap' = E.cap /\ reqs' = <<>> /\ running' = {} /\ released' = {} /\ lingering' = {} /\ answered' = {} /\ startedSet' = {}
       [] E.ev = "arrive" -> reqs' = Append(reqs, E) /\ UNCHANGED <<cap, running, released, lingering, answered, startedSet>>
       [] E.ev = "invoked" ->
            LET rq == ReqOfN(E.n) IN
            /\ IF Len(rq) = 0 THEN Flag("invoked_unknown")
               ELSE IF E.n \in startedSet THEN Flag("invoked_twice")
               ELSE IF cap > 0 /\ Cardinality(running) >= cap THEN Flag("cap_exceeded")
               ELSE IF cap > 0 /\ E.gauge > cap THEN Flag("cap_exceeded")
               ELSE TRUE
            \* a handler whose gate is already open (probes) returns at once: it is lingering, not parked
            /\ running' = running \cup {E.n} /\ startedSet' = startedSet \cup {E.n}
            /\ UNCHANGED <<cap, reqs, released, lingering, answered>>
       [] E.ev = "release" ->
            /\ running' = running \ {E.n} /\ released' = released \cup {E.n} /\ lingering' = lingering \cup {E.n}
            /\ UNCHANGED <<cap, reqs, answered, startedSet>>
       [] E.ev = "resp" ->
            LET rq == ReqOfId(E.id) IN
            /\ IF Len(rq) = 0 THEN Flag("response_for_unknown_id")
               ELSE IF E.id \in answered THEN Flag("second_response")
               ELSE IF rq[1].notify THEN Flag("notify_answered")
               ELSE IF rq[1].kind = "inline" THEN (IF E.ec # 0 THEN Flag("inline_failed") ELSE TRUE)
               ELSE IF E.ec = 8
                    THEN (IF rq[1].n \in startedSet THEN Flag("saturation_after_running")
                          ELSE IF cap = 0 \/ Cardinality(running \cup lingering) < cap THEN Flag("spurious_saturation")
                          ELSE TRUE)
               ELSE IF rq[1].n \notin startedSet THEN Flag("answered_without_running")
               ELSE IF E.ec # ExitCode(rq[1].exit) THEN Flag("wrong_exit_code")
               ELSE TRUE
            /\ answered' = answered \cup {E.id}
            \* the probe handlers never park: once answered they only linger
            /\ running' = running \ {n \in running : Len(rq) > 0 /\ n = rq[1].n /\ E.ec # 8}
            /\ lingering' = lingering \cup {n \in running : Len(rq) > 0 /\ n = rq[1].n /\ E.ec # 8}
            /\ UNCHANGED <<cap, reqs, released, startedSet>>
       [] E.ev = "silence" -> Flag("missing_response") /\ Keep
       [] E.ev = "not_started" -> Flag("handler_not_started") /\ Keep
       [] E.ev = "probe" ->
            /\ (IF ~E.accepted THEN Flag("slot_never_freed") ELSE TRUE)
            /\ lingering' = lingering \ {E.after} /\ UNCHANGED <<cap, reqs, running, released, answered, startedSet>>
       [] E.ev = "on_error" -> Keep
       \* an off-reader request on ANOTHER connection of the same server while this one is saturated: the cap is per connection
       [] E.ev = "other_conn" -> (IF E.ec # 0 THEN Flag("cap_shared_between_connections") ELSE TRUE) /\ Keep
       [] E.ev = "end" ->
            /\ (IF \E i \in 1..Len(reqs) : ~reqs[i].notify /\ reqs[i].id \notin answered THEN Flag("unanswered") ELSE TRUE)
            /\ (IF \E i \in 1..Len(reqs) : reqs[i].notify /\ reqs[i].kind = "off" /\ cap > 0 /\ reqs[i].n \in startedSet THEN Flag("saturated_notify_ran") ELSE TRUE)
            /\ (IF E.gauge_now # 0 THEN Flag("handlers_still_running") ELSE TRUE)
            /\ Keep
Spec == Init /\ [][Step]_tvars
Accepted == /\ PrintT(<<"MISMATCHES", ToJson(TLCGet(2))>>)
            /\ IF TLCGet("stats").diameter = Len(Rec) + 1 THEN TRUE
               ELSE PrintT(<<"UNMATCHED", TLCGet("stats").diameter>>) /\ FALSE
==============================================================================
