------------------------------ MODULE Trace_Guard ------------------------------
(* Trace specification for C17: the outbound size guard (ServerConn!Guard, the    *)
(* client-side check of WebSocketClient).  One line per (path, limit, size):      *)
(*   over == limit configured /\ size > limit                                     *)
(*   response paths (inline, off-reader, proxy-forwarded):                        *)
(*      ~over -> delivered unchanged: one message of exactly `size` bytes, ec 0   *)
(*       over -> an InternalError (9) response with the SAME id, itself <= limit, *)
(*               and (where the server has error hooks) the refusal is reported   *)
(*   notify paths (handler-pushed, registry broadcast):                           *)
(*      ~over -> a notify of exactly `size` bytes is delivered                    *)
(*       over -> nothing of that size is delivered, nothing above the limit, and  *)
(*               the drop is reported                                             *)
(*   client paths (request, notify): ~over -> sent and seen by the server;        *)
(*       over -> fails locally with MessageTooLarge and the server sees nothing   *)
(*   bounded (very long method paths): whatever is answered - the error echoing    *)
(*       the path or its replacement - is one message, with the id, <= limit       *)
(*   burst: a small pushed notify followed by an oversized response, or three     *)
(*       pipelined responses (small, oversized, small): all queued together -     *)
(*       nothing above the limit, no message lost, the refusal reported           *)
(*   in every case the connection is usable afterwards.                           *)
EXTENDS Integers, Sequences, FiniteSets, TLC, Json, IOUtils
Rec == ndJsonDeserialize(IOEnv.TRACE)
VARIABLE l
E == Rec[l]
ASSUME TLCSet(2, <<>>)
Over(e) == e.limit > 0 /\ e.size > e.limit
AllLeq(s, m) == \A i \in 1..Len(s) : s[i] <= m
Has(s, x) == \E i \in 1..Len(s) : s[i] = x

Bad(e) ==
    IF ~e.alive THEN "connection_unusable"
    ELSE IF e.kind = "response" THEN
         (IF ~Over(e)
          THEN (IF e.observed # <<e.size>> \/ e.ec # 0 \/ ~e.same_id THEN "not_delivered_unchanged" ELSE "")
          ELSE (IF Len(e.observed) # 1 THEN "no_replacement"
                ELSE IF ~AllLeq(e.observed, e.limit) THEN "oversize_sent"
                ELSE IF e.ec # 9 THEN "replacement_not_internal_error"
                ELSE IF ~e.same_id THEN "replacement_lost_id"
                ELSE IF e.has_hook /\ ~e.reported THEN "not_reported"
                ELSE ""))
    ELSE IF e.kind = "notify" THEN
         (IF ~Over(e)
          THEN (IF ~Has(e.notifies_observed, e.size) THEN "notify_not_delivered" ELSE "")
          ELSE (IF Has(e.notifies_observed, e.size) \/ ~AllLeq(e.notifies_observed, e.limit) THEN "oversize_sent"
                ELSE IF ~e.reported THEN "not_reported" ELSE ""))
    ELSE IF e.kind = "burst" THEN
         \* several messages queued together, the oversized one not first: every message still passes the guard
         (IF ~AllLeq(e.observed, e.limit) THEN "oversize_sent"
          ELSE IF Len(e.observed) # e.expected_messages THEN "burst_message_lost"
          ELSE IF ~e.reported THEN "not_reported" ELSE "")
    ELSE IF e.kind = "bounded" THEN
         \* a request with a very long method path: exactly one answer, with the request's id, within the limit
         (IF Len(e.observed) # 1 THEN "no_answer"
          ELSE IF ~AllLeq(e.observed, e.limit) THEN "oversize_sent"
          ELSE IF ~e.same_id THEN "replacement_lost_id"
          ELSE IF e.ec \notin {6, 9} THEN "unexpected_code"
          ELSE "")
    ELSE \* client
         (IF ~Over(e)
          THEN (IF ~e.ok \/ e.server_saw # 1 THEN "client_message_lost" ELSE "")
          ELSE (IF ~e.local_too_large THEN "no_local_error"
                ELSE IF e.server_saw # 0 THEN "oversize_sent" ELSE ""))
Step == /\ l <= Len(Rec) /\ l' = l + 1
        /\ LET k == Bad(E) IN (k # "") => TLCSet(2, Append(TLCGet(2), <<l, k>>))
Init == l = 1
Spec == Init /\ [][Step]_l
Accepted == /\ PrintT(<<"MISMATCHES", ToJson(TLCGet(2))>>)
            /\ IF TLCGet("stats").diameter = Len(Rec) + 1 THEN TRUE
               ELSE PrintT(<<"UNMATCHED", TLCGet("stats").diameter>>) /\ FALSE
==============================================================================
