SPECIFICATION Spec
CONSTANTS
  Callers <- C3
  MaxJunk = 0
  AllowFault = TRUE
  AllowTimeout = FALSE
  AllowCancel = FALSE
  HasNotify = FALSE
  ShutFirst = TRUE
  Forwarders = {}
  ForwardRewinds = FALSE
INVARIANTS Correlated DistinctIds NotifyOnlyToSubscriber ChanAtMostOne NoResidue WaiterHasFuture

CHECK_DEADLOCK FALSE
