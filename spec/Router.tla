------------------------------- MODULE Router -------------------------------
(***************************************************************************)
(* Router::get (src/server.rs): which registered route serves a path, what *)
(* remainder a mount sees, and which middleware wraps the route, under     *)
(* every registration order.  Paths and prefixes are character sequences.  *)
(*   - an exactly registered path wins over every mount;                   *)
(*   - a mount (registry or struct) with prefix P serves exactly the paths *)
(*     equal to P or extending P at a "/" boundary (an empty prefix serves *)
(*     everything);                                                        *)
(*   - as built, registry mounts are consulted before struct mounts and,   *)
(*     within a kind, in registration order (the property does not order   *)
(*     overlapping mounts; the vectors avoid overlaps between mounts);     *)
(*   - every middleware ever registered wraps every route, in the order    *)
(*     the middlewares were registered, wherever the route was registered. *)
(* Property decided here: C07 (with Pointer.tla for the tokens).           *)
(***************************************************************************)
EXTENDS Naturals, Sequences, FiniteSets
P == INSTANCE Pointer

PrefixOf(a, b) == Len(a) <= Len(b) /\ SubSeq(b, 1, Len(a)) = a
MountMatches(prefix, path) ==
    IF Len(prefix) = 0 THEN TRUE
    ELSE IF path = prefix THEN TRUE
    ELSE IF PrefixOf(prefix, path) /\ Len(path) > Len(prefix) THEN path[Len(prefix) + 1] = "/" ELSE FALSE
\* the part of the path a mount hands on ("" when the path is the prefix itself)
Remainder(prefix, path) == SubSeq(path, Len(prefix) + 1, Len(path))

\* registration items: [kind |-> "exact" | "registry" | "struct" | "mw", at |-> path/prefix, name |-> id]
Matching(order, kind, path) ==
    {i \in 1..Len(order) : order[i].kind = kind /\
                           (IF kind = "exact" THEN order[i].at = path ELSE MountMatches(order[i].at, path))}
First(S) == CHOOSE i \in S : \A j \in S : i <= j
Lookup(order, path) ==
    LET e == Matching(order, "exact", path)
        r == Matching(order, "registry", path)
        s == Matching(order, "struct", path) IN
    IF e # {} THEN order[First(e)] ELSE IF r # {} THEN order[First(r)] ELSE IF s # {} THEN order[First(s)]
    ELSE [kind |-> "none", at |-> <<>>, name |-> 0]
MwChain(order) == SelectSeq([i \in 1..Len(order) |-> order[i]], LAMBDA it : it.kind = "mw")
MwNames(order) == [i \in 1..Len(MwChain(order)) |-> MwChain(order)[i].name]

\* the reference tokens a mounted struct sees for a path below its root
StructTokens(root, path) == P!Tokens(Remainder(root, path))
==============================================================================
