------------------------------ MODULE BeveArray ------------------------------
(***************************************************************************)
(* BEVE typed numeric array layouts used by repe's bulk body paths         *)
(* (src/message.rs body_typed_slice / body_complex_slice /                 *)
(* body_aligned_typed_slice, src/io.rs streaming writers, src/server.rs    *)
(* with_typed_slice(_ref)).  Elements are byte tuples (their little-endian *)
(* bytes), so NaN payloads, infinities and extreme integers are just bytes.*)
(*                                                                         *)
(* element class: 0 float, 1 signed, 2 unsigned; byte-count code c:        *)
(* width 2^c, except floats where code 0 = bf16 and code 1 = f16 (2 bytes).*)
(* Property decided here: C08.                                             *)
(***************************************************************************)
EXTENDS Integers, Sequences

Width(class, code) == IF class = 0 THEN (CASE code = 0 -> 2 [] code = 1 -> 2 [] code = 2 -> 4 [] code = 3 -> 8)
                      ELSE 2 ^ code
AlignOf(class, code) == Width(class, code)
TypedHeader(class, code) == code * 32 + class * 8 + 4
ComplexHeader(class, code) == code * 32 + class * 8 + 1      \* second byte of the complex extension, array form
ComplexExt == 30                                             \* 0x1E
AlignedMarker == 92                                          \* 0x5C
GenericEmpty == <<5, 0>>                                     \* what the generic (serde) encoder writes for an empty Vec<T>

RECURSIVE LE(_, _)
LE(n, k) == IF k = 0 THEN <<>> ELSE <<n % 256>> \o LE(n \div 256, k - 1)
\* BEVE compressed size: low two bits = width code of the size itself
Size(n) == IF n < 64 THEN LE(n * 4, 1)
           ELSE IF n < 16384 THEN LE(n * 4 + 1, 2)
           ELSE LE(n * 4 + 2, 4)                 \* n < 2^29 keeps n*4+2 inside TLC integers
SizeLen(n) == IF n < 64 THEN 1 ELSE IF n < 16384 THEN 2 ELSE 4

RECURSIVE Flat(_)
Flat(elems) == IF elems = <<>> THEN <<>> ELSE Head(elems) \o Flat(Tail(elems))
Zeros(k) == [i \in 1..k |-> 0]

\* bulk (and, for n >= 1, generic) encoding of a typed array
Typed(class, code, elems) == <<TypedHeader(class, code)>> \o Size(Len(elems)) \o Flat(elems)
TypedLen(class, code, n) == 1 + SizeLen(n) + n * Width(class, code)
\* what the generic encoder writes for the same vector
Generic(class, code, elems) == IF elems = <<>> THEN GenericEmpty ELSE Typed(class, code, elems)
\* complex array: pairs are re bytes then im bytes
Complex(class, code, pairs) == <<ComplexExt, ComplexHeader(class, code)>> \o Size(Len(pairs)) \o Flat(pairs)
ComplexLen(class, code, n) == 2 + SizeLen(n) + 2 * n * Width(class, code)

\* aligned form: marker, typed header, size, pad count, pad zeros, data; `base` = offset of the body in the frame
Pad(base, n, al) == (al - ((base + 2 + SizeLen(n) + 1) % al)) % al
Aligned(class, code, elems, base) ==
    LET pad == Pad(base, Len(elems), AlignOf(class, code)) IN
    <<AlignedMarker, TypedHeader(class, code)>> \o Size(Len(elems)) \o <<pad>> \o Zeros(pad) \o Flat(elems)
AlignedLen(class, code, n, base) == 2 + SizeLen(n) + 1 + Pad(base, n, AlignOf(class, code)) + n * Width(class, code)
DataOffset(base, n, al) == base + 2 + SizeLen(n) + 1 + Pad(base, n, al)
\* the element block can be borrowed iff its absolute address is aligned for the element type
Borrowable(bufMisalign, qlen, n, al) == (bufMisalign + DataOffset(48 + qlen, n, al)) % al = 0

\* which decoder accepts which bytes (class/code of the decoder's element type vs the bytes' header)
BulkAccepts(class, code, bytes) ==          \* decode_typed_slice::<T>
    \/ bytes = GenericEmpty
    \/ (Len(bytes) >= 2 /\ bytes[1] = TypedHeader(class, code))
==============================================================================
