SPECIFICATION Spec
CONSTANTS
  Dump = FALSE
  MaxNodes = 12
  Small = FALSE
VIEW View
CONSTRAINT StateConstraint
INVARIANTS TreeShaped OneTagPerPath HasRoot
PROPERTIES StepProps
CHECK_DEADLOCK FALSE
