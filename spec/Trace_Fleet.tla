----------------------------- MODULE Trace_Fleet -----------------------------
(* Trace specification for C19 (property layer).  One run = one outcome script    *)
(* played by a scripted node against Fleet or AsyncFleet: a faulty call, single-  *)
(* stepped attempt by attempt, then two calls with the node healthy.              *)
(* Judged:                                                                        *)
(*   at most max attempts; an attempt only ever follows a failed attempt (the     *)
(*   loop stops at the first reply, success or application error); what an        *)
(*   attempt observes is consistent with what the node did; the call reports the  *)
(*   last attempt's outcome; and - NotWedged - one of the two calls made once the *)
(*   node is healthy again succeeds.                                              *)
(* Also: a broadcast addresses exactly the nodes carrying all requested tags.     *)
EXTENDS Integers, Sequences, FiniteSets, TLC, Json, IOUtils

Rec == ndJsonDeserialize(IOEnv.TRACE)

Outcomes == {"refused", "closed_after_accept", "closed_idle", "silent", "malformed", "app_error", "success"}
Replies == {"app_error", "success", "closed_idle"}

VARIABLES max, inCall, phase, n, lastRes, healthyDone, healthyOk, l
tvars == <<max, inCall, phase, n, lastRes, healthyDone, healthyOk, l>>
E == Rec[l]
ToSet(s) == {s[i] : i \in 1..Len(s)}

Init == max = 0 /\ inCall = FALSE /\ phase = "none" /\ n = 0 /\ lastRes = "none" /\ healthyDone = 0 /\ healthyOk = FALSE /\ l = 1

Reset == /\ E.ev = "reset" /\ ~inCall
         /\ max' = E.max /\ phase' = "none" /\ n' = 0 /\ lastRes' = "none" /\ healthyDone' = 0 /\ healthyOk' = FALSE
         /\ UNCHANGED inCall
CallStart == /\ E.ev = "call_start" /\ ~inCall
             /\ inCall' = TRUE /\ phase' = E.phase /\ n' = 0 /\ lastRes' = "none"
             /\ UNCHANGED <<max, healthyDone, healthyOk>>

\* what the loop observed must be explainable by what the node did in that attempt
Consistent(e) ==
    /\ e.res \in {"ok", "app", "err"}
    /\ (e.res \in {"ok", "app"} => (e.served /\ e.armed \in Replies))          \* a reply can only come from the node
    /\ ((e.served /\ e.armed \in {"success", "closed_idle"}) => e.res = "ok")
    /\ ((e.served /\ e.armed = "app_error") => e.res = "app")
    /\ (e.armed \in Outcomes \ Replies => e.res = "err")

Attempt == /\ E.ev = "attempt" /\ inCall
           /\ E.n = n + 1                        \* attempts are counted 1, 2, ...
           /\ E.n <= max /\ E.max = max          \* never more than max_attempts
           /\ (n > 0 => lastRes = "err")         \* a retry only follows a failure; ok / app stop the loop
           /\ Consistent(E)
           /\ n' = E.n /\ lastRes' = E.res
           /\ UNCHANGED <<max, inCall, phase, healthyDone, healthyOk>>

CallEnd == /\ E.ev = "call_end" /\ inCall
           /\ E.cls = lastRes /\ n >= 1          \* reports the reply or the last failure; made at least one attempt
           /\ (E.cls = "ok" => E.payload_ok)
           /\ inCall' = FALSE
           /\ IF phase = "healthy"
              THEN /\ healthyDone' = healthyDone + 1
                   /\ healthyOk' = (healthyOk \/ E.cls = "ok")
                   \* NotWedged: once the node is reachable again one of the next two calls succeeds
                   /\ (healthyDone' = 2 => healthyOk')
              ELSE UNCHANGED <<healthyDone, healthyOk>>
           /\ UNCHANGED <<max, phase, n, lastRes>>

\* stateless: the addressed set is exactly the nodes whose tags include every requested tag
Addressed(e) == {i \in 1..Len(e.node_tags) : ToSet(e.requested) \subseteq ToSet(e.node_tags[i])}
NodeName(i) == CASE i = 1 -> "n1" [] i = 2 -> "n2" [] i = 3 -> "n3" [] i = 4 -> "n4"
Broadcast == /\ E.ev = "broadcast" /\ ~inCall
             /\ ToSet(E.result_nodes) = {NodeName(i) : i \in Addressed(E)}
             /\ Len(E.result_nodes) = Cardinality(Addressed(E))               \* exactly one result per addressed node
             /\ \A i \in 1..Len(E.node_tags) : (E.requests_seen[i] >= 1) <=> (i \in Addressed(E))
             \* every addressed node answered, except the ones scripted to stay silent: those have a (failed) result all the same
             /\ ToSet(E.ok_nodes) = {NodeName(i) : i \in Addressed(E) \ ToSet(E.silent)}
             /\ (E.all_ok <=> (Addressed(E) \cap ToSet(E.silent) = {}))
             /\ UNCHANGED <<max, inCall, phase, n, lastRes, healthyDone, healthyOk>>

Step == l <= Len(Rec) /\ l' = l + 1 /\ (Reset \/ CallStart \/ Attempt \/ CallEnd \/ Broadcast)
Spec == Init /\ [][Step]_tvars

AttemptBound == n <= max
Accepted == IF TLCGet("stats").diameter = Len(Rec) + 1 THEN TRUE
            ELSE PrintT(<<"UNMATCHED", TLCGet("stats").diameter>>) /\ FALSE
==============================================================================
