SPECIFICATION Spec
CONSTANTS
  Ns = {0, 1, 2, 3, 4, 5, 6, 7}
  Chunks = {1, 2, 3}
  Depths = {0, 1, 2}
  WriteSizes = {1, 2, 3}
INVARIANTS AfterCancelError PrefixOk AtMostOneLast LastIsComplete NothingAfterEnd FailNeverLast EmptyIsSingle AsBuilt
PROPERTIES Finishes
CHECK_DEADLOCK FALSE
