---------------------------- MODULE MC_BeveArray ----------------------------
(* Generator + self-checks for BeveArray.tla. *)
EXTENDS BeveArray, TLC, Json, FiniteSets
VARIABLE done

\* anchors: bytes produced by the real encoders (recorded once, from the pinned commit)
ASSUME Typed(0, 2, << <<0, 0, 192, 63>>, <<0, 0, 192, 127>> >>) = <<68, 8, 0, 0, 192, 63, 0, 0, 192, 127>>   \* f32 [1.5, NaN]
ASSUME Typed(2, 0, << <<0>>, <<1>>, <<2>> >>) = <<20, 12, 0, 1, 2>>
ASSUME Typed(1, 1, << <<255, 255>> >>) = <<44, 4, 255, 255>>
ASSUME Typed(0, 1, << <<0, 60>> >>) = <<36, 4, 0, 60>>          \* f16 1.0
ASSUME Typed(0, 0, << <<128, 63>> >>) = <<4, 4, 128, 63>>       \* bf16 1.0
ASSUME Typed(0, 3, <<>>) = <<100, 0>>
ASSUME Complex(0, 2, << <<0, 0, 128, 63, 0, 0, 0, 64>> >>) = <<30, 65, 4, 0, 0, 128, 63, 0, 0, 0, 64>>
ASSUME Complex(0, 3, <<>>) = <<30, 97, 0>>
ASSUME Aligned(0, 3, <<>>, 50) = <<92, 100, 0, 2, 0, 0>>
ASSUME Aligned(2, 1, << <<1, 0>>, <<2, 0>> >>, 52) = <<92, 52, 8, 0, 1, 0, 2, 0>>
ASSUME Size(70) = <<25, 1>> /\ Size(20000) = <<130, 56, 1, 0>>
\* the padding always lands the data on an aligned frame offset ...
ASSUME \A q \in 0..64, al \in {1, 2, 4, 8}, n \in {0, 1, 63, 64, 65, 16383, 16384} : DataOffset(48 + q, n, al) % al = 0
\* ... so a frame at buffer misalignment m is borrowable iff m is a multiple of the alignment
ASSUME \A m \in 0..7, q \in 0..64, al \in {1, 2, 4, 8}, n \in {0, 3, 64} : Borrowable(m, q, n, al) <=> (m % al = 0)
\* closed-form lengths
ASSUME \A n \in {0, 1, 63, 64, 4096} : TypedLen(0, 3, n) = 1 + SizeLen(n) + 8 * n

Types == {<<0, 0>>, <<0, 1>>, <<0, 2>>, <<0, 3>>, <<1, 0>>, <<1, 1>>, <<1, 2>>, <<1, 3>>, <<2, 0>>, <<2, 1>>, <<2, 2>>, <<2, 3>>}
\* element byte patterns of width w: zero, all ones, a NaN-like / extreme pattern, a ramp, sign bit only
Pats(w) == {[i \in 1..w |-> 0], [i \in 1..w |-> 255], [i \in 1..w |-> IF i = w THEN 127 ELSE IF i = w - 1 THEN 192 ELSE 1],
            [i \in 1..w |-> i], [i \in 1..w |-> IF i = w THEN 128 ELSE 0]}
SeqsOf(S, n) == [1..n -> S]

EmitLayout ==
    \A t \in Types : \A n \in 0..2 : \A es \in SeqsOf(Pats(Width(t[1], t[2])), n) :
        PrintT(<<"VEC", ToJson([kind |-> "layout", class |-> t[1], code |-> t[2], elems |-> es,
                                 bulk |-> Typed(t[1], t[2], es), generic |-> Generic(t[1], t[2], es)])>>)
EmitComplex ==
    \A t \in Types : \A n \in 0..2 : \A es \in SeqsOf({p \o q : p \in {[i \in 1..Width(t[1], t[2]) |-> i], [i \in 1..Width(t[1], t[2]) |-> 255]},
                                                               q \in {[i \in 1..Width(t[1], t[2]) |-> 0], [i \in 1..Width(t[1], t[2]) |-> 128 + i]}}, n) :
        PrintT(<<"VEC", ToJson([kind |-> "complex", class |-> t[1], code |-> t[2], pairs |-> es, bytes |-> Complex(t[1], t[2], es)])>>)
EmitAligned ==
    \A t \in {<<2, 0>>, <<1, 1>>, <<0, 2>>, <<0, 3>>, <<2, 3>>} : \A q \in 0..64 : \A m \in 0..7 : \A n \in {0, 3} :
        LET al == AlignOf(t[1], t[2])
            es == [i \in 1..n |-> [j \in 1..Width(t[1], t[2]) |-> (i * 16 + j) % 256]] IN
        PrintT(<<"VEC", ToJson([kind |-> "aligned", class |-> t[1], code |-> t[2], qlen |-> q, misalign |-> m, elems |-> es,
                                 body |-> Aligned(t[1], t[2], es, 48 + q), pad |-> Pad(48 + q, n, al),
                                 borrowable |-> Borrowable(m, q, n, al)])>>)
Init == done = FALSE
Next == ~done /\ done' = TRUE /\ EmitLayout /\ EmitComplex /\ EmitAligned
Spec == Init /\ [][Next]_done
==============================================================================
