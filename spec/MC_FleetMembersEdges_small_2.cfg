INIT GInit
NEXT ENext
CONSTANTS
  Names = {"n1", "n2"}
  Tags = {"a"}
  MaxAttempts = 2
  MatchAll = TRUE
  Invalidate = TRUE
  Depth = 0
VIEW View
CHECK_DEADLOCK FALSE
