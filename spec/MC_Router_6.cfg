SPECIFICATION Spec
CONSTANTS
  MaxLen = 6
CHECK_DEADLOCK FALSE
