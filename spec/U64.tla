-------------------------------- MODULE U64 --------------------------------
(* 64-bit unsigned integers as tuples of their 8 little-endian bytes.      *)
(* TLC integers are 32 bit, so every value that is a u64 in the code (wire *)
(* header fields, stream offsets, windows) is carried in this form in      *)
(* traces and vectors; it is also exactly the byte layout on the wire.     *)
EXTENDS Integers, Sequences

Zero == <<0, 0, 0, 0, 0, 0, 0, 0>>
Max  == <<255, 255, 255, 255, 255, 255, 255, 255>>
IsU64(a) == Len(a) = 8 /\ \A i \in 1..8 : a[i] \in 0..255

RECURSIVE AddC(_, _, _, _)
\* <<sum bytes i..8, carry-out>>
AddC(a, b, i, c) == IF i > 8 THEN << <<>>, c >>
                    ELSE LET s == a[i] + b[i] + c
                             r == AddC(a, b, i + 1, s \div 256) IN
                         << <<s % 256>> \o r[1], r[2] >>
Add(a, b) == AddC(a, b, 1, 0)              \* <<bytes, carry>> : exact, carry = 1 on overflow
WrapAdd(a, b) == Add(a, b)[1]
SatAdd(a, b) == LET r == Add(a, b) IN IF r[2] = 1 THEN Max ELSE r[1]

RECURSIVE CmpFrom(_, _, _)
CmpFrom(a, b, i) == IF i = 0 THEN 0
                    ELSE IF a[i] < b[i] THEN -1
                    ELSE IF a[i] > b[i] THEN 1 ELSE CmpFrom(a, b, i - 1)
Cmp(a, b) == CmpFrom(a, b, 8)
Leq(a, b) == Cmp(a, b) <= 0
Lt(a, b) == Cmp(a, b) < 0
MinU(a, b) == IF Leq(a, b) THEN a ELSE b

RECURSIVE SubB(_, _, _, _)
\* a - b for a >= b, bytewise with borrow
SubB(a, b, i, br) == IF i > 8 THEN <<>>
                     ELSE LET d == a[i] - b[i] - br IN
                          IF d < 0 THEN <<d + 256>> \o SubB(a, b, i + 1, 1)
                          ELSE <<d>> \o SubB(a, b, i + 1, 0)
SatSub(a, b) == IF Leq(a, b) THEN Zero ELSE SubB(a, b, 1, 0)

RECURSIVE FromNatR(_, _)
FromNatR(n, k) == IF k = 0 THEN <<>> ELSE <<n % 256>> \o FromNatR(n \div 256, k - 1)
FromNat(n) == FromNatR(n, 8)               \* n < 2^31
\* the value as a TLC integer if it fits in 31 bits, else -1
ToNatOrBig(a) == IF a[5] = 0 /\ a[6] = 0 /\ a[7] = 0 /\ a[8] = 0 /\ a[4] < 128
                 THEN a[1] + 256 * a[2] + 65536 * a[3] + 16777216 * a[4] ELSE -1
==============================================================================
