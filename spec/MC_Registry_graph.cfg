SPECIFICATION Spec
CONSTANTS
  Dump = TRUE
  MaxNodes = 9
  Small = TRUE
VIEW View
CONSTRAINT StateConstraint
INVARIANT InitDumpInv
ACTION_CONSTRAINT EdgeDump
CHECK_DEADLOCK FALSE
