--------------------------- MODULE MC_PeerRegistry ---------------------------
EXTENDS PeerRegistry, TLC, Json
CONSTANTS Dump
VARIABLES last
vars == <<present, owner, order, last>>
View == <<present, owner, order>>

Op(n, p, k) == [name |-> n, p |-> p, k |-> k]
Mutators == {Op("insert", p, "") : p \in Peers} \cup {Op("remove", p, "") : p \in Peers}
            \cup {Op("alias", p, k) : p \in Peers, k \in Keys}
Queries == {Op("broadcast", 0, "")} \cup {Op("get", p, "") : p \in Peers} \cup {Op("get_by", 0, k) : k \in Keys}
           \cup {Op("key_for", p, "") : p \in Peers} \cup {Op("aliases_for", p, "") : p \in Peers} \cup {Op("len", 0, "")}

Init == PRInit /\ last = [op |-> Op("init", 0, ""), ret |-> <<>>]
Mutate == \E op \in Mutators : Effect(op) /\ last' = [op |-> op, ret |-> Ret(op)]
Query == \E op \in Queries : Effect(op) /\ last' = [op |-> op, ret |-> Ret(op)]
Next == Mutate \/ Query
Spec == Init /\ [][Next]_vars

StepProps == [][RemoveOnlyOwnStep(last'.op) /\ AliasMovesStep(last'.op)]_vars

\* state dump: the registry plus every query's answer in that state
KeySeq == SetToSortSeq(Keys, LAMBDA a, b : TRUE)
StateJson(pr, ow, od) ==
    [present |-> SetToSortSeq(pr, <),
     owner |-> [k \in Keys |-> ow[k]],
     order |-> [p \in Peers |-> od[p]]]
Obs == [get |-> [p \in Peers |-> Get(p)], get_by |-> [k \in Keys |-> GetBy(k)],
        key_for |-> [p \in Peers |-> KeyFor(p)], aliases_for |-> [p \in Peers |-> AliasesFor(p)],
        len |-> Count, peers |-> SortedPeers(present)]
EdgeDump == Dump => PrintT(<<"EDGE", ToJson(<<StateJson(present, owner, order), last', StateJson(present', owner', order'), Obs'>>)>>)
InitDumpInv == (Dump /\ last.op.name = "init") => PrintT(<<"INIT", ToJson(<<StateJson(present, owner, order), Obs>>)>>)
==============================================================================
