INIT GInit
NEXT GNext
CONSTANTS
  Callers <- C3
  MaxJunk = 1
  AllowFault = FALSE
  AllowTimeout = FALSE
  AllowCancel = FALSE
  HasNotify = FALSE
  ShutFirst = TRUE
  Forwarders <- F3
  ForwardRewinds = FALSE
INVARIANTS Emit
CONSTRAINT StopWhenFinished
CHECK_DEADLOCK FALSE
