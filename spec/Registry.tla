------------------------------ MODULE Registry ------------------------------
(***************************************************************************)
(* repe::Registry (src/registry.rs): a JSON document addressed by RFC 6901 *)
(* pointers plus callables.  One RwLock guards the state; every public     *)
(* call is one atomic action (a call of a registered function releases the *)
(* lock before invoking it, which changes nothing in the model because the *)
(* function does not touch the registry).                                  *)
(*                                                                         *)
(* The document is a flat set of nodes [p |-> path, t |-> tag]: path is a  *)
(* sequence of reference tokens (opaque values, only compared), tag is     *)
(* "obj", "arr" or a leaf tag ("n:1", "s:x", "t", "f", "z").  Children of  *)
(* an array carry the tokens "0", "1", ...; an array index is valid iff    *)
(* that child exists, so the model never parses digits.                    *)
(*                                                                         *)
(* An operation is a record; Effect(op) / Ret(op) as in PeerRegistry.tla.  *)
(* Pointers arrive already tokenised (op.p) or marked malformed (op.bad):  *)
(* tokenisation itself is Pointer.tla's business and is checked there and  *)
(* in the trace module.  Property decided here: C14.                       *)
(***************************************************************************)
EXTENDS Naturals, Sequences, FiniteSets

VARIABLES doc,     \* set of nodes
          funcs    \* set of [p |-> token path, f |-> function tag]: callables by canonical pointer

rvars == <<doc, funcs>>

PrefixOf(a, b) == Len(a) <= Len(b) /\ SubSeq(b, 1, Len(a)) = a
Has(d, p) == \E n \in d : n.p = p
TagOf(d, p) == (CHOOSE n \in d : n.p = p).t
Parent(p) == SubSeq(p, 1, Len(p) - 1)
\* the subtree at p, re-rooted
Sub(d, p) == {[p |-> SubSeq(n.p, Len(p) + 1, Len(n.p)), t |-> n.t] : n \in {m \in d : PrefixOf(p, m.p)}}
\* replace the subtree at p by value v (a node set rooted at <<>>)
Graft(d, p, v) == {n \in d : ~PrefixOf(p, n.p)} \cup {[p |-> p \o n.p, t |-> n.t] : n \in v}
EmptyObj == {[p |-> <<>>, t |-> "obj"]}
TopKeys(v) == {n.p[1] : n \in {m \in v : Len(m.p) = 1}}
\* insert every top-level key of object v into the object at p (replacing those keys' subtrees)
MergeInto(d, p, v) == {n \in d : ~\E k \in TopKeys(v) : PrefixOf(Append(p, k), n.p)}
                      \cup {[p |-> p \o n.p, t |-> n.t] : n \in {m \in v : m.p # <<>>}}
IsObj(v) == \E n \in v : n.p = <<>> /\ n.t = "obj"

\* a pointer resolves iff every prefix is a node (each step finds the next token in a container)
Resolves(d, p) == \A i \in 0..Len(p) : Has(d, SubSeq(p, 1, i))

\* ensure_object_parent: every proper prefix becomes an object (created, or replacing a non-object)
RECURSIVE EnsureFrom(_, _, _)
EnsureFrom(d, p, i) ==
    IF i >= Len(p) THEN d
    ELSE LET q == SubSeq(p, 1, i)
             d1 == IF Has(d, q) /\ TagOf(d, q) = "obj" THEN d ELSE Graft(d, q, EmptyObj) IN
         EnsureFrom(d1, p, i + 1)
EnsureParents(d, p) == EnsureFrom(d, p, 0)

FuncAt(p) == {e \in funcs : e.p = p}
IsFunc(p) == FuncAt(p) # {}
FTag(p) == (CHOOSE e \in FuncAt(p) : TRUE).f

RInit == doc = EmptyObj /\ funcs = {}

\* can `write` store at the non-root pointer p ?
WriteOk(p) == /\ Resolves(doc, Parent(p))
              /\ LET pt == TagOf(doc, Parent(p)) IN
                   pt = "obj" \/ (pt = "arr" /\ Has(doc, p))     \* arrays: the index must exist

Ok(v, calls) == [cls |-> "ok", v |-> v, calls |-> calls]
Err(c) == [cls |-> c, v |-> {}, calls |-> <<>>]
StatusOk == {[p |-> <<>>, t |-> "status"]}      \* {"status":"ok","path":<canonical pointer>} (path checked by the trace module)
FuncDesc == {[p |-> <<>>, t |-> "function"]}    \* {"type":"function","path":...}

(* names: set_root, register_value, register_function, merge_at, read (= request with empty body), *)
(* write (= request with a non-empty body: call if the pointer is a callable)                       *)
Ret(op) ==
    IF op.bad THEN Err("not_found")
    ELSE CASE op.name = "set_root" -> Ok({}, <<>>)
           [] op.name = "register_value" -> Ok({}, <<>>)
           [] op.name = "register_function" -> IF op.p = <<>> THEN Err("not_found") ELSE Ok({}, <<>>)
           [] op.name = "merge_at" ->
                 IF op.p = <<>> THEN Ok({}, <<>>)
                 ELSE IF Resolves(doc, op.p) /\ TagOf(doc, op.p) = "obj" THEN Ok({}, <<>>) ELSE Err("not_found")
           [] op.name = "read" ->
                 IF IsFunc(op.p) THEN Ok(FuncDesc, <<>>)
                 ELSE IF Resolves(doc, op.p) THEN Ok(Sub(doc, op.p), <<>>) ELSE Err("not_found")
           [] op.name = "write" ->
                 IF IsFunc(op.p) THEN Ok({[p |-> <<>>, t |-> "called"]}, << [f |-> FTag(op.p), arg |-> op.v] >>)
                 ELSE IF op.p = <<>> THEN (IF IsObj(op.v) THEN Ok(StatusOk, <<>>) ELSE Err("invalid_body"))
                 ELSE IF WriteOk(op.p) THEN Ok(StatusOk, <<>>) ELSE Err("not_found")

Effect(op) ==
    IF op.bad \/ Ret(op).cls # "ok" THEN UNCHANGED rvars
    ELSE CASE op.name = "set_root" -> doc' = op.v /\ UNCHANGED funcs
           [] op.name = "register_value" ->
                 /\ doc' = IF op.p = <<>> THEN op.v ELSE Graft(EnsureParents(doc, op.p), op.p, op.v)
                 /\ UNCHANGED funcs
           [] op.name = "register_function" ->
                 /\ doc' = EnsureParents(doc, op.p)
                 /\ funcs' = (funcs \ FuncAt(op.p)) \cup {[p |-> op.p, f |-> op.f]}
           [] op.name = "merge_at" ->
                 /\ doc' = IF op.p = <<>>
                           THEN MergeInto(IF IsObj(doc) THEN doc ELSE EmptyObj, <<>>, op.v)
                           ELSE MergeInto(doc, op.p, op.v)
                 /\ UNCHANGED funcs
           [] op.name = "read" -> UNCHANGED rvars
           [] op.name = "write" ->
                 IF IsFunc(op.p) THEN UNCHANGED rvars
                 ELSE IF op.p = <<>>
                 THEN doc' = MergeInto(IF IsObj(doc) THEN doc ELSE EmptyObj, <<>>, op.v) /\ UNCHANGED funcs
                 ELSE doc' = Graft(doc, op.p, op.v) /\ UNCHANGED funcs

--------------------------------------------------------------------------------
(* Property layer (C14)                                                    *)
TreeShaped == \A n \in doc : n.p = <<>> \/ (Has(doc, Parent(n.p)) /\ TagOf(doc, Parent(n.p)) \in {"obj", "arr"})
OneTagPerPath == \A n, m \in doc : n.p = m.p => n.t = m.t
HasRoot == Has(doc, <<>>)

\* a successful write to a non-root, non-callable pointer is what the next read of it returns
ReadYourWriteStep(op) == (op.name = "write" /\ ~op.bad /\ Ret(op).cls = "ok" /\ ~IsFunc(op.p) /\ op.p # <<>>) =>
                             (Resolves(doc', op.p) /\ Sub(doc', op.p) = op.v)
\* ... and changes nothing at unrelated pointers (neither above nor below it)
FrameStep(op, Probe) == (op.name = "write" /\ ~op.bad /\ Ret(op).cls = "ok" /\ ~IsFunc(op.p) /\ op.p # <<>>) =>
    \A q \in Probe : (~PrefixOf(op.p, q) /\ ~PrefixOf(q, op.p)) =>
        /\ (Resolves(doc, q) <=> Resolves(doc', q))
        /\ (Resolves(doc, q) => Sub(doc, q) = Sub(doc', q))
\* a root write merges the object's keys: other keys stay
RootMergeStep(op) == (op.name = "write" /\ ~op.bad /\ op.p = <<>> /\ Ret(op).cls = "ok" /\ ~IsFunc(op.p)) =>
    /\ \A n \in doc : (Len(n.p) >= 1 /\ n.p[1] \notin TopKeys(op.v)) => n \in doc'
    /\ \A k \in TopKeys(op.v) : Sub(doc', <<k>>) = Sub(op.v, <<k>>)
\* a request with an empty body never mutates; nor does any failed request
ReadPureStep(op) == (op.name = "read" \/ op.bad \/ Ret(op).cls # "ok") => UNCHANGED rvars
\* a callable is invoked exactly once, with the supplied body, only for a non-empty body at exactly its pointer
CallStep(op) == LET c == Ret(op).calls IN
    /\ Len(c) <= 1
    /\ (Len(c) = 1 <=> (op.name = "write" /\ ~op.bad /\ IsFunc(op.p)))
    /\ (Len(c) = 1 => (c[1].arg = op.v /\ c[1].f = FTag(op.p) /\ UNCHANGED rvars))
==============================================================================
