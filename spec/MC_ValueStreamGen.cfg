SPECIFICATION SpecGen
CONSTANTS
  Ns = {0, 1, 2, 3, 4, 5, 6, 7}
  Chunks = {1, 2, 3}
  Depths = {0, 1, 2}
  WriteSizes = {1, 2, 3}
INVARIANTS Emit
CHECK_DEADLOCK FALSE
