SPECIFICATION Spec
CONSTRAINT Track
POSTCONDITION Accepted
CHECK_DEADLOCK FALSE
