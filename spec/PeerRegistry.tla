---------------------------- MODULE PeerRegistry ----------------------------
(***************************************************************************)
(* repe::PeerRegistry (src/peer.rs): connected peers, embedder aliases,    *)
(* broadcast.  One mutex guards the three maps, so every public call is    *)
(* one atomic action; broadcast snapshots the peers under the lock and     *)
(* sends outside it (its linearization point is the snapshot).             *)
(*                                                                         *)
(* An operation is a record [name, p, k]; Effect(op) is its state change   *)
(* and Ret(op) its result in the pre-state.  The MC module turns them into *)
(* labelled actions, the trace module into linearization steps.            *)
(* Property decided here: C18.                                             *)
(***************************************************************************)
EXTENDS Naturals, Sequences, FiniteSets, SequencesExt

CONSTANTS Peers,    \* set of peer ids (positive integers)
          Keys      \* set of alias keys (strings)

VARIABLES present,  \* set of peers in the registry
          owner,    \* Keys -> Peers \cup {NoPeer}: forward alias map
          order     \* Peers -> Seq(Keys): reverse index, in assignment order

prvars == <<present, owner, order>>
NoPeer == 0

PRInit == /\ present = {} /\ owner = [k \in Keys |-> NoPeer] /\ order = [p \in Peers |-> <<>>]

Without(s, k) == SelectSeq(s, LAMBDA x : x # k)
SortedPeers(S) == SetToSortSeq(S, <)

\* ---- queries
Get(p) == IF p \in present THEN <<p>> ELSE <<>>
GetBy(k) == IF owner[k] # NoPeer /\ owner[k] \in present THEN <<owner[k]>> ELSE <<>>
KeyFor(p) == IF order[p] = <<>> THEN <<>> ELSE <<order[p][1]>>
AliasesFor(p) == order[p]
Count == Cardinality(present)

\* ---- operations
Effect(op) ==
    CASE op.name = "insert" ->
            \* precondition of the API: ids are unique, a present peer is not inserted again
            /\ op.p \notin present
            /\ present' = present \cup {op.p} /\ UNCHANGED <<owner, order>>
      [] op.name = "remove" ->
            /\ present' = present \ {op.p}
            /\ owner' = [k \in Keys |-> IF owner[k] = op.p THEN NoPeer ELSE owner[k]]
            /\ order' = [order EXCEPT ![op.p] = <<>>]
      [] op.name = "alias" ->
            /\ IF op.p \notin present \/ owner[op.k] = op.p THEN UNCHANGED <<owner, order>>
               ELSE /\ owner' = [owner EXCEPT ![op.k] = op.p]
                    /\ order' = [q \in Peers |-> IF q = op.p THEN Append(order[q], op.k)
                                                 ELSE IF q = owner[op.k] THEN Without(order[q], op.k)
                                                 ELSE order[q]]
            /\ UNCHANGED present
      [] OTHER -> UNCHANGED prvars      \* queries and broadcast do not change the registry

Ret(op) ==
    CASE op.name = "insert" -> <<>>
      [] op.name = "close_sink" -> <<>>                   \* the transport behind a peer closes: nothing the registry knows of
      [] op.name = "remove" -> Get(op.p)                 \* the removed handle, if it was present
      [] op.name = "alias"  -> IF op.p \in present THEN <<1>> ELSE <<0>>
      [] op.name = "get"    -> Get(op.p)
      [] op.name = "get_by" -> GetBy(op.k)
      [] op.name = "key_for" -> KeyFor(op.p)
      [] op.name = "aliases_for" -> AliasesFor(op.p)
      [] op.name = "len"    -> <<Count>>
      [] op.name = "broadcast" -> SortedPeers(present)   \* one send and one result per present peer

\* ---- property layer
IndexConsistent ==
    /\ \A p \in Peers : {order[p][i] : i \in 1..Len(order[p])} = {k \in Keys : owner[k] = p}
    /\ \A p \in Peers : \A i, j \in 1..Len(order[p]) : i # j => order[p][i] # order[p][j]
    /\ \A k \in Keys : owner[k] # NoPeer => owner[k] \in present
\* a lookup returns a peer exactly when the key was last assigned to a still-present peer
LookupSound == \A k \in Keys : GetBy(k) # <<>> <=> (owner[k] # NoPeer /\ owner[k] \in present)
\* removing a peer removes all and only its own keys
RemoveOnlyOwnStep(op) == op.name = "remove" =>
    /\ \A k \in Keys : owner[k] # op.p => owner'[k] = owner[k]
    /\ \A k \in Keys : owner[k] = op.p => owner'[k] = NoPeer
    /\ \A q \in Peers \ {op.p} : order'[q] = order[q]
\* re-pointing detaches the key from its previous owner and appends it to the new one
AliasMovesStep(op) == (op.name = "alias" /\ op.p \in present /\ owner[op.k] # op.p) =>
    /\ owner'[op.k] = op.p
    /\ order'[op.p] = Append(order[op.p], op.k)
    /\ (owner[op.k] # NoPeer => op.k \notin {order'[owner[op.k]][i] : i \in 1..Len(order'[owner[op.k]])})
==============================================================================
