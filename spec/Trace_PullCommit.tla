--------------------------- MODULE Trace_PullCommit ---------------------------
(* Trace specification for C10: one line per pull-to-file scenario (in-process     *)
(* fault or process death injected by strace at a write / fsync / rename / close   *)
(* of the temp or destination path), judged with PullCommit!Allowed; a value-      *)
(* decoding pull over a cut connection must not return a value.                    *)
EXTENDS Integers, Sequences, TLC, Json, IOUtils
Rec == ndJsonDeserialize(IOEnv.TRACE)
VARIABLES dest, tmp, got, lastSeen, synced, verified, phase, mode, l
P == INSTANCE PullCommit WITH Chunks <- 1, RequireEnd <- TRUE, PreDest <- "absent"
E == Rec[l]
ASSUME TLCSet(2, <<>>)
\* which scenarios must fail / must succeed
MustFail(e) == e.scenario \in {"producer_failure", "verifier_rejects", "trailer_reject", "trailer_too_long"}
MustSucceed(e) == e.scenario \in {"complete", "verifier_accepts", "trailer_ok"}
Bad(e) ==
    IF e.ev = "decode" THEN (IF e.returned_value THEN "value_from_truncated_stream" ELSE "")
    ELSE IF e.ev = "tool_error" THEN "tool_error"
    ELSE IF e.dest \in {"partial", "other"} THEN "destination_partial"
    ELSE IF MustFail(e) /\ e.ok THEN "failed_pull_reported_success"
    ELSE IF MustSucceed(e) /\ ~e.ok THEN "complete_pull_failed"
    ELSE IF e.killed /\ e.dest # e.pre THEN "destination_changed_by_killed_pull"
    ELSE IF ~e.killed /\ ~e.ok /\ e.dest # e.pre THEN "destination_changed_by_failed_pull"
    ELSE IF ~e.killed /\ ~e.ok /\ e.tmp_exists THEN "temp_file_left_behind"
    ELSE IF ~e.killed /\ e.ok /\ e.dest # "complete" THEN "success_without_complete_file"
    ELSE IF ~P!Allowed(e.pre, e.ok, e.killed, e.dest, e.tmp_exists) THEN "not_allowed"
    ELSE ""
Step == /\ l <= Len(Rec) /\ l' = l + 1
        /\ LET k == Bad(E) IN (k # "") => TLCSet(2, Append(TLCGet(2), <<l, k>>))
        /\ UNCHANGED <<dest, tmp, got, lastSeen, synced, verified, phase, mode>>
Init == P!Init /\ mode = "blocking" /\ l = 1
Spec == Init /\ [][Step]_<<dest, tmp, got, lastSeen, synced, verified, phase, mode, l>>
Accepted == /\ PrintT(<<"MISMATCHES", ToJson(TLCGet(2))>>)
            /\ IF TLCGet("stats").diameter = Len(Rec) + 1 THEN TRUE
               ELSE PrintT(<<"UNMATCHED", TLCGet("stats").diameter>>) /\ FALSE
==============================================================================
