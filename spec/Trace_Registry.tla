--------------------------- MODULE Trace_Registry ---------------------------
(* Linearizability of recorded Registry histories (sequential = one thread)   *)
(* against Registry.tla, plus the tokenisation of every logged pointer against *)
(* Pointer.tla.  Events: inv (operation, raw pointer characters, the tokens    *)
(* the harness meant), res (class, value as flat node list, callable calls).   *)
EXTENDS Integers, Sequences, FiniteSets, TLC, Json, IOUtils

Rec == ndJsonDeserialize(IOEnv.TRACE)
Threads == 1..4

VARIABLES doc, funcs, pend, l
R == INSTANCE Registry
P == INSTANCE Pointer
tvars == <<doc, funcs, pend, l>>
E == Rec[l]
ToSet(s) == {s[i] : i \in 1..Len(s)}

NoOp == [name |-> "", p |-> <<>>, v |-> {}, f |-> "", bad |-> FALSE]
Idle == [st |-> "idle", op |-> NoOp, ret |-> R!Err("none")]

ASSUME TLCSet(1, 0)
Init == R!RInit /\ pend = [t \in Threads |-> Idle] /\ l = 1

Reset == /\ l <= Len(Rec) /\ E.ev = "reset"
         /\ \A t \in Threads : pend[t].st = "idle"
         /\ doc' = R!EmptyObj /\ funcs' = {} /\ UNCHANGED pend /\ l' = l + 1

IsRegistration(n) == n \in {"register_value", "register_function", "merge_at"}
\* the pointer characters on the wire tokenise (RFC 6901, Pointer.tla) to the tokens of the operation;
\* a pointer logged as malformed really is malformed
PointerOk(e) == LET raw == IF IsRegistration(e.op.name) THEN P!Normalized(e.raw) ELSE e.raw IN
                IF e.op.bad THEN ~P!WellFormed(raw)
                ELSE P!WellFormed(raw) /\ P!RegistryTokens(raw) = e.op.p

Invoke == /\ l <= Len(Rec) /\ E.ev = "inv"
          /\ pend[E.t].st = "idle"
          /\ PointerOk(E)
          /\ pend' = [pend EXCEPT ![E.t] = [st |-> "inv",
                                            op |-> [name |-> E.op.name, p |-> E.op.p, v |-> ToSet(E.op.v), f |-> E.op.f, bad |-> E.op.bad],
                                            ret |-> R!Err("none")]]
          /\ l' = l + 1 /\ UNCHANGED <<doc, funcs>>
Linearize(t) == /\ pend[t].st = "inv"
                /\ R!Effect(pend[t].op)
                /\ pend' = [pend EXCEPT ![t].st = "lin", ![t].ret = R!Ret(pend[t].op)]
                /\ UNCHANGED l
CallsOf(cs) == [i \in 1..Len(cs) |-> [f |-> cs[i].f, arg |-> ToSet(cs[i].arg)]]
Respond == /\ l <= Len(Rec) /\ E.ev = "res"
           /\ pend[E.t].st = "lin"
           /\ LET want == pend[E.t].ret IN
                /\ want.cls = E.ret.cls
                /\ want.v = ToSet(E.ret.v)
                /\ want.calls = CallsOf(E.ret.calls)
           /\ pend' = [pend EXCEPT ![E.t] = Idle]
           /\ l' = l + 1 /\ UNCHANGED <<doc, funcs>>
Next == Reset \/ Invoke \/ Respond \/ \E t \in Threads : Linearize(t)
Spec == Init /\ [][Next]_tvars

TreeShaped == R!TreeShaped
OneTagPerPath == R!OneTagPerPath
HasRoot == R!HasRoot

Track == TLCSet(1, IF TLCGet(1) < l THEN l ELSE TLCGet(1))
Accepted == IF TLCGet(1) = Len(Rec) + 1 THEN TRUE
            ELSE PrintT(<<"UNMATCHED", TLCGet(1)>>) /\ FALSE
==============================================================================
