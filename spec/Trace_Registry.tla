--------------------------- MODULE Trace_Registry ---------------------------
(* Linearizability of recorded Registry histories (sequential = one thread)   *)
(* against Registry.tla, plus the tokenisation of every logged pointer against *)
(* Pointer.tla.  Events: inv (operation, raw pointer characters, the tokens    *)
(* the harness meant), res (class, value as flat node list, callable calls).   *)
EXTENDS Integers, Sequences, FiniteSets, TLC, Json, IOUtils

Rec == ndJsonDeserialize(IOEnv.TRACE)
Threads == 1..4

VARIABLES doc, funcs, pend, l
R == INSTANCE Registry
P == INSTANCE Pointer
tvars == <<doc, funcs, pend, l>>
E == Rec[l]
ToSet(s) == {s[i] : i \in 1..Len(s)}

NoOp == [name |-> "", p |-> <<>>, v |-> {}, f |-> "", bad |-> FALSE]
Idle == [st |-> "idle", op |-> NoOp, ret |-> R!Err("none")]

ASSUME TLCSet(1, 0)
Init == R!RInit /\ pend = [t \in Threads |-> Idle] /\ l = 1

Reset == /\ l <= Len(Rec) /\ E.ev = "reset"
         /\ \A t \in Threads : pend[t].st = "idle"
         /\ doc' = R!EmptyObj /\ funcs' = {} /\ UNCHANGED pend /\ l' = l + 1

IsRegistration(n) == n \in {"register_value", "register_function", "merge_at"}
\* the pointer characters on the wire tokenise (RFC 6901, Pointer.tla) to the tokens of the operation;
\* a pointer logged as malformed really is malformed
PointerOk(e) == LET raw == IF IsRegistration(e.op.name) THEN P!Normalized(e.raw) ELSE e.raw IN
                IF e.op.bad THEN ~P!WellFormed(raw)
                ELSE P!WellFormed(raw) /\ P!RegistryTokens(raw) = e.op.p

Invoke == /\ l <= Len(Rec) /\ E.ev = "inv"
          /\ pend[E.t].st = "idle"
          /\ PointerOk(E)
          /\ pend' = [pend EXCEPT ![E.t] = [st |-> "inv",
                                            op |-> [name |-> E.op.name, p |-> E.op.p, v |-> ToSet(E.op.v), f |-> E.op.f, bad |-> E.op.bad],
                                            ret |-> R!Err("none")]]
          /\ l' = l + 1 /\ UNCHANGED <<doc, funcs>>
\* Array indices as built: below an array, a token is an index iff Rust's usize::from_str accepts it (an optional
\* "+", then digits, leading zeros allowed), on the read side and on the write side alike; "01" and "+1" are
\* spellings of "1".  (RFC 6901 allows only the canonical spelling; the registry is more lenient, consistently.)
\* Registry.tla compares tokens only, so the spelling is normalised here, against the document at the linearization point.
Digits == {"0", "1", "2", "3", "4", "5", "6", "7", "8", "9"}
Body(t) == IF Len(t) >= 1 /\ t[1] = "+" THEN Tail(t) ELSE t
IsIndexSpelling(t) == Len(Body(t)) >= 1 /\ \A i \in 1..Len(Body(t)) : Body(t)[i] \in Digits
RECURSIVE StripZeros(_)
StripZeros(b) == IF Len(b) > 1 /\ b[1] = "0" THEN StripZeros(Tail(b)) ELSE b
NormIdx(t) == IF IsIndexSpelling(t) THEN StripZeros(Body(t)) ELSE t
RECURSIVE NormPrefix(_, _, _)
NormPrefix(d, p, k) == IF k = 0 THEN <<>>
                       ELSE LET q == NormPrefix(d, p, k - 1) IN
                            Append(q, IF R!Has(d, q) /\ R!TagOf(d, q) = "arr" THEN NormIdx(p[k]) ELSE p[k])
\* (registrations never index: they turn whatever is on their path into objects keyed by the literal tokens)
NormOp(op) == IF IsRegistration(op.name) THEN op ELSE [op EXCEPT !.p = NormPrefix(doc, op.p, Len(op.p))]
Linearize(t) == /\ pend[t].st = "inv"
                /\ R!Effect(NormOp(pend[t].op))
                /\ pend' = [pend EXCEPT ![t].st = "lin", ![t].ret = R!Ret(NormOp(pend[t].op))]
                /\ UNCHANGED l
CallsOf(cs) == [i \in 1..Len(cs) |-> [f |-> cs[i].f, arg |-> ToSet(cs[i].arg)]]
Respond == /\ l <= Len(Rec) /\ E.ev = "res"
           /\ pend[E.t].st = "lin"
           /\ LET want == pend[E.t].ret IN
                /\ want.cls = E.ret.cls
                /\ want.v = ToSet(E.ret.v)
                /\ want.calls = CallsOf(E.ret.calls)
           /\ pend' = [pend EXCEPT ![E.t] = Idle]
           /\ l' = l + 1 /\ UNCHANGED <<doc, funcs>>
Next == Reset \/ Invoke \/ Respond \/ \E t \in Threads : Linearize(t)
Spec == Init /\ [][Next]_tvars

TreeShaped == R!TreeShaped
OneTagPerPath == R!OneTagPerPath
HasRoot == R!HasRoot

Track == TLCSet(1, IF TLCGet(1) < l THEN l ELSE TLCGet(1))
Accepted == IF TLCGet(1) = Len(Rec) + 1 THEN TRUE
            ELSE PrintT(<<"UNMATCHED", TLCGet(1)>>) /\ FALSE
==============================================================================
