SPECIFICATION Spec
CONSTANTS
  Callers <- C4
  MaxJunk = 0
  AllowFault = FALSE
  AllowTimeout = FALSE
  AllowCancel = FALSE
  HasNotify = FALSE
  ShutFirst = TRUE
  Forwarders <- F4
  ForwardRewinds = TRUE
INVARIANTS Correlated DistinctIds NotifyOnlyToSubscriber ChanAtMostOne NoResidue WaiterHasFuture RefusedForwardHarmless

CHECK_DEADLOCK FALSE
