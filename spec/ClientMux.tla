------------------------------ MODULE ClientMux ------------------------------
(***************************************************************************)
(* Request multiplexing of the three clients (src/client.rs,               *)
(* src/async_client.rs, src/websocket_client.rs): many callers share one   *)
(* connection; a pending map id -> waiter; one reader that matches each    *)
(* incoming frame to its waiter; failure propagation; per-call timeouts    *)
(* and cancellation.                                                       *)
(*                                                                         *)
(* One action per critical section of the code:                            *)
(*   Alloc     next_id.fetch_add                                           *)
(*   AllocF    forward_message: the caller brings its own id (async client);*)
(*             the counter is not touched; registering an id that is in    *)
(*             flight is refused (AlreadyExists) and changes nothing       *)
(*   Register  pending.insert (under the pending lock) - BEFORE the write  *)
(*   Write     writer lock, write + flush (fails once the writer is shut)  *)
(*   Recv      the reader takes the next frame off the wire                *)
(*   Dispatch  notify frames go to the subscriber (WebSocket client: the   *)
(*             notify flag is tested before the pending map); otherwise    *)
(*             pending.remove(id) and deliver, or drop an unknown id       *)
(*   Take      the caller receives what was delivered                      *)
(*   Timeout / Cancel   the caller gives up and removes its own entry      *)
(*   ShutWriter, Drain  fail_all_pending: two steps under two locks, the   *)
(*             writer is shut FIRST (constant ShutFirst; reversing the     *)
(*             order lets a late registrant write and wait forever)        *)
(* The server is an adversary: it may answer the requests it has read in   *)
(* any order, duplicate an answer, answer ids it never saw, push notify    *)
(* frames that reuse an in-flight id, send a malformed frame or close.     *)
(* Properties decided here: C04 (correlation) and C06 (failure handling).  *)
(***************************************************************************)
EXTENDS Naturals, Sequences, FiniteSets

CONSTANTS Callers,        \* set of caller ids
          MaxJunk,        \* how many junk frames the server may inject
          AllowFault,     \* may the connection fail (close / malformed)
          AllowTimeout,   \* may callers time out
          AllowCancel,    \* may callers be cancelled (async / ws)
          HasNotify,      \* WebSocket client: notify frames and a subscriber exist
          ShutFirst,      \* fail_all_pending shuts the writer before draining (as built)
          Forwarders,     \* callers that use forward_message: the request id is THEIRS, not drawn from the counter
          ForwardRewinds  \* FALSE as built; TRUE: forwarding resets the counter to id + 1 (must violate DistinctIds)

VARIABLES nextId, pending, pc, cid, chan, result,
          c2s, s2c,          \* the two directions of the wire (sequences of frames)
          seen,              \* request ids the server has read and not yet answered
          answered,          \* ids the server has answered at least once
          junk, cur,         \* junk budget used; the frame the reader holds ("none" or a frame)
          writerShut, reader,\* reader: "alive" | "failing1" | "failing2" | "dead"
          notes, subEnded    \* notify frames delivered to the subscriber; its stream ended

vars == <<nextId, pending, pc, cid, chan, result, c2s, s2c, seen, answered, junk, cur, writerShut, reader, notes, subEnded>>

NoFrame == [kind |-> "none", id |-> 0, tag |-> 0]
Frame(k, i, t) == [kind |-> k, id |-> i, tag |-> t]
\* the waiter behind a pending entry: the caller with that id that has registered and has not been served yet (a
\* forwarded request may carry the id of an earlier call that already has its response)
Owns(c, id) == cid[c] = id /\ pc[c] \in {"registered", "waiting"} /\ chan[c] = <<>>
Owner(id) == CHOOSE c \in Callers : Owns(c, id)
HasOwner(id) == \E c \in Callers : Owns(c, id)

Init == /\ nextId = 1 /\ pending = {} /\ pc = [c \in Callers |-> "idle"] /\ cid = [c \in Callers |-> 0]
        /\ chan = [c \in Callers |-> <<>>] /\ result = [c \in Callers |-> [cls |-> "none", id |-> 0, tag |-> 0]]
        /\ c2s = <<>> /\ s2c = <<>> /\ seen = {} /\ answered = {} /\ junk = 0 /\ cur = NoFrame
        /\ writerShut = FALSE /\ reader = "alive" /\ notes = <<>> /\ subEnded = FALSE

\* ---- callers
Alloc(c) == /\ pc[c] = "idle" /\ c \notin Forwarders
            /\ cid' = [cid EXCEPT ![c] = nextId] /\ nextId' = nextId + 1
            /\ pc' = [pc EXCEPT ![c] = "allocated"]
            /\ UNCHANGED <<pending, chan, result, c2s, s2c, seen, answered, junk, cur, writerShut, reader, notes, subEnded>>
\* a forwarded request carries an id of the caller's choosing: one that a finished call used (its late response may
\* still arrive), one in flight (to be refused), or one the counter has not reached.  Ids handed out by Alloc but not yet
\* registered are left alone: colliding with those is the forwarding application's own mistake.
ForwardIds == {cid[d] : d \in {e \in Callers : pc[e] \in {"registered", "waiting", "done"} /\ cid[e] # 0}} \cup {nextId + 5}
AllocF(c) == /\ pc[c] = "idle" /\ c \in Forwarders
             /\ \E id \in ForwardIds :
                  /\ cid' = [cid EXCEPT ![c] = id]
                  /\ nextId' = IF ForwardRewinds THEN id + 1 ELSE nextId
             /\ pc' = [pc EXCEPT ![c] = "allocated"]
             /\ UNCHANGED <<pending, chan, result, c2s, s2c, seen, answered, junk, cur, writerShut, reader, notes, subEnded>>
Done(c, r) == /\ pc' = [pc EXCEPT ![c] = "done"] /\ result' = [result EXCEPT ![c] = r]
Register(c) == /\ pc[c] = "allocated"
               /\ IF c \in Forwarders /\ cid[c] \in pending
                  THEN /\ Done(c, [cls |-> "exists", id |-> 0, tag |-> 0]) /\ UNCHANGED pending      \* refused: nothing changes
                  ELSE /\ pending' = pending \cup {cid[c]} /\ pc' = [pc EXCEPT ![c] = "registered"] /\ UNCHANGED result
               /\ UNCHANGED <<nextId, cid, chan, c2s, s2c, seen, answered, junk, cur, writerShut, reader, notes, subEnded>>
\* a write fails for certain once fail_all_pending has shut the writer; it MAY already fail as soon as the peer has
\* closed or broken the connection (the WebSocket transport refuses writes after the peer's close, TCP may reset)
FaultKinds == {"close", "malformed"}
Faulted == reader # "alive" \/ cur.kind \in FaultKinds \/ \E i \in 1..Len(s2c) : s2c[i].kind \in FaultKinds
Write(c) == /\ pc[c] = "registered"
            /\ \E ok \in (IF writerShut THEN {FALSE} ELSE IF Faulted THEN BOOLEAN ELSE {TRUE}) :
               IF ~ok
               THEN /\ pending' = pending \ {cid[c]}            \* write fails: the caller removes its entry
                    /\ Done(c, [cls |-> "err", id |-> 0, tag |-> 0]) /\ UNCHANGED c2s
               ELSE /\ c2s' = Append(c2s, [id |-> cid[c], tag |-> c])
                    /\ pc' = [pc EXCEPT ![c] = "waiting"] /\ UNCHANGED <<pending, result>>
            /\ UNCHANGED <<nextId, cid, chan, s2c, seen, answered, junk, cur, writerShut, reader, notes, subEnded>>
Take(c) == /\ pc[c] = "waiting" /\ chan[c] # <<>>
           /\ Done(c, Head(chan[c])) /\ chan' = [chan EXCEPT ![c] = Tail(@)]
           /\ UNCHANGED <<nextId, pending, cid, c2s, s2c, seen, answered, junk, cur, writerShut, reader, notes, subEnded>>
Timeout(c) == /\ AllowTimeout /\ pc[c] = "waiting" /\ chan[c] = <<>>
              /\ pending' = pending \ {cid[c]}
              /\ Done(c, [cls |-> "timeout", id |-> 0, tag |-> 0])
              /\ UNCHANGED <<nextId, cid, chan, c2s, s2c, seen, answered, junk, cur, writerShut, reader, notes, subEnded>>
\* dropping the call future at an await point (after registering): the guard removes the entry
Cancel(c) == /\ AllowCancel /\ pc[c] \in {"registered", "waiting"}
             /\ pending' = pending \ {cid[c]}
             /\ Done(c, [cls |-> "cancelled", id |-> 0, tag |-> 0])
             /\ chan' = [chan EXCEPT ![c] = <<>>]
             /\ UNCHANGED <<nextId, cid, c2s, s2c, seen, answered, junk, cur, writerShut, reader, notes, subEnded>>

\* ---- the adversarial server
SrvRead == /\ c2s # <<>> /\ seen' = seen \cup {Head(c2s).id} /\ c2s' = Tail(c2s)
           /\ UNCHANGED <<nextId, pending, pc, cid, chan, result, s2c, answered, junk, cur, writerShut, reader, notes, subEnded>>
Put(f) == s2c' = Append(s2c, f)
SrvReply(id) == /\ id \in seen /\ seen' = seen \ {id} /\ answered' = answered \cup {id}
                /\ Put(Frame("resp", id, id))                   \* the body is tagged with the id it answers
                /\ UNCHANGED <<nextId, pending, pc, cid, chan, result, c2s, junk, cur, writerShut, reader, notes, subEnded>>
SrvJunk(f) == /\ junk < MaxJunk /\ junk' = junk + 1 /\ Put(f)
              /\ UNCHANGED <<nextId, pending, pc, cid, chan, result, c2s, seen, answered, cur, writerShut, reader, notes, subEnded>>
JunkFrames == {Frame("resp", id, 99) : id \in answered}                       \* duplicate of an answered id (other content)
              \cup {Frame("resp", nextId + 7, 99)}                            \* an id never issued
              \cup (IF HasNotify THEN {Frame("notify", id, 98) : id \in seen \cup pending} ELSE {})  \* notify reusing an in-flight id
\* a close is "lossy" (tag 1) when the connection is reset rather than shut down in order: the peer closes with
\* requests unread or still arriving, or resets outright.  TCP then discards what the client has not yet read.
SrvFault(k) == /\ AllowFault /\ \A i \in 1..Len(s2c) : s2c[i].kind \notin {"close", "malformed"}
               /\ \E lossy \in {0, 1} : (lossy = 1 => k = "close") /\ Put(Frame(k, 0, lossy))
               /\ UNCHANGED <<nextId, pending, pc, cid, chan, result, c2s, seen, answered, junk, cur, writerShut, reader, notes, subEnded>>

\* the network: a reset discards every frame the client has not read yet
NetReset == /\ \E i \in 2..Len(s2c) : s2c[i].kind = "close" /\ s2c[i].tag = 1 /\ s2c' = SubSeq(s2c, i, Len(s2c))
            /\ UNCHANGED <<nextId, pending, pc, cid, chan, result, c2s, seen, answered, junk, cur, writerShut, reader, notes, subEnded>>

\* ---- the reader
Recv == /\ reader = "alive" /\ cur = NoFrame /\ s2c # <<>>
        /\ cur' = Head(s2c) /\ s2c' = Tail(s2c)
        /\ UNCHANGED <<nextId, pending, pc, cid, chan, result, c2s, seen, answered, junk, writerShut, reader, notes, subEnded>>
Dispatch ==
    /\ reader = "alive" /\ cur # NoFrame
    /\ cur' = NoFrame
    /\ CASE cur.kind \in {"close", "malformed"} ->
              /\ reader' = "failing1" /\ UNCHANGED <<pending, chan, notes>>
         [] cur.kind = "notify" ->                                  \* never consults the pending map
              /\ notes' = Append(notes, cur) /\ UNCHANGED <<pending, chan, reader>>
         [] cur.kind = "resp" ->
              /\ IF cur.id \in pending /\ HasOwner(cur.id)
                 THEN /\ pending' = pending \ {cur.id}
                      /\ chan' = [chan EXCEPT ![Owner(cur.id)] = Append(@, [cls |-> "ok", id |-> cur.id, tag |-> cur.tag])]
                 ELSE /\ pending' = pending \ {cur.id} /\ UNCHANGED chan   \* unknown / late: dropped
              /\ UNCHANGED <<notes, reader>>
    /\ UNCHANGED <<nextId, pc, cid, result, c2s, s2c, seen, answered, junk, writerShut, subEnded>>

DoShut == writerShut' = TRUE /\ UNCHANGED <<chan, pending, subEnded>>
DoDrain == /\ chan' = [c \in Callers |-> IF cid[c] \in pending /\ pc[c] \in {"registered", "waiting"}
                                         THEN Append(chan[c], [cls |-> "err", id |-> 0, tag |-> 0]) ELSE chan[c]]
           /\ pending' = {} /\ subEnded' = TRUE /\ UNCHANGED writerShut
Fail1 == /\ reader = "failing1" /\ (IF ShutFirst THEN DoShut ELSE DoDrain) /\ reader' = "failing2"
         /\ UNCHANGED <<nextId, pc, cid, result, c2s, s2c, seen, answered, junk, cur, notes>>
Fail2 == /\ reader = "failing2" /\ (IF ShutFirst THEN DoDrain ELSE DoShut) /\ reader' = "dead"
         /\ UNCHANGED <<nextId, pc, cid, result, c2s, s2c, seen, answered, junk, cur, notes>>

CallerStep == \E c \in Callers : Alloc(c) \/ AllocF(c) \/ Register(c) \/ Write(c) \/ Take(c) \/ Timeout(c) \/ Cancel(c)
ServerStep == SrvRead \/ (\E id \in seen : SrvReply(id)) \/ (\E f \in JunkFrames : SrvJunk(f)) \/ (\E k \in {"close", "malformed"} : SrvFault(k)) \/ NetReset
ReaderStep == Recv \/ Dispatch \/ Fail1 \/ Fail2
Next == CallerStep \/ ServerStep \/ ReaderStep
Spec == Init /\ [][Next]_vars
FairSpec == Spec /\ WF_vars(ReaderStep) /\ \A c \in Callers : WF_vars(Take(c) \/ Write(c) \/ Register(c))

--------------------------------------------------------------------------------
\* C04
Correlated == \A c \in Callers : result[c].cls = "ok" => (result[c].id = cid[c] /\ result[c].tag = cid[c])
\* ids the client itself issued (Alloc) are pairwise distinct over the connection's life, forwarding or not
DistinctIds == \A a, b \in Callers \ Forwarders : (a # b /\ cid[a] # 0 /\ cid[b] # 0) => cid[a] # cid[b]
\* a refused forward leaves no trace: its id is still owned by whoever had it
RefusedForwardHarmless == \A c \in Forwarders : (pc[c] = "done" /\ result[c].cls = "exists") => cid[c] \in pending \/ \E d \in Callers \ {c} : cid[d] = cid[c]
NotifyOnlyToSubscriber == \A c \in Callers : result[c].cls = "ok" => result[c].tag # 98
ChanAtMostOne == \A c \in Callers : Len(chan[c]) <= 1
\* C06
\* (an id may be in the map again on behalf of a LATER forwarded request that chose the same id)
OwnedByOther(c) == \E d \in Callers \ {c} : cid[d] = cid[c] /\ pc[d] \in {"registered", "waiting"}
NoResidue == \A c \in Callers : (pc[c] = "done" /\ result[c].cls # "ok") => (cid[c] \notin pending \/ OwnedByOther(c))
\* once the reader is dead every waiting caller already has its verdict: nobody can hang
WaiterHasFuture == reader = "dead" => \A c \in Callers : pc[c] = "waiting" => chan[c] # <<>>
DeadMeansDrained == reader = "dead" => (pending \subseteq {cid[c] : c \in {d \in Callers : pc[d] = "registered"}} /\ subEnded /\ writerShut)
\* every started call eventually finishes (with fairness; timeouts/cancels off so that failure handling alone must do it)
AllFinish == \A c \in Callers : (pc[c] = "waiting" /\ reader # "alive") ~> (pc[c] = "done")
==============================================================================
